import SkoolVerif.Proofs.CtlLengthsLemmas
import SkoolVerif.Proofs.CtlComposeLemmas
import SkoolVerif.Proofs.CtlCommentsLemmas
/-!
C03 — skool -> control file -> skool round trip.  Property theorems only; helper lemmas live in
`SkoolVerif/Proofs/Ctl*Lemmas.lean`.  Models (hand-written, tied to /repo by the correspondence
check `harness/props/c03.py`):
* `Model/CtlLengths`  — `get_lengths` / `parse_params '*'` / trailing-duplicate trimming and the
  "last sublength is used for all remaining data" loop / 'C' sublength merging by operand bases;
* `Model/CtlCompose`  — `Disassembler.defb_items`+`get_message`+`_num_str` (ctl -> skool) and
  `ControlDirectiveComposer._get_defb_defm_length` + `_parse_length` (skool -> ctl), token level;
* `Model/CtlComments` — dots-escaping of blank multi-instruction comments, paragraph writing/splitting,
  line-preserving (-k) comment groups with '.'/':' continuation lines.
-/
namespace C03
open CtlLengths CtlCompose CtlComments

/-! ## statement lengths: `*` abbreviation, trimming, refill -/

/-- `parse_params` undoes `get_lengths`: expanding the `len*mult` abbreviation of any list of
statement sublength specifications gives the list back (no bound on the list). -/
theorem expand_abbrev {α : Type} [DecidableEq α] (xs : List α) : expand (getLengths xs) = xs := by
  have := expand_foldl xs ([] : List (α × Nat))
  simpa [getLengths, expand] using this

/-- What `get_lengths` writes is in normal form: every multiplier is at least 1 and neighbouring
elements differ (so the abbreviation is the shortest one). -/
theorem abbrev_normal {α : Type} [DecidableEq α] (xs : List α) : Normal (getLengths xs) :=
  normal_reverse _ (normal_foldl xs [] ⟨by simp, by simp [NoAdj]⟩)

/-- Second trip, length layer: abbreviating the expansion of a normal-form list reproduces it, hence
`get_lengths ∘ parse_params ∘ get_lengths = get_lengths`. -/
theorem abbrev_expand_fixed {α : Type} [DecidableEq α] (gs : List (α × Nat)) (h : Normal gs) :
    getLengths (expand gs) = gs := by
  have := foldl_expand gs [] h (by simp)
  simp [getLengths, this]

theorem abbrev_idempotent {α : Type} [DecidableEq α] (xs : List α) :
    getLengths (expand (getLengths xs)) = getLengths xs :=
  abbrev_expand_fixed _ (abbrev_normal xs)

/-- Dropping trailing duplicate sublengths is undone by sna2skool's "the final sublength is used for
all remaining data": laying the trimmed list out over the total length gives every statement its
own specification back.  `len` is the byte length a specification denotes (always positive). -/
theorem trim_refill {α : Type} [DecidableEq α] (len : α → Nat) (hpos : ∀ s, 0 < len s)
    (xs : List α) (hx : xs ≠ []) : layout len (total len xs) (trimTail xs) = xs :=
  trim_refill_aux len hpos xs hx

/-- The whole B/S/T/W length parameter pipeline: trim, abbreviate with `*`, parse, lay out. -/
theorem trim_abbrev_refill {α : Type} [DecidableEq α] (len : α → Nat) (hpos : ∀ s, 0 < len s)
    (xs : List α) (hx : xs ≠ []) :
    layout len (total len xs) (expand (getLengths (trimTail xs))) = xs := by
  rw [expand_abbrev]; exact trim_refill len hpos xs hx

/-- 'C' sub-blocks: merging neighbouring instructions with equal operand bases (and skipping
zero-size ones) does not change the base any byte of the sub-block is disassembled with. -/
theorem c_merge_bytes {α : Type} [DecidableEq α] (instrs : List (α × Nat)) :
    bytesOf (cMerge instrs) = bytesOf instrs := by
  have := bytesOf_foldl instrs ([] : List (α × Nat))
  simpa [cMerge, bytesOf] using this

/-- Trimming a commentless 'C' directive only ever removes base-less (default base) bytes at its two
ends: the per-byte base map is the trimmed one padded with `none`. -/
theorem c_trim_bytes {α : Type} [DecidableEq α] (sl : List (Option α × Nat)) :
    ∃ k, bytesOf sl = List.replicate (cTrim sl).1 none ++ bytesOf (cTrim sl).2 ++ List.replicate k none := by
  unfold cTrim
  split
  · -- more than one element
    have key : ∀ sl1 : List (Option α × Nat), (∃ k, bytesOf sl = bytesOf sl1 ++ List.replicate k none) →
        ∃ k, bytesOf sl = List.replicate (match sl1 with | (none, n) :: r => (n, r) | _ => (0, sl1)).1 none ++
          bytesOf (match sl1 with | (none, n) :: r => (n, r) | _ => (0, sl1)).2 ++ List.replicate k none := by
      intro sl1 ⟨k, hk⟩
      refine ⟨k, ?_⟩
      rw [hk]
      match sl1 with
      | [] => simp [bytesOf]
      | (none, n) :: r => simp [bytesOf]
      | (some a, n) :: r => simp [bytesOf]
    apply key
    cases hrev : sl.reverse with
    | nil => exact ⟨0, by simp⟩
    | cons g r =>
      obtain ⟨b, n⟩ := g
      have hsl : sl = r.reverse ++ [(b, n)] := by
        have := congrArg List.reverse hrev; simpa using this
      cases b with
      | none => exact ⟨n, by rw [hsl, bytesOf_append]; simp [bytesOf]⟩
      | some a => exact ⟨0, by simp⟩
  · exact ⟨0, by simp⟩

/-! ## DEFB / DEFM statements: sublengths and operand bases -/

/-- Every operand `defb_items` writes is canonical for the configuration, and the operands spell
exactly the bytes of the statement (for any data, any sublength list that tiles it). -/
theorem render_canonical (cfg : Cfg) (data : List Nat) (sl : List (Nat × Base)) (toks : List Tok)
    (hpos : ∀ s ∈ sl, 0 < s.1) (hsum : (sl.map (·.1)).sum = data.length) (hd : ∀ b ∈ data, b < 256)
    (h : defbItems cfg data sl = some toks) :
    (∀ t ∈ toks, Canon cfg t) ∧ toks.flatMap tokBytes = data := by
  unfold defbItems at h
  rw [defbGroups_eq cfg data sl 0 hpos, List.drop_zero] at h
  cases hg : groupsOn cfg data sl with
  | none => rw [hg] at h; simp at h
  | some gs =>
    rw [hg] at h
    simp only [Option.map_some, Option.some.injEq] at h
    subst h
    exact groupsOn_canon cfg sl data gs hpos hsum hd hg

/-- Token-level heart of the fixpoint: for *any* list of canonical operands (i.e. any DEFB/DEFM
statement in the form sna2skool writes), composing the `-b` sublengths and rendering them over the
bytes the operands stand for reproduces the operands, for DEFB ('c' prefix for text) and DEFM
(default base 'c') alike. -/
theorem compose_render (cfg : Cfg) (kind : Kind) (toks : List Tok) (hc : ∀ t ∈ toks, Canon cfg t) :
    defbItems cfg (toks.flatMap tokBytes)
      ((compose kind true (toks.map (classify true))).2.map (parseLen kind)) = some toks ∧
    (compose kind true (toks.map (classify true))).1 = (toks.flatMap tokBytes).length := by
  obtain ⟨h1, h2⟩ := compose_eq_segs kind true (toks.map (classify true))
  obtain ⟨gs, hg, hf, hs⟩ := segs_render cfg kind toks hc [] .d (by simp)
  simp only [pendR, List.nil_append, if_true] at hg hf hs
  have hpos : ∀ s ∈ (segs kind true none (toks.map (classify true))).map (parseLen kind), 0 < s.1 := by
    intro s hs'
    obtain ⟨x, hx, rfl⟩ := List.mem_map.1 hs'
    exact segs_pos kind true _ none (by simp) x hx
  refine ⟨?_, ?_⟩
  · unfold defbItems
    rw [h1, defbGroups_eq cfg _ _ 0 hpos]
    simp only [List.drop_zero, hg, Option.map_some, hf]
  · rw [h2, h1]; exact hs

/-- **sublengths_fixpoint.**  Take any data bytes and any sublength list a ctl file can give for them
(all six base letters, text runs, any split), let sna2skool render the DEFB/DEFM statement, let
`skool2ctl -b` compose its sublengths and parse them back: rendering again gives the same statement
text, and the composed total length is the statement's byte count. -/
theorem sublengths_fixpoint (cfg : Cfg) (kind : Kind) (data : List Nat) (sl : List (Nat × Base))
    (toks : List Tok) (hpos : ∀ s ∈ sl, 0 < s.1) (hsum : (sl.map (·.1)).sum = data.length)
    (hd : ∀ b ∈ data, b < 256) (h : defbItems cfg data sl = some toks) :
    defbItems cfg data ((compose kind true (toks.map (classify true))).2.map (parseLen kind)) = some toks ∧
    (compose kind true (toks.map (classify true))).1 = data.length := by
  obtain ⟨hc, hb⟩ := render_canonical cfg data sl toks hpos hsum hd h
  have := compose_render cfg kind toks hc
  rwa [hb] at this

/-- **second_trip_fixed_point** (statement layer): the ctl sublengths composed from the regenerated
statement are the ones composed from the original — the second trip changes nothing. -/
theorem second_trip_fixed_point (cfg : Cfg) (kind : Kind) (data : List Nat) (sl : List (Nat × Base))
    (toks toks2 : List Tok) (hpos : ∀ s ∈ sl, 0 < s.1) (hsum : (sl.map (·.1)).sum = data.length)
    (hd : ∀ b ∈ data, b < 256) (h : defbItems cfg data sl = some toks)
    (h2 : defbItems cfg data ((compose kind true (toks.map (classify true))).2.map (parseLen kind)) = some toks2) :
    compose kind true (toks2.map (classify true)) = compose kind true (toks.map (classify true)) := by
  have := (sublengths_fixpoint cfg kind data sl toks hpos hsum hd h).1
  rw [this] at h2
  simp only [Option.some.injEq] at h2
  rw [h2]

/-- A sublength of 0 means "the whole statement" (`if not size: size = len(data)`). -/
theorem zero_size_is_whole (cfg : Cfg) (data : List Nat) (base : Base) (hne : data ≠ []) :
    defbItems cfg data [(0, base)] = defbItems cfg data [(data.length, base)] := by
  have : data.length ≠ 0 := by simpa using hne
  simp [defbItems, defbGroups, this]

/-! ## comments -/

/-- **Blank and dots-only comments.**  The dot prefix skool2ctl adds to a multi-instruction comment
made only of dots (including the empty one) is removed again by sna2skool; every other comment, and
every single-instruction comment, passes unchanged. -/
theorem dots_escape_roundtrip (n : Nat) (text : List Char) :
    unescapeComment n (escapeComment n text) = text := by
  have hcons : ∀ t : List Char, allDots ('.' :: t) = allDots t := by intro t; simp [allDots]
  by_cases hn : n > 1
  · by_cases hd : allDots text = true
    · have e : escapeComment n text = some ('.' :: text) := by simp [escapeComment, hn, hd]
      have m : multiLine n (some ('.' :: text)) = true := by simp [multiLine, hn]
      rw [e]
      simp only [unescapeComment, m, Option.getD_some, hcons, hd, and_self, if_true, List.tail_cons]
    · have hne : text ≠ [] := by intro e; subst e; simp [allDots] at hd
      have e : escapeComment n text = some text := by simp [escapeComment, hd, hne]
      rw [e]
      simp only [unescapeComment, Option.getD_some, hd]
      simp
  · by_cases he : text = []
    · subst he
      have e : escapeComment n [] = none := by simp [escapeComment, hn]
      rw [e]; simp [unescapeComment, multiLine]
    · have e : escapeComment n text = some text := by simp [escapeComment, hn, he]
      rw [e]
      have m : multiLine n (some text) = false := by simp [multiLine, hn]
      simp [unescapeComment, m]

/-- A comment that spans several instructions is always written (even when blank or dots-only), so
sna2skool sees a multi-line comment and regenerates its braces; for a single instruction the flag is off. -/
theorem blank_multi_comment_visible (n : Nat) (text : List Char) :
    multiLine n (escapeComment n text) = decide (n > 1) := by
  by_cases hn : n > 1
  · by_cases hd : allDots text = true
    · have e : escapeComment n text = some ('.' :: text) := by simp [escapeComment, hn, hd]
      rw [e]; simp [multiLine, hn]
    · have hne : text ≠ [] := by intro e; subst e; simp [allDots] at hd
      have e : escapeComment n text = some text := by simp [escapeComment, hd, hne]
      rw [e]; simp [multiLine, hn, hne]
  · simp [multiLine, hn]

/-- The greedy wrapper keeps the words and their order and writes no empty line. -/
theorem wrap_flatten {ω : Type} [DecidableEq ω] (len : ω → Nat) (width : Nat) (ws : List ω) :
    (wrapGreedy len width ws).flatten = ws ∧ ∀ l ∈ wrapGreedy len width ws, l ≠ [] := by
  simpa [wrapGreedy] using wrapGo_spec len width ws [] 0

/-- **comment_roundtrip** (paragraphs).  Writing a list of non-empty paragraphs as wrapped comment
lines separated by '.' lines and reading them back with `join_comments(split=True)` gives the
paragraphs back, for every wrapping function that keeps the words, provided no wrapped line is the
lone word '.' (which *is* the separator in the skool format). -/
theorem comment_roundtrip {ω : Type} [DecidableEq ω] (dot : ω) (wrap : List ω → List (List ω))
    (hw : ∀ ws, (wrap ws).flatten = ws) (ps : List (List ω)) (hne : ∀ p ∈ ps, p ≠ [])
    (hnd : ∀ p ∈ ps, ∀ l ∈ wrap p, l ≠ [dot]) :
    splitParas dot (writeParas dot wrap ps) = ps := by
  cases ps with
  | nil => simp [splitParas, writeParas]
  | cons p t =>
    have := foldl_paras dot wrap hw t (fun x hx => hnd x (List.mem_cons_of_mem _ hx)) p [] [] (hnd p (by simp))
    simp only [splitParas, this, List.nil_append, List.reverse_append, List.reverse_cons, List.reverse_nil,
      List.reverse_reverse, List.cons_append]
    rw [List.filter_eq_self.2]
    intro x hx
    simpa using hne x (by simpa using hx)

/-- Instance for the greedy wrapper. -/
theorem comment_roundtrip_greedy {ω : Type} [DecidableEq ω] (dot : ω) (len : ω → Nat) (width : Nat)
    (ps : List (List ω)) (hne : ∀ p ∈ ps, p ≠ [])
    (hnd : ∀ p ∈ ps, ∀ l ∈ wrapGreedy len width p, l ≠ [dot]) :
    splitParas dot (writeParas dot (wrapGreedy len width) ps) = ps :=
  comment_roundtrip dot _ (fun ws => (wrap_flatten len width ws).1) ps hne hnd

/-- **Line-preserving comments (-k).**  For any comment given as one non-empty group of lines per
instruction, the '.'/':' lines skool2ctl -k writes (after dropping trailing blank groups) are
distributed by sna2skool to the same instructions with the same lines.  (A single blank group on a
single instruction is "no comment" and is not written.) -/
theorem keep_lines_grouped_roundtrip {α : Type} [DecidableEq α] (blank : α) (groups : List (List α))
    (hne : groups ≠ []) (hg : ∀ g ∈ groups, g ≠ []) (h1 : groups ≠ [[blank]]) :
    readKeep blank groups.length (writeGrouped blank groups) = some groups := by
  obtain ⟨j, hj, hmin⟩ := popBlank_spec blank (min (groups.length - 1) 1) groups
  have hlen : groups.length ≠ 0 := by simpa using hne
  have hm := hmin (by omega)
  generalize hk : popBlank blank (min (groups.length - 1) 1) groups = kept at hj hm
  have hkg : ∀ g ∈ kept, g ≠ [] := fun g hgk => hg g (by rw [hj]; simp [hgk])
  have hn : groups.length = kept.length + j := by
    conv => lhs; rw [hj]
    simp
  have hkne : kept ≠ [] := by
    intro e
    subst e
    simp only [List.nil_append] at hj
    simp only [List.length_nil] at hm
    have : groups.length = 1 := by omega
    rw [hj] at this
    simp only [List.length_replicate] at this
    subst this
    exact h1 (by simpa using hj)
  have hd := distr_emit blank groups.length kept hkg 0 j (by omega)
  unfold readKeep writeGrouped
  simp only [hk]
  have hlines : emit groups.length 0 kept ≠ [] := by
    match kept, hkne, hkg with
    | (l :: ls) :: rest, _, _ => simp [emit, emitGroup]
    | [] :: rest, _, hkg => exact absurd rfl (hkg [] (by simp))
  rw [if_neg hlines, hn]
  rw [hn] at hd
  rw [hd, ← hj]

/-- The writer before the fix (`index < len(lines) - 1` evaluated on the popped list) did lose
information: two instructions, "one"/"two" on the first, nothing on the second. -/
theorem old_writer_loses_colon :
    readKeep 0 2 (writeGroupedOld 0 2 [[1, 2], [0]]) ≠ some [[1, 2], [0]] ∧
    readKeep 0 2 (writeGrouped 0 [[1, 2], [0]]) = some [[1, 2], [0]] := by
  decide

/-- ... and dropped a blank comment of an M directive (one pseudo-instruction, `nInstr = 1`) entirely. -/
theorem old_writer_drops_blank_M :
    readKeep 0 2 (writeGroupedOld 0 1 [[0], [0]]) = none ∧
    readKeep 0 2 (writeGrouped 0 [[0], [0]]) = some [[0], [0]] := by
  decide

/-! ## non-vacuity: concrete values taken from the real tools -/

-- '16,16,16,8,8,4' -> '16*3,8*2,4'
example : getLengths [16, 16, 16, 8, 8, 4] = [(16, 3), (8, 2), (4, 1)] := by decide
example : Normal [((16 : Nat), 3), (8, 2), (4, 1)] := by simp [Normal, NoAdj]
-- B 32768,27,8*3,3 written as `8,3` (trailing 8s... none here) ; 8,8,8,3 keeps all; 3,8,8,8 -> 3,8
example : trimTail [3, 8, 8, 8] = [3, 8] := by decide
example : layout (fun n : Nat => n) 27 [3, 8] = [3, 8, 8, 8] := by decide
-- C 32768,5,d2,1,d2 : LD A,1 / XOR A / LD A,2
example : cMerge [(some 'd', 2), (none, 1), (some 'd', 2)] = [(some 'd', 2), (none, 1), (some 'd', 2)] := by decide
example : cTrim [((none : Option Char), 1), (some 'd', 2), (none, 1)] = (1, [(some 'd', 2)]) := by decide
-- DEFB 1,"a","bc",$80 in a decimal disassembly: B n,d1:c1:c2:h1
example : defbItems ⟨false⟩ [1, 97, 98, 99, 128] [(1, .n), (1, .c), (2, .c), (1, .h)] =
    some [.dec 1, .str [97], .str [98, 99], .hex 128] := by decide
example : compose .B true ([Tok.dec 1, .str [97], .str [98, 99], .hex 128].map (classify true)) =
    (5, [(some .d, 1), (some .c, 1), (some .c, 2), (some .h, 1)]) := by decide
-- DEFM "Hell","o"+128 : T n,4:1
example : defbItems ⟨false⟩ [72, 101, 108, 108, 239] [(4, .c), (1, .c)] = some [.str [72, 101, 108, 108], .chrHi 111] := by decide
example : compose .T true [Item.str 4, .str 1] = (5, [(none, 4), (none, 1)]) := by decide
-- text with unprintable bytes: get_message splits, -H writes $00
example : defbItems ⟨true⟩ [65, 0, 66] [(3, .c)] = some [.str [65], .hex 0, .str [66]] := by decide
-- m base: -0 for a zero byte
example : defbItems ⟨false⟩ [0, 255] [(2, .m)] = some [.neg false 0, .neg false 1] := by decide
example : Canon ⟨false⟩ (.neg false 0) := by simp [Canon]
-- overrun: IndexError of get_message, stray commas of format_byte
example : defbItems ⟨false⟩ [1] [(1, .n), (2, .c)] = none := by decide
example : defbItems ⟨false⟩ [1] [(1, .n), (1, .b)] = some [.dec 1, .blank] := by decide
-- comments
example : escapeComment 2 [] = some ['.'] := by decide
example : escapeComment 2 ['.', '.', '.'] = some ['.', '.', '.', '.'] := by decide
example : escapeComment 1 [] = none := by decide
example : escapeComment 2 ['a', '.'] = some ['a', '.'] := by decide
example : writeGrouped 0 [[1, 2], [0], [0]] = [(false, 1), (true, 2)] := by decide
example : writeParas 0 (wrapGreedy (fun _ => 3) 7) [[1, 2, 3], [4]] = [[1, 2], [3], [0], [4]] := by decide

end C03
