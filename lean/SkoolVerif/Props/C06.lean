import SkoolVerif.Proofs.CmioVsSimRun
import SkoolVerif.Proofs.CVsPyExamples
import SkoolVerif.Proofs.CVsPyInterrupt
import SkoolVerif.Proofs.RunLoop
/-!
C06 — all four simulator implementations execute every program identically.

* The seven C dispatch tables (`c/csimulator.c`, shared by the plain and the `-DCONTENTION` build)
  equal the seven Python tables slot by slot — 1792 hand-typed rows compared by the kernel on
  definitions regenerated from both sources on every run.
* `CMIOSimulator` dispatches to the same closure as `Simulator` for every opcode sequence.
* Python pair: one step of the contended simulator leaves registers, flags, memory, PC, IFF, IM,
  HALT and the port-access sequence exactly as one step of the plain simulator does (T and MEMPTR
  aside, and bits 5 and 3 of F after BIT n,(HL), which the contended simulator derives from MEMPTR) —
  for every closure, any arguments, any state, under the frame layout `CfgOk` both machines have.
* The C handler bodies ARE translated (`translate/c2lean.py`, both builds of `c/csimulator.c`, on every
  run: `Gen/CHandlers.lean`, `Gen/CCmioHandlers.lean`) and proved equal, as functions on the whole state, to
  the Python closures of the same name — for every well-formed argument tuple the C dispatch tables can
  denote (`cArgsOk`, which every row satisfies) and every in-range state whose clock and frame
  configuration fit the C data types (`CRep`): `c_handlers_eq_python`, lifted through the model of
  `GET_OPCODE_FUNC` to one instruction (`c_step_eq_python`) and to runs of any length
  (`c_run_eq_python`), and the same for the `-DCONTENTION` build against `CMIOSimulator`.
  One genuine difference was found by the proof: `OUT` on 128K memory pages in C even when no tracer is
  attached, in Python only through the tracer (`C06_c_out_full` is refuted; the theorems carry `OutOk`).
* `accept_interrupt` is translated too and proved equal to the hand model of the Python methods that C10/C20 use.
* Still differential only (`harness/props/c06.py`): the C run loops around the handlers (`run`, `exec_frame`,
  `trace`: when they call `accept_interrupt`, stop conditions), the C lookup tables' `init_*` code (every entry the
  handlers index is read back through the real C handlers and compared with simtables.py each run), `dec_a`.
-/
namespace C06
open Z80 DispatchEq CmioVsSim

theorem c_dispatch_eq_py_main : CSim.tbl_MAIN = Sim.tbl_MAIN := c_MAIN
theorem c_dispatch_eq_py_cb : CSim.tbl_CB = Sim.tbl_CB := c_CB
theorem c_dispatch_eq_py_ed : CSim.tbl_ED = Sim.tbl_ED := c_ED
theorem c_dispatch_eq_py_dd : CSim.tbl_DD = Sim.tbl_DD := c_DD
theorem c_dispatch_eq_py_fd : CSim.tbl_FD = Sim.tbl_FD := c_FD
theorem c_dispatch_eq_py_ddcb : CSim.tbl_DDCB = Sim.tbl_DDCB := c_DDCB
theorem c_dispatch_eq_py_fdcb : CSim.tbl_FDCB = Sim.tbl_FDCB := c_FDCB

/-- the contended Python simulator runs, for every opcode sequence, the same closure (with the same
arguments) as the plain one -/
theorem cmio_runs_same_closure {μ : Type} [MemLike μ] (s : St μ) :
    Cmio.leafOf s = toCmio (Sim.leafOf s) := leafOf_map s

/-- Python pair, one instruction from any state: identical registers (incl. R), flags, memory, PC,
IFF, IM, HALT, pending port readings, port-write and port-read sequences — every closure but
BIT n,(HL) (`isBitHl`; see `python_pair_agree_modF53`).  `CfgOk cfg`: the frame layout of both
machine configurations (`C19.frame_layout_ok`), needed by HALT and LD A,I/R which test the interrupt
window after the contention delay has been added. -/
theorem python_pair_agree {μ : Type} [MemLike μ] (cfg : Cfg) (s : St μ)
    (hb : isBitHl (Sim.leafOf s) = false) (hr : RegsOk s.reg) (hcfg : CfgOk cfg) :
    SameButClock (Sim.step cfg s) (Cmio.step cfg s) := same_step cfg s hb hr hcfg

/-- every closure, BIT n,(HL) included: identical but for T, MEMPTR and bits 5 and 3 of F (which the
contended simulator takes from MEMPTR: they differ by design) -/
theorem python_pair_agree_modF53 {μ : Type} [MemLike μ] (cfg : Cfg) (s : St μ)
    (hr : RegsOk s.reg) (hcfg : CfgOk cfg) :
    SameModF53 (Sim.step cfg s) (Cmio.step cfg s) := sameModF53_step cfg s hr hcfg

/-- Python pair, `m ≤ n` instructions from the same state (no interrupt accepted in between): still
identical but for T and MEMPTR, as long as the plain run keeps its registers in range and executes none
of HALT, LD A,I/R (their effect depends on T, which differs) and BIT n,(HL) (`clockFree_false_iff`). -/
theorem python_pair_agree_run {μ : Type} [MemLike μ] (cfg : Cfg) (hcfg : CfgOk cfg) (n : Nat) (s : St μ)
    (hall : ∀ k, k < n → RegsOk (Sim.runN cfg k s).reg ∧ clockFree (Sim.leafOf (Sim.runN cfg k s)) = true)
    (m : Nat) (hm : m ≤ n) :
    SameButClock (Sim.runN cfg m s) (Cmio.runN cfg m s) := same_runN cfg hcfg n s hall m hm

theorem clockFree_false_iff (i : Sim.Instr) :
    clockFree i = false ↔ (∃ b t, i = .bit_hl b t) ∨ i = .halt ∨ (∃ r, i = .ld_a_ir r) := clockFree_iff i

/-- the closure with the weaker statement is exactly BIT n,(HL) -/
theorem isBitHl_iff (i : Sim.Instr) : isBitHl i = true ↔ ∃ b t, i = .bit_hl b t := by
  cases i <;> simp [isBitHl]

/-- both machine configurations have the frame layout -/
theorem frame_layout_ok : CfgOk (Contend.cfgFor false) ∧ CfgOk (Contend.cfgFor true) := ⟨cfgOk_48k, cfgOk_128k⟩

-- non-vacuity: a concrete slot where the C and Python rows are (the same) non-trivial closure call
example : CSim.tbl_MAIN[0x09]! = .add_rr .R1 11 1 6 7 2 3 := by decide +kernel
example : Sim.tbl_DDCB[0x06]! = .f_xy .RLC 8 9 (-1) := by decide +kernel


/-! ### the C handler bodies (translated on every run) against the Python closures -/

/-- Plain build: every C handler computes exactly the state (all registers, memory, PC, T, IFF, IM, HALT, MEMPTR,
port logs) the Python closure computes, for any well-formed argument tuple a C dispatch row can denote and any
in-range state representable in the C data types.  `OutOk`: see `C06_c_out_full`. -/
theorem c_handlers_eq_python {μ : Type} [MemLike μ] [CellMem μ] (cfg : Cfg) (i : Sim.Instr)
    (hwf : Sim.instrWf i = true) (hc : CSimH.cArgsOk i = true) (s : St μ) (h : RInv s) (hrep : CRep cfg s)
    (hout : CSimH.OutOk cfg s) : CSimH.execLeaf cfg i s = Sim.execLeaf cfg i s :=
  CSimH.c_execLeaf_eq cfg i hwf hc s h hrep hout

/-- `-DCONTENTION` build against `CMIOSimulator`: identical states, delays and MEMPTR included -/
theorem c_cmio_handlers_eq_python {μ : Type} [MemLike μ] [CellMem μ] [PageStable μ] (cfg : Cfg) (i : Cmio.Instr)
    (hwf : Cmio.instrWf i = true) (hc : CCmioH.cArgsOk i = true) (s : St μ) (h : RInv s) (hrep : CRep cfg s)
    (hout : CCmioH.OutOk cfg s) : CCmioH.execLeaf cfg i s = Cmio.execLeaf cfg i s :=
  CCmioH.c_execLeaf_eq cfg i hwf hc s h hrep hout

/-- every row of the seven dispatch tables is an argument tuple the C handlers are written for: the hypothesis
`cArgsOk` of the two theorems above never excludes an instruction the simulators can execute -/
theorem c_dispatch_rows_args_ok (t : Sim.OpTbl) (i : Int) (t' : Cmio.OpTbl) :
    CSimH.cArgsOk (t.get i) = true ∧ CCmioH.cArgsOk (t'.get i) = true :=
  ⟨CSimH.get_cargs t i, CCmioH.get_cargs t' i⟩

/-- the C macro `GET_OPCODE_FUNC` over the C tables selects, for every opcode sequence, the row Python's
`opcodes[memory[pc]]` / `prefix` / `prefix2` chain selects -/
theorem c_fetch_eq_python {μ : Type} [MemLike μ] [CellMem μ] (s : St μ) (hm : MemOk s.mem) :
    CSimH.leafOf s = Sim.leafOf s := CSimH.leafOf_eq s hm

/-- one instruction of the plain C simulator = one instruction of `Simulator`, from any in-range state -/
theorem c_step_eq_python {μ : Type} [MemLike μ] [CellMem μ] (cfg : Cfg) (s : St μ) (h : RInv s) (hrep : CRep cfg s)
    (hout : CSimH.OutOk cfg s) : CSimH.step cfg s = Sim.step cfg s := CSimH.step_eq_py cfg s h hrep hout

/-- one instruction of the contended C simulator = one instruction of `CMIOSimulator` -/
theorem c_cmio_step_eq_python {μ : Type} [MemLike μ] [CellMem μ] [PageStable μ] (cfg : Cfg) (s : St μ) (h : RInv s)
    (hrep : CRep cfg s) (hout : CCmioH.OutOk cfg s) : CCmioH.step cfg s = Cmio.step cfg s :=
  CCmioH.step_eq_py cfg s h hrep hout

/-- any number of instructions (no interrupt accepted in between): the plain C run ends in exactly the state of the
Python run, provided the clock stays below 2^63 (an instruction adds at most 23 T-states) -/
theorem c_run_eq_python {μ : Type} [MemLike μ] [CellMem μ] (cfg : Cfg) (hcfg : CSimH.CfgRep cfg)
    (hout : CSimH.OutOkAll μ cfg) (n : Nat) (s : St μ) (h : RInv s)
    (ht : s.t + n * Tshift.maxDur < 9223372036854775808) : CSimH.runN cfg n s = Sim.runN cfg n s :=
  CSimH.runN_eq_py cfg hcfg hout n s h ht

/-- the same for the contended pair (an instruction adds at most 143 T-states) -/
theorem c_cmio_run_eq_python {μ : Type} [MemLike μ] [CellMem μ] [PageStable μ] (cfg : Cfg) (hcfg : CSimH.CfgRep cfg)
    (hout : CSimH.OutOkAll μ cfg) (n : Nat) (s : St μ) (h : RInv s)
    (ht : s.t + n * Tshift.maxDurCmio < 9223372036854775808) : CCmioH.runN cfg n s = Cmio.runN cfg n s :=
  CCmioH.runN_eq_py cfg hcfg hout n s h ht

/-- The C function `accept_interrupt` (both builds, translated like the handlers) computes exactly what the hand model
`TraceLoop.acceptInterrupt` of `Simulator.accept_interrupt` / `CMIOSimulator.accept_interrupt` computes — the model
C10 and C20 use for the trace / RZX loops (that model is tied to the Python methods by correspondence, not by
translation): same state, and return value 1 exactly when the interrupt is accepted. -/
theorem c_accept_interrupt_eq_model {μ : Type} [MemLike μ] [CellMem μ] (cfg : Cfg) (prevPc : Int)
    (hp : 0 ≤ prevPc ∧ prevPc < 65536) (s : St μ) (h : RInv s) (hrep : CRep cfg s) :
    CSimH.accept_interrupt cfg prevPc s =
      ((TraceLoop.acceptInterrupt false s prevPc).1, if (TraceLoop.acceptInterrupt false s prevPc).2 = true then 1 else 0) ∧
    CCmioH.accept_interrupt cfg prevPc s =
      ((TraceLoop.acceptInterrupt true s prevPc).1, if (TraceLoop.acceptInterrupt true s prevPc).2 = true then 1 else 0) :=
  ⟨CVsPyInt.plain cfg prevPc hp s h hrep, CVsPyInt.contended cfg prevPc hp s h hrep⟩

/-- The full statement for `OUT (n),A` without the side condition `OutOk` ... -/
def C06_c_out_full : Prop :=
  ∀ (cfg : Cfg) (s : St Mem128), RInv s → CRep cfg s → CSimH.out_a cfg s = Sim.out_a cfg s

/-- ... is false: on 128K memory with no tracer attached the C handler pages (the `OUT` macro calls `out7ffd()`
itself), the Python closure does nothing (paging is left to `PagingTracer.write_port`).  Witness: all registers 0,
0x7FFD value 1, port 0x0000, value 0 (`Proofs/CVsPyExamples.lean`); replayed on the real classes by
`harness/props/c06.py` (key `c-pages-128k-without-tracer`).  Every tool attaches a paging tracer to a 128K
simulator, so the difference is only reachable through the classes' API. -/
theorem c_out_full_false : ¬ C06_c_out_full := by
  intro h
  have e := h {} CVsPyEx.st128 CVsPyEx.st128_inv CVsPyEx.st128_rep
  have w := CVsPyEx.out_a_pages_in_c
  rw [e] at w
  omega

/-- with a tracer attached, or on 48K memory, `OutOk` holds and the three OUT handlers agree as well -/
theorem outOk_of_tracer_or_48k {μ : Type} [MemLike μ] (cfg : Cfg) (s : St μ) :
    (cfg.out_tracer = true → CSimH.OutOk cfg s) ∧ (∀ s48 : St Mem48, CSimH.OutOk cfg s48) :=
  ⟨fun h => Or.inl h, fun _ => Or.inr (fun _ _ => rfl)⟩

-- the hypotheses are satisfiable: a concrete in-range 128K state, the default configuration
example : RInv CVsPyEx.st128 ∧ CRep {} CVsPyEx.st128 ∧ CSimH.CfgRep {} := ⟨CVsPyEx.st128_inv, CVsPyEx.st128_rep, CVsPyEx.cfg0_rep⟩
example : CSimH.OutOkAll Mem48 {} := Or.inr (fun _ _ _ => rfl)
example : CSimH.cArgsOk (.add_rr .R1 11 1 6 7 2 3) = true ∧ CSimH.cArgsOk (.ld_rr_nn .R1 10 4 13 12) = false := by decide
-- a concrete C step: NOP at PC 0 of the all-zero 128K state
example : (CSimH.step {} CVsPyEx.st128).pc = 1 ∧ (CSimH.step {} CVsPyEx.st128).t = 4 := by decide +kernel


/-! ### the run loops around the handlers: `Simulator.run` and `CSimulator_run`, both translated on every run

`translate/pyloop2lean.py` turns `Simulator.run`, `Simulator.accept_interrupt` and `CMIOSimulator.accept_interrupt` into
`Gen/PyLoops.lean`; `translate/cloop2lean.py` turns `CSimulator_run` (both builds; the macro `GET_OPCODE_FUNC` expanded, the
Python-C-API boilerplate recognised by exact text) into `Gen/CLoops/run.lean` / `Gen/CCmioLoops/run.lean`: an iteration function
per `while` loop (statement order preserved) and its fuel-bounded iteration (`Z80.iterate`).  `RunLoop.run` / `RunLoop.runC`
(`Proofs/RunLoopDefs.lean`) are the common values of the two sides, not models. -/

/-- **Plain pair.**  For every `start`/`stop`/`interrupts` (addresses, when given, in 0..65535), every in-range state, every fuel for
which the clock stays below 2^63 (a pass adds at most 23 + 19 T-states): the translated C loop and the translated Python loop end in
the same state with the same "finished" flag.  `FrameOk`: an instruction, an interrupt response and the INT pulse fit into a frame
(what Python's `next_int` bookkeeping assumes; both machine configurations: `run_loop_hypotheses_hold`).  `hsi`: without `stop` the
two functions agree only when no interrupts are asked for (`c_run_loop_full_false`). -/
theorem c_run_loop_eq_python_run_loop {μ : Type} [MemLike μ] [CellMem μ] (cfg : Cfg) (hcfg : CSimH.CfgRep cfg)
    (hf : TraceLoop.FrameOk cfg Tshift.maxDur) (hout : CSimH.OutOkAll μ cfg) (fuel : Nat) (start stop : Option Int) (interrupts : Bool)
    (s : St μ) (h : RInv s) (hstart : ∀ v, start = some v → 0 ≤ v ∧ v < 65536) (hstop : ∀ v, stop = some v → 0 ≤ v ∧ v < 65536)
    (hsi : stop = none → interrupts = false ∧ 0 < fuel)
    (ht : s.t + fuel * (Tshift.maxDur + 19) < 9223372036854775808) :
    CSimH.Loop.run cfg fuel start stop (some interrupts) s = PyLoop.Sim.run cfg fuel start stop interrupts s :=
  RunLoop.c_run_eq_py_run cfg hcfg hf hout fuel start stop interrupts s h hstart hstop hsi ht

/-- **Contended pair** (`-DCONTENTION` build against `CMIOSimulator`, whose `run` is the inherited text over the contended closures and
the overriding `accept_interrupt`); a pass adds at most 143 + 19 T-states. -/
theorem c_cmio_run_loop_eq_python_run_loop {μ : Type} [MemLike μ] [CellMem μ] [PageStable μ] (cfg : Cfg) (hcfg : CSimH.CfgRep cfg)
    (hf : TraceLoop.FrameOk cfg Tshift.maxDurCmio) (hout : CSimH.OutOkAll μ cfg) (fuel : Nat) (start stop : Option Int)
    (interrupts : Bool) (s : St μ) (h : RInv s) (hstart : ∀ v, start = some v → 0 ≤ v ∧ v < 65536)
    (hstop : ∀ v, stop = some v → 0 ≤ v ∧ v < 65536) (hsi : stop = none → interrupts = false ∧ 0 < fuel)
    (ht : s.t + fuel * (Tshift.maxDurCmio + 19) < 9223372036854775808) :
    CCmioH.Loop.run cfg fuel start stop (some interrupts) s = PyLoop.Cmio.run cfg fuel start stop interrupts s :=
  RunLoop.c_cmio_run_eq_py_run cfg hcfg hf hout fuel start stop interrupts s h hstart hstop hsi ht

/-- What both compute, on the machine state alone: one instruction, then the interrupt iff `interrupts`, IFF and
`T % frame_duration < int_active` (`RunLoop.iter`), until PC = `stop`.  For the Python side this needs no range hypothesis at all:
the `next_int` variable of `Simulator.run` is a function of the clock (cf. C10 `python_loop_eq_c_loop` for `Tracer.run`). -/
theorem python_run_loop_is_stateless {μ : Type} [MemLike μ] (cfg : Cfg) (fuel : Nat) (start stop : Option Int) (interrupts : Bool) (s : St μ) :
    (TraceLoop.FrameOk cfg Tshift.maxDur → PyLoop.Sim.run cfg fuel start stop interrupts s = RunLoop.run RunLoop.simM cfg fuel start stop interrupts s) ∧
    (TraceLoop.FrameOk cfg Tshift.maxDurCmio → PyLoop.Cmio.run cfg fuel start stop interrupts s = RunLoop.run RunLoop.cmioM cfg fuel start stop interrupts s) :=
  ⟨fun hf => RunLoop.py_run cfg hf fuel start stop interrupts s, fun hf => RunLoop.py_cmio_run cfg hf fuel start stop interrupts s⟩

/-- … and the invariant itself: however many passes the Python loop makes, its `next_int` is the start of the frame whose INT pulse has
not ended yet (or, directly after an accepted interrupt, ended less than 19 T-states ago): `TraceLoop.Sched` -/
theorem python_run_next_int_function_of_clock {μ : Type} [MemLike μ] (cfg : Cfg) (hf : TraceLoop.FrameOk cfg Tshift.maxDur)
    (start : Option Int) (stop : Int) (interrupts : Bool) (fuel : Nat) (s : St μ) (l : PyLoop.Sim.RunLocals) (hl : l.pc = s.pc)
    (hs : TraceLoop.Sched cfg l.next_int s.t) :
    TraceLoop.Sched cfg (PyLoop.Sim.run_loop1 cfg start (some stop) interrupts fuel s l).1.2.next_int
      (PyLoop.Sim.run_loop1 cfg start (some stop) interrupts fuel s l).1.1.t := by
  obtain ⟨l', h1, h2⟩ := RunLoop.py_loop1 cfg hf start stop interrupts fuel s l hl hs
  rw [h1]; exact h2

/-- One pass of the translated C loop body, read off its text: the expansion of `GET_OPCODE_FUNC` selects the row `CSimH.leafOf`
selects (the hand model of that macro in `c_fetch_eq_python` is hereby derived from the macro's text), the handler runs, then
`accept_interrupt(self, pc)` iff `interrupts && REG(IFF) && TIME % frame_duration < int_active`, then `stop > 0xFFFF || REG(PC) == stop`. -/
theorem c_run_loop_pass {μ : Type} [MemLike μ] [CellMem μ] (cfg : Cfg) (s : St μ) (l : CSimH.Loop.RunLocals) (h : RInv s) :
    CSimH.Loop.run_loop1_body cfg s l =
      ((RunLoop.cIter cfg l.interrupts l.frame_duration l.int_active s, l),
        if l.stop > 65535 ∨ CInt.u32 (RunLoop.cIter cfg l.interrupts l.frame_duration l.int_active s).pc = l.stop then .break_ else .continue_) :=
  RunLoop.c_body cfg s l h

/-- The loop against runs of instructions (`c_run_eq_python`'s `runN`): `k + 1` instructions with no interrupt accepted on the way
(`RunLoop.Quiet`: not asked for, or disabled, or outside the pulse) and `stop` first reached after the last: the loop ends in exactly
the state of the `k + 1` instructions.  With `interrupts = False` the `Quiet` hypothesis is `RunLoop.quiet_of_no_ints`. -/
theorem run_loop_eq_runN {μ : Type} [MemLike μ] (cfg : Cfg) (hf : TraceLoop.FrameOk cfg Tshift.maxDur) (fuel k : Nat) (stop : Int)
    (interrupts : Bool) (s : St μ) (hk : k < fuel) (hq : ∀ j, j ≤ k → RunLoop.Quiet RunLoop.simM interrupts cfg (Sim.runN cfg j s))
    (hne : ∀ j, 0 < j → j ≤ k → (Sim.runN cfg j s).pc ≠ stop) (hstop : (Sim.runN cfg (k + 1) s).pc = stop) :
    PyLoop.Sim.run cfg fuel none (some stop) interrupts s = (Sim.runN cfg (k + 1) s, true) :=
  RunLoop.py_run_eq_runN cfg hf fuel k stop interrupts s hk hq hne hstop

theorem cmio_run_loop_eq_runN {μ : Type} [MemLike μ] (cfg : Cfg) (hf : TraceLoop.FrameOk cfg Tshift.maxDurCmio) (fuel k : Nat) (stop : Int)
    (interrupts : Bool) (s : St μ) (hk : k < fuel) (hq : ∀ j, j ≤ k → RunLoop.Quiet RunLoop.cmioM interrupts cfg (Cmio.runN cfg j s))
    (hne : ∀ j, 0 < j → j ≤ k → (Cmio.runN cfg j s).pc ≠ stop) (hstop : (Cmio.runN cfg (k + 1) s).pc = stop) :
    PyLoop.Cmio.run cfg fuel none (some stop) interrupts s = (Cmio.runN cfg (k + 1) s, true) :=
  RunLoop.py_cmio_run_eq_runN cfg hf fuel k stop interrupts s hk hq hne hstop

/-- `Simulator.accept_interrupt` and `CMIOSimulator.accept_interrupt` ARE translated now, and equal the hand model
`TraceLoop.acceptInterrupt` that C10 reasons about — which is the same function as C20's `Rzx.acceptInterrupt`: with
`c_accept_interrupt_eq_model` all four implementations of `accept_interrupt` and both hand models are one function. -/
theorem python_accept_interrupt_eq_model {μ : Type} [MemLike μ] (cfg : Cfg) (prevPc : Int) (s : St μ) :
    PyLoop.Sim.accept_interrupt cfg prevPc s = TraceLoop.acceptInterrupt false s prevPc ∧
    PyLoop.Cmio.accept_interrupt cfg prevPc s = TraceLoop.acceptInterrupt true s prevPc ∧
    (∀ c, (TraceLoop.acceptInterrupt c s prevPc).1 = Rzx.acceptInterrupt c prevPc s) :=
  ⟨RunLoop.py_accept_eq cfg prevPc s, RunLoop.py_cmio_accept_eq cfg prevPc s, fun c => RunLoop.traceLoop_accept_eq_rzx c s prevPc⟩

/-- The full statement without the side condition on `stop` … -/
def C06_run_loop_full : Prop :=
  ∀ (cfg : Cfg), CSimH.CfgRep cfg → TraceLoop.FrameOk cfg Tshift.maxDurCmio → CSimH.OutOkAll Mem128 cfg →
    ∀ (fuel : Nat) (start stop : Option Int) (interrupts : Bool) (s : St Mem128), RInv s →
      (∀ v, start = some v → 0 ≤ v ∧ v < 65536) → (∀ v, stop = some v → 0 ≤ v ∧ v < 65536) → 0 < fuel →
      s.t + fuel * (Tshift.maxDurCmio + 19) < 9223372036854775808 →
      CSimH.Loop.run cfg fuel start stop (some interrupts) s = PyLoop.Sim.run cfg fuel start stop interrupts s

/-- … is false: `run(start, interrupts=True)` WITHOUT `stop`.  `Simulator.run` then executes one instruction and returns
(`if stop is None: opcodes[memory[pc]]()`); `CSimulator_run` goes through its loop once, interrupt test included.  Witness: NOP at PC 0,
IFF = 1, T = 0: C ends at PC 0x38 (interrupt accepted), Python at PC 1 — same for the contended pair (`RunLoop.run_nostop_differs`).
Replayed on the real classes by `harness/looprun.py` (key `run-without-stop-accepts-interrupt-in-c`); no tool calls `run` without
`stop` and with interrupts (skoolmacro.py always passes `stop`), so the difference is reachable through the classes' API only. -/
theorem c_run_loop_full_false : ¬ C06_run_loop_full := by
  intro h
  have e := h RunLoop.witCfg RunLoop.witCfg_rep RunLoop.witCfg_frame (Or.inl rfl) 1 none none true RunLoop.wit RunLoop.wit_inv
    (fun _ h => nomatch h) (fun _ h => nomatch h) (by decide) (by decide)
  have w := RunLoop.run_nostop_differs
  rw [e] at w
  omega

/-- the hypotheses are satisfiable, and the theorems are about loops that do run: both machine configurations have the frame layout;
a concrete in-range state; three NOPs to a stop address; an interrupt accepted inside the loop (T = 4 + 13) -/
theorem run_loop_hypotheses_hold :
    TraceLoop.FrameOk (Contend.cfgFor false) Tshift.maxDurCmio ∧ TraceLoop.FrameOk (Contend.cfgFor true) Tshift.maxDurCmio ∧
    RInv RunLoop.wit ∧ CSimH.CfgRep RunLoop.witCfg ∧ CSimH.OutOkAll Mem128 RunLoop.witCfg ∧
    (PyLoop.Sim.run RunLoop.witCfg 5 none (some 3) false RunLoop.wit).1.pc = 3 ∧
    (PyLoop.Sim.run RunLoop.witCfg 5 none (some 56) true RunLoop.wit).1.t = 17 ∧
    (CSimH.Loop.run RunLoop.witCfg 5 none (some 56) (some true) RunLoop.wit).1.t = 17 :=
  ⟨RunLoop.frameOk_machines.1, RunLoop.frameOk_machines.2, RunLoop.wit_inv, RunLoop.witCfg_rep, Or.inl rfl,
    RunLoop.run_examples.2.1, RunLoop.run_examples.2.2.2.1, RunLoop.run_examples.2.2.2.2.1⟩

end C06
