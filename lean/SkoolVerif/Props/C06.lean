import SkoolVerif.Proofs.CmioVsSimStep
/-!
C06 — all four simulator implementations execute every program identically.

* The seven C dispatch tables (`c/csimulator.c`, shared by the plain and the `-DCONTENTION` build)
  equal the seven Python tables slot by slot — 1792 hand-typed rows compared by the kernel on
  definitions regenerated from both sources on every run.
* `CMIOSimulator` dispatches to the same closure as `Simulator` for every opcode sequence.
* Python pair: one step of the contended simulator leaves registers, flags, memory, PC, IFF, IM,
  HALT and the port-access sequence exactly as one step of the plain simulator does (T and MEMPTR
  aside) — for every closure, any arguments, any state; see C19 for the exclusions.
* The C handler bodies and run loops are not translated: their tie is the per-slot and
  program-level differential execution in `harness/props/c06.py`.
-/
namespace C06
open Z80 DispatchEq CmioVsSim

theorem c_dispatch_eq_py_main : CSim.tbl_MAIN = Sim.tbl_MAIN := c_MAIN
theorem c_dispatch_eq_py_cb : CSim.tbl_CB = Sim.tbl_CB := c_CB
theorem c_dispatch_eq_py_ed : CSim.tbl_ED = Sim.tbl_ED := c_ED
theorem c_dispatch_eq_py_dd : CSim.tbl_DD = Sim.tbl_DD := c_DD
theorem c_dispatch_eq_py_fd : CSim.tbl_FD = Sim.tbl_FD := c_FD
theorem c_dispatch_eq_py_ddcb : CSim.tbl_DDCB = Sim.tbl_DDCB := c_DDCB
theorem c_dispatch_eq_py_fdcb : CSim.tbl_FDCB = Sim.tbl_FDCB := c_FDCB

/-- the contended Python simulator runs, for every opcode sequence, the same closure (with the same
arguments) as the plain one -/
theorem cmio_runs_same_closure {μ : Type} [MemLike μ] (s : St μ) :
    Cmio.leafOf s = toCmio (Sim.leafOf s) := leafOf_map s

/-- Python pair, one instruction from any state: identical registers (incl. R), flags, memory, PC,
IFF, IM, HALT, pending port readings, port-write and port-read sequences.  `_partial`: excludes the
three closures listed in `CmioVsSim.pending` (BIT n,(HL): flag bits 5/3 differ by design; HALT and
LD A,I/R: they test the interrupt window after adding the delay). -/
theorem python_pair_agree_partial {μ : Type} [MemLike μ] (cfg : Cfg) (s : St μ)
    (hp : pending (Sim.leafOf s) = false) (hr : RegsOk s.reg) :
    SameButClock (Sim.step cfg s) (Cmio.step cfg s) := same_step_partial cfg s hp hr

/-- the excluded set is exactly three closures -/
theorem pending_is_three (i : Sim.Instr) :
    pending i = true ↔ (∃ b t, i = .bit_hl b t) ∨ i = .halt ∨ (∃ r, i = .ld_a_ir r) := by
  cases i <;> simp [pending]

-- non-vacuity: a concrete slot where the C and Python rows are (the same) non-trivial closure call
example : CSim.tbl_MAIN[0x09]! = .add_rr .R1 11 1 6 7 2 3 := by decide +kernel
example : Sim.tbl_DDCB[0x06]! = .f_xy .RLC 8 9 (-1) := by decide +kernel

end C06
