import SkoolVerif.Proofs.CmioVsSimRun
/-!
C06 — all four simulator implementations execute every program identically.

* The seven C dispatch tables (`c/csimulator.c`, shared by the plain and the `-DCONTENTION` build)
  equal the seven Python tables slot by slot — 1792 hand-typed rows compared by the kernel on
  definitions regenerated from both sources on every run.
* `CMIOSimulator` dispatches to the same closure as `Simulator` for every opcode sequence.
* Python pair: one step of the contended simulator leaves registers, flags, memory, PC, IFF, IM,
  HALT and the port-access sequence exactly as one step of the plain simulator does (T and MEMPTR
  aside, and bits 5 and 3 of F after BIT n,(HL), which the contended simulator derives from MEMPTR) —
  for every closure, any arguments, any state, under the frame layout `CfgOk` both machines have.
* The C handler bodies and run loops are not translated: their tie is the per-slot and
  program-level differential execution in `harness/props/c06.py`.
-/
namespace C06
open Z80 DispatchEq CmioVsSim

theorem c_dispatch_eq_py_main : CSim.tbl_MAIN = Sim.tbl_MAIN := c_MAIN
theorem c_dispatch_eq_py_cb : CSim.tbl_CB = Sim.tbl_CB := c_CB
theorem c_dispatch_eq_py_ed : CSim.tbl_ED = Sim.tbl_ED := c_ED
theorem c_dispatch_eq_py_dd : CSim.tbl_DD = Sim.tbl_DD := c_DD
theorem c_dispatch_eq_py_fd : CSim.tbl_FD = Sim.tbl_FD := c_FD
theorem c_dispatch_eq_py_ddcb : CSim.tbl_DDCB = Sim.tbl_DDCB := c_DDCB
theorem c_dispatch_eq_py_fdcb : CSim.tbl_FDCB = Sim.tbl_FDCB := c_FDCB

/-- the contended Python simulator runs, for every opcode sequence, the same closure (with the same
arguments) as the plain one -/
theorem cmio_runs_same_closure {μ : Type} [MemLike μ] (s : St μ) :
    Cmio.leafOf s = toCmio (Sim.leafOf s) := leafOf_map s

/-- Python pair, one instruction from any state: identical registers (incl. R), flags, memory, PC,
IFF, IM, HALT, pending port readings, port-write and port-read sequences — every closure but
BIT n,(HL) (`isBitHl`; see `python_pair_agree_modF53`).  `CfgOk cfg`: the frame layout of both
machine configurations (`C19.frame_layout_ok`), needed by HALT and LD A,I/R which test the interrupt
window after the contention delay has been added. -/
theorem python_pair_agree {μ : Type} [MemLike μ] (cfg : Cfg) (s : St μ)
    (hb : isBitHl (Sim.leafOf s) = false) (hr : RegsOk s.reg) (hcfg : CfgOk cfg) :
    SameButClock (Sim.step cfg s) (Cmio.step cfg s) := same_step cfg s hb hr hcfg

/-- every closure, BIT n,(HL) included: identical but for T, MEMPTR and bits 5 and 3 of F (which the
contended simulator takes from MEMPTR: they differ by design) -/
theorem python_pair_agree_modF53 {μ : Type} [MemLike μ] (cfg : Cfg) (s : St μ)
    (hr : RegsOk s.reg) (hcfg : CfgOk cfg) :
    SameModF53 (Sim.step cfg s) (Cmio.step cfg s) := sameModF53_step cfg s hr hcfg

/-- Python pair, `m ≤ n` instructions from the same state (no interrupt accepted in between): still
identical but for T and MEMPTR, as long as the plain run keeps its registers in range and executes none
of HALT, LD A,I/R (their effect depends on T, which differs) and BIT n,(HL) (`clockFree_false_iff`). -/
theorem python_pair_agree_run {μ : Type} [MemLike μ] (cfg : Cfg) (hcfg : CfgOk cfg) (n : Nat) (s : St μ)
    (hall : ∀ k, k < n → RegsOk (Sim.runN cfg k s).reg ∧ clockFree (Sim.leafOf (Sim.runN cfg k s)) = true)
    (m : Nat) (hm : m ≤ n) :
    SameButClock (Sim.runN cfg m s) (Cmio.runN cfg m s) := same_runN cfg hcfg n s hall m hm

theorem clockFree_false_iff (i : Sim.Instr) :
    clockFree i = false ↔ (∃ b t, i = .bit_hl b t) ∨ i = .halt ∨ (∃ r, i = .ld_a_ir r) := clockFree_iff i

/-- the closure with the weaker statement is exactly BIT n,(HL) -/
theorem isBitHl_iff (i : Sim.Instr) : isBitHl i = true ↔ ∃ b t, i = .bit_hl b t := by
  cases i <;> simp [isBitHl]

/-- both machine configurations have the frame layout -/
theorem frame_layout_ok : CfgOk (Contend.cfgFor false) ∧ CfgOk (Contend.cfgFor true) := ⟨cfgOk_48k, cfgOk_128k⟩

-- non-vacuity: a concrete slot where the C and Python rows are (the same) non-trivial closure call
example : CSim.tbl_MAIN[0x09]! = .add_rr .R1 11 1 6 7 2 3 := by decide +kernel
example : Sim.tbl_DDCB[0x06]! = .f_xy .RLC 8 9 (-1) := by decide +kernel

end C06
