import SkoolVerif.Proofs.C10Defs
import SkoolVerif.Proofs.TraceLoopEq
import SkoolVerif.Proofs.RunLoop
/-!
# C10 — saving a snapshot mid-run and resuming from it is transparent

Models: the generated simulators (`Gen/SimHandlers`, `Gen/CmioHandlers`: `Sim.step`, `Cmio.step`), the
hand models of the two trace loops of `trace.py` / `c/csimulator.c` (`Model/TraceLoop`: `pyRun` =
`Tracer.run` with its `next_int` variable, `cRun` = `CSimulator_trace`, both with the tracer's port
handlers and `accept_interrupt`) and of `get_state` → `write_snapshot` → `Snapshot.get` →
`from_snapshot` → `trace.run` start-up (`Model/SnapResume`: `resume fmt`).

`tsShift cfg ts k` moves the clock by `k` frames; `nzT zh ts` forgets MEMPTR, the last OUT to 0xFE and
(if `zh`) the HALT flag — what the Z80 format has no field for.  `Saveable` = the range invariant of C08 on
the saved state + tracer fields in range + ROM intact.  All statements are for every memory model (48K
list, 128K banks + paging), every program and start state, every `n1`, `n2`, interrupts on or off.
-/
namespace C10
open Z80 TraceLoop Tshift SnapResume

variable {μ : Type} [MemLike μ] [SnapMem μ]

/-! ## the simulators depend on the clock only through `T mod frame` -/

/-- Every instruction of the plain simulator commutes with moving the clock by whole frames. -/
theorem clock_enters_mod_frame {μ : Type} [MemLike μ] (cfg : Cfg) (s : St μ) (k : Int) :
    Sim.step cfg (addFrames cfg s k) = addFrames cfg (Sim.step cfg s) k := Sim.tshift_step cfg s k

/-- … and of the contended simulator (contention delays, `HALT`, `LD A,I/R` all use `T % frame_duration`). -/
theorem clock_enters_mod_frame_cmio {μ : Type} [MemLike μ] (cfg : Cfg) (s : St μ) (k : Int) :
    Cmio.step cfg (addFrames cfg s k) = addFrames cfg (Cmio.step cfg s) k := Cmio.tshift_step cfg s k

/-- The interrupt response does too, so a whole trace run does (any number of instructions). -/
theorem run_commutes_with_frame_shift {μ : Type} [MemLike μ] (cfg : Cfg) (i c : Bool) (n : Nat) (ts : TS μ) (k : Int) :
    cRun (if c then cmioMode i else plainMode i) cfg n (tsShift cfg ts k) =
      tsShift cfg (cRun (if c then cmioMode i else plainMode i) cfg n ts) k := by
  cases c
  · exact cRun_shift (plain_shift cfg i) n ts k
  · exact cRun_shift (cmio_shift cfg i) n ts k

/-! ## interrupt scheduling carries no hidden state -/

/-- An instruction never takes more than 23 T-states (plain) … -/
theorem instruction_duration {μ : Type} [MemLike μ] (cfg : Cfg) (s : St μ) :
    s.t ≤ (Sim.step cfg s).t ∧ (Sim.step cfg s).t ≤ s.t + 23 := ⟨Sim.tmono_step cfg s, Sim.dur_step cfg s⟩

/-- … or 143 (contended: at most 6 more per entry of its access pattern). -/
theorem instruction_duration_cmio {μ : Type} [MemLike μ] (cfg : Cfg) (s : St μ) :
    s.t ≤ (Cmio.step cfg s).t ∧ (Cmio.step cfg s).t ≤ s.t + 143 := ⟨Cmio.tmono_step cfg s, Cmio.dur_step cfg s⟩

/-- The `next_int` variable of the Python loop (`Tracer.run`) is a function of the clock: the Python
loop computes exactly what the stateless C loop (`T % frame < int_active`) computes, for every program. -/
theorem python_loop_eq_c_loop {μ : Type} [MemLike μ] (cfg : Cfg) (hf : FrameOk cfg maxDurCmio) (i c : Bool)
    (n : Nat) (ts : TS μ) :
    pyRun (if c then cmioMode i else plainMode i) cfg n ts = cRun (if c then cmioMode i else plainMode i) cfg n ts := by
  cases c
  · exact pyRun_eq_cRun (plain_dur cfg i) (frameOk_mono hf (by decide) (by decide)) n ts
  · exact pyRun_eq_cRun (cmio_dur cfg i) hf n ts

example : FrameOk cfg48 maxDurCmio := frameOk48
example : FrameOk cfg128 maxDurCmio := frameOk128

/-! ## the tracer's answer to an `IN` -/

/-- `tstep` finds the port of an `IN` by running the step once with no input: that is the port the real
step reads, whatever value the tracer returns (every closure logs the same ports for every input stream). -/
theorem probe_port_is_the_port_read {μ : Type} [MemLike μ] (cfg : Cfg) (i c : Bool) (s : St μ) (v : Int) :
    ((if c then cmioMode i else plainMode i).step cfg { s with ins := [v], outs := [], inLog := [] }).inLog.head? =
      probePort (if c then cmioMode i else plainMode i).step cfg s := by
  cases c
  · exact probe_sound (plain_io cfg i) s v
  · exact probe_sound (cmio_io cfg i) s v

/-- `write_port` keeps the tracer fields in range (border 0..7, bytes elsewhere, 16 AY registers). -/
theorem tracer_fields_stay_in_range (tr : Tr) (p v : Int) (h : TrOk tr) (hv : Byte v) : TrOk (trWrite tr p v) :=
  trWrite_ok tr p v h hv

/-! ## restore ∘ save -/

/-- SZX: the run resumed from the file starts in the saved state, clock reduced modulo the frame —
registers, IFF, IM, HALT flag, MEMPTR, RAM, paging, border, last OUT to 0xFE, AY state all exact. -/
theorem restore_save_szx (cfg : Cfg) (roms : Array (Array Int)) (ts : TS μ) (h : Saveable cfg roms ts) :
    resume roms .szx ts = tsShift cfg ts (-(ts.s.t / cfg.frame_duration)) := resume_szx cfg roms ts h

/-- Z80: the same except MEMPTR, the HALT flag and the last OUT to 0xFE (no field in that format). -/
theorem restore_save_z80 (cfg : Cfg) (roms : Array (Array Int)) (ts : TS μ) (h : Saveable cfg roms ts) :
    resume roms .z80 ts = tsShift cfg (nzT true ts) (-(ts.s.t / cfg.frame_duration)) := resume_z80 cfg roms ts h

example : Saveable cfg48 #[] haltWitness := haltWitness_saveable

/-- `Saveable` is what C08's range invariant gives for the CPU state, plus the tracer fields in range, the
(always empty) per-step logs and a memory that is rebuilt unchanged. -/
theorem saveable_from_range_invariant {μ : Type} [MemLike μ] [CellMem μ] [SnapMem μ] (cfg : Cfg) (roms : Array (Array Int))
    (ts : TS μ) (h : RInv ts.s) (ht : TrOk ts.tr) (hl : ts.s.ins = [] ∧ ts.s.outs = [] ∧ ts.s.inLog = [])
    (hf : cfg.frame_duration = frameOf (MemLike.is128 ts.s.mem))
    (hm : SnapMem.rebuild roms ts.s.mem (if MemLike.is128 ts.s.mem then MemLike.o7ffd ts.s.mem % 256 else 0) = ts.s.mem) :
    Saveable cfg roms ts := saveable_of_rinv cfg roms ts h ht hl hf hm

/-- the per-step port logs are empty after every instruction of either loop -/
theorem port_logs_empty_after_step {μ : Type} [MemLike μ] (step : StepFn μ) (cfg : Cfg) (ts : TS μ) :
    (tstep step cfg ts).s.ins = [] ∧ (tstep step cfg ts).s.outs = [] ∧ (tstep step cfg ts).s.inLog = [] :=
  tstep_logs step cfg ts

/-- the memory hypothesis of `Saveable` holds for the 48K list whose first 16K are the ROM file … -/
theorem saveable_memory_48k (roms : Array (Array Int)) (m : Mem48) (o : Int) (rom : Array Int)
    (hrom : roms.getD 0 #[] = rom) (hsz : rom.size = 16384) (hm : m.cells.size = 65536)
    (hlow : m.cells.toList.take 16384 = rom.toList) : SnapMem.rebuild roms m o = m :=
  rebuild_mem48 roms m o rom hrom hsz hm hlow

/-- … and for the 128K memory with the ROM files in place and the tracer's 0x7FFD copy in step (C08). -/
theorem saveable_memory_128k (roms : Array (Array Int)) (m : Mem128) (hr : m.roms = roms)
    (hc : m.trOut7ffd = m.o7ffd) (hb : Byte m.o7ffd) : SnapMem.rebuild roms m (m.o7ffd % 256) = m :=
  rebuild_mem128 roms m hr hc hb

/-! ## resume is transparent -/

/-- **SZX, plain and contended, C loop**: `n1` instructions, snapshot, `n2` more = `n1 + n2` instructions,
up to the whole frames of the clock that no snapshot stores. -/
theorem resume_transparent_szx (cfg : Cfg) (roms : Array (Array Int)) (i c : Bool) (n1 n2 : Nat) (ts : TS μ)
    (hsave : Saveable cfg roms (cRun (if c then cmioMode i else plainMode i) cfg n1 ts)) :
    cRun (if c then cmioMode i else plainMode i) cfg n2
        (resume roms .szx (cRun (if c then cmioMode i else plainMode i) cfg n1 ts)) =
      tsShift cfg (cRun (if c then cmioMode i else plainMode i) cfg (n1 + n2) ts)
        (-((cRun (if c then cmioMode i else plainMode i) cfg n1 ts).s.t / cfg.frame_duration)) := by
  cases c
  · exact resume_szx_run (plain_shift cfg i) roms n1 n2 ts hsave
  · exact resume_szx_run (cmio_shift cfg i) roms n1 n2 ts hsave

/-- the hypothesis is met, e.g. by the HALT-wait state saved straight away (`n1 = 0`) -/
example : Saveable cfg48 #[] (cRun (if true then cmioMode true else plainMode true) cfg48 0 haltWitness) :=
  haltWitness_saveable

/-- **SZX, Python loop** (`--python`): the same, including the recomputation of `next_int` at start-up. -/
theorem resume_transparent_szx_python (cfg : Cfg) (hf : FrameOk cfg maxDurCmio) (roms : Array (Array Int))
    (i c : Bool) (n1 n2 : Nat) (ts : TS μ)
    (hsave : Saveable cfg roms (pyRun (if c then cmioMode i else plainMode i) cfg n1 ts)) :
    pyRun (if c then cmioMode i else plainMode i) cfg n2
        (resume roms .szx (pyRun (if c then cmioMode i else plainMode i) cfg n1 ts)) =
      tsShift cfg (pyRun (if c then cmioMode i else plainMode i) cfg (n1 + n2) ts)
        (-((pyRun (if c then cmioMode i else plainMode i) cfg n1 ts).s.t / cfg.frame_duration)) := by
  simp only [python_loop_eq_c_loop cfg hf] at hsave ⊢
  exact resume_transparent_szx cfg roms i c n1 n2 ts hsave

/-- **the property as observed**: the SZX file written after the resumed run equals the SZX file
written after the uninterrupted run. -/
theorem final_snapshot_equal_szx (cfg : Cfg) (roms : Array (Array Int)) (i c : Bool) (n1 n2 : Nat) (ts : TS μ)
    (hsave : Saveable cfg roms (cRun (if c then cmioMode i else plainMode i) cfg n1 ts))
    (hf : cfg.frame_duration = frameOf (MemLike.is128 (cRun (if c then cmioMode i else plainMode i) cfg (n1 + n2) ts).s.mem)) :
    snapOf .szx (cRun (if c then cmioMode i else plainMode i) cfg n2
        (resume roms .szx (cRun (if c then cmioMode i else plainMode i) cfg n1 ts))) =
      snapOf .szx (cRun (if c then cmioMode i else plainMode i) cfg (n1 + n2) ts) := by
  rw [resume_transparent_szx cfg roms i c n1 n2 ts hsave]
  exact snapOf_shift .szx cfg _ _ hf

/-- **Z80, plain simulator**: exact except MEMPTR, the HALT flag and the last OUT to 0xFE — the plain
simulator reads none of them (`Gen/SimNzThms`: every closure). -/
theorem resume_transparent_z80 (cfg : Cfg) (roms : Array (Array Int)) (i : Bool) (n1 n2 : Nat) (ts : TS μ)
    (hsave : Saveable cfg roms (cRun (plainMode i) cfg n1 ts)) :
    nzT true (cRun (plainMode i) cfg n2 (resume roms .z80 (cRun (plainMode i) cfg n1 ts))) =
      tsShift cfg (nzT true (cRun (plainMode i) cfg (n1 + n2) ts))
        (-((cRun (plainMode i) cfg n1 ts).s.t / cfg.frame_duration)) :=
  resume_z80_run (plain_shift cfg i) (plain_nz cfg i) roms n1 n2 ts hsave (fun _ _ => trivial)

/-- … also through the Python loop (`--python`). -/
theorem resume_transparent_z80_python (cfg : Cfg) (hf : FrameOk cfg maxDurCmio) (roms : Array (Array Int)) (i : Bool)
    (n1 n2 : Nat) (ts : TS μ) (hsave : Saveable cfg roms (pyRun (plainMode i) cfg n1 ts)) :
    nzT true (pyRun (plainMode i) cfg n2 (resume roms .z80 (pyRun (plainMode i) cfg n1 ts))) =
      tsShift cfg (nzT true (pyRun (plainMode i) cfg (n1 + n2) ts))
        (-((pyRun (plainMode i) cfg n1 ts).s.t / cfg.frame_duration)) := by
  have e := fun n (x : TS μ) => python_loop_eq_c_loop cfg hf i false n x
  simp only [Bool.false_eq_true, if_false] at e
  simp only [e] at hsave ⊢
  exact resume_transparent_z80 cfg roms i n1 n2 ts hsave

/-- … hence equal Z80 files at the end. -/
theorem final_snapshot_equal_z80 (cfg : Cfg) (roms : Array (Array Int)) (i : Bool) (n1 n2 : Nat) (ts : TS μ)
    (hsave : Saveable cfg roms (cRun (plainMode i) cfg n1 ts))
    (hf : cfg.frame_duration = frameOf (MemLike.is128 (cRun (plainMode i) cfg (n1 + n2) ts).s.mem)) :
    snapOf .z80 (cRun (plainMode i) cfg n2 (resume roms .z80 (cRun (plainMode i) cfg n1 ts))) =
      snapOf .z80 (cRun (plainMode i) cfg (n1 + n2) ts) := by
  rw [← snapOf_z80_nz true, resume_transparent_z80 cfg roms i n1 n2 ts hsave]
  have hf' : cfg.frame_duration = frameOf (MemLike.is128 (nzT true (cRun (plainMode i) cfg (n1 + n2) ts)).s.mem) := hf
  rw [snapOf_shift .z80 cfg _ _ hf', snapOf_z80_nz]

/-! ## Z80 + contended simulator: the full statement is false on the real code (known findings) -/

/-- The full statement for `-c` and the Z80 format, in the same shape as `resume_transparent_z80`. -/
def Z80CmioFull : Prop :=
  ∀ (μ : Type) [MemLike μ] [SnapMem μ] (cfg : Cfg) (roms : Array (Array Int)) (i : Bool) (n : Nat) (ts : TS μ),
    Saveable cfg roms ts →
    nzT true (cRun (cmioMode i) cfg n (resume roms .z80 ts)) =
      tsShift cfg (nzT true (cRun (cmioMode i) cfg n ts)) (-(ts.s.t / cfg.frame_duration))

/-- Witness 1 (KNOWN_FINDINGS `cmio-resume-inside-halt-at-contention-boundary:z80`): saved inside a HALT
wait at 0x7FFF; the next HALT cycle of the resumed run is contended on PC instead of PC+1 and takes 10
T-states instead of 4. -/
theorem z80_cmio_full_false : ¬ Z80CmioFull := by
  intro h
  have h1 := h TinyMem cfg48 #[] true 1 haltWitness haltWitness_saveable
  have h2 := congrArg (fun x => x.s.t) h1
  revert h2
  decide +kernel

/-- Witness 2 (KNOWN_FINDINGS `cmio-z80-memptr-lost-changes-bit-hl-flags`): `BIT 0,(HL)` right after
resuming takes F bits 5 and 3 from MEMPTR = 0 instead of the saved run's MEMPTR. -/
theorem z80_cmio_full_false_bit_hl :
    rget (cRun (cmioMode true) cfg48 1 (resume #[] .z80 bitWitness)).s.reg 1 ≠
      rget (cRun (cmioMode true) cfg48 1 bitWitness).s.reg 1 := by
  decide +kernel

/-- What does hold for `-c` + Z80: if the CPU is not halted at the save point and no `BIT n,(HL)` is
executed after resuming, the resumed run is exact except MEMPTR and the last OUT to 0xFE.
Missing for the full statement: the two excluded situations above (both genuine, both due to the
Z80 format having no field for the dropped state). -/
theorem resume_transparent_z80_cmio_partial (cfg : Cfg) (roms : Array (Array Int)) (i : Bool) (n1 n2 : Nat) (ts : TS μ)
    (hsave : Saveable cfg roms (cRun (cmioMode i) cfg n1 ts))
    (hh : (cRun (cmioMode i) cfg n1 ts).s.halt = 0)
    (hb : ∀ j, j < n2 → notBitHl (cRun (cmioMode i) cfg j (cRun (cmioMode i) cfg n1 ts)).s) :
    nzT false (cRun (cmioMode i) cfg n2 (resume roms .z80 (cRun (cmioMode i) cfg n1 ts))) =
      tsShift cfg (nzT false (cRun (cmioMode i) cfg (n1 + n2) ts))
        (-((cRun (cmioMode i) cfg n1 ts).s.t / cfg.frame_duration)) :=
  resume_z80_run_not_halted (cmio_shift cfg i) (cmio_nz cfg i) roms n1 n2 ts hsave hh hb

/-- the hypotheses of the partial theorem are met by a concrete state (n1 = 0, one `BIT`-free step) -/
example : Saveable cfg48 #[] (cRun (cmioMode true) cfg48 0 bitWitness) ∧
    (cRun (cmioMode true) cfg48 0 bitWitness).s.halt = 0 :=
  ⟨bitWitness_saveable, rfl⟩

/-- SZX keeps the HALT flag (ZXSTZF_HALTED): on the HALT witness the SZX resume is exact where Z80 is not. -/
example : (cRun (cmioMode true) cfg48 1 (resume #[] .szx haltWitness)).s.t =
    (tsShift cfg48 (cRun (cmioMode true) cfg48 1 haltWitness) (-(haltWitness.s.t / cfg48.frame_duration))).s.t := by
  decide +kernel


/-! ## the C trace loop is translated from source (`translate/cloop2lean.py`), and the hand model `TraceLoop.cIter` is its pass

`CSimulator_trace` (both builds) is translated on every run into `Gen/CLoops/trace.lean` / `Gen/CCmioLoops/trace.lean`: the `while (1)`
body as an iteration function (the macro `GET_OPCODE_FUNC` expanded; the `disassemble` / `trace` / `exec_map` callbacks recognised by
exact text and turned into an output log, `draw_screen`'s result into an input stream), iterated with fuel.  The theorems below are about
that translation; `RunLoop.traceLoop` / `RunLoop.iter` (`Proofs/RunLoopDefs.lean`) are the values it is proved to compute. -/

/-- **`CSimulator_trace`, translated (plain build), with no `draw` callback**: from any in-range state, for every `start`/`stop` object
(an address in 0..65535 when an integer), `max_operations`, `max_time` (below 2^63), `interrupts` and every fuel for which the clock stays
below 2^63, it computes `RunLoop.traceLoop` of `Simulator`'s step (C06 `c_step_eq_python`): per pass one instruction, then
`accept_interrupt` iff `interrupts && REG(IFF) && TIME % frame_duration < int_active`, `operations += 1`, then the stop conditions
`max_operations`, `max_time`, `stop` in that order.  The callbacks `disassemble`, `trace`, `exec_map` influence neither the machine
state nor the return value (the right-hand side does not mention them). -/
theorem c_trace_loop_derived_from_source {μ : Type} [MemLike μ] [CellMem μ] (cfg : Cfg) (hcfg : CSimH.CfgRep cfg)
    (hout : CSimH.OutOkAll μ cfg) (fuel : Nat) (start stop : PyObj) (maxOps maxTime : Int) (interrupts : Bool)
    (exec_map keyboard disassemble trace : PyObj) (log0 : List (List Int)) (draws0 : List Int) (s : St μ) (h : RInv s)
    (hstart : ∀ v, start = .int v → 0 ≤ v ∧ v < 65536) (hstop : ∀ v, stop = .int v → 0 ≤ v ∧ v < 65536)
    (hmo : 0 ≤ maxOps ∧ maxOps < 9223372036854775808) (hmt : 0 ≤ maxTime ∧ maxTime < 9223372036854775808)
    (ht : s.t + fuel * (maxDur + 19) < 9223372036854775808) :
    CSimH.Loop.trace cfg fuel start stop maxOps maxTime interrupts PyObj.none exec_map keyboard disassemble trace log0 draws0 s =
      RunLoop.traceRet (RunLoop.traceLoop RunLoop.simM interrupts cfg maxOps maxTime (RunLoop.objStop stop) fuel 0 (RunLoop.objStart start s)) :=
  RunLoop.c_trace cfg hcfg hout fuel start stop maxOps maxTime interrupts exec_map keyboard disassemble trace log0 draws0 s h hstart hstop hmo hmt ht

/-- the same for the `-DCONTENTION` build over `CMIOSimulator`'s step -/
theorem c_cmio_trace_loop_derived_from_source {μ : Type} [MemLike μ] [CellMem μ] [PageStable μ] (cfg : Cfg) (hcfg : CSimH.CfgRep cfg)
    (hout : CSimH.OutOkAll μ cfg) (fuel : Nat) (start stop : PyObj) (maxOps maxTime : Int) (interrupts : Bool)
    (exec_map keyboard disassemble trace : PyObj) (log0 : List (List Int)) (draws0 : List Int) (s : St μ) (h : RInv s)
    (hstart : ∀ v, start = .int v → 0 ≤ v ∧ v < 65536) (hstop : ∀ v, stop = .int v → 0 ≤ v ∧ v < 65536)
    (hmo : 0 ≤ maxOps ∧ maxOps < 9223372036854775808) (hmt : 0 ≤ maxTime ∧ maxTime < 9223372036854775808)
    (ht : s.t + fuel * (maxDurCmio + 19) < 9223372036854775808) :
    CCmioH.Loop.trace cfg fuel start stop maxOps maxTime interrupts PyObj.none exec_map keyboard disassemble trace log0 draws0 s =
      RunLoop.traceRet (RunLoop.traceLoop RunLoop.cmioM interrupts cfg maxOps maxTime (RunLoop.objStop stop) fuel 0 (RunLoop.objStart start s)) :=
  RunLoop.c_cmio_trace cfg hcfg hout fuel start stop maxOps maxTime interrupts exec_map keyboard disassemble trace log0 draws0 s h hstart hstop hmo hmt ht

/-- `trace -m n`, the stop condition the theorems of this file are about: the translated C loop makes exactly `n` passes and returns
(1, n) — the shape of `cRun` (`n` applications of `cIter`). -/
theorem c_trace_max_operations_is_n_passes {μ : Type} [MemLike μ] [CellMem μ] (cfg : Cfg) (hcfg : CSimH.CfgRep cfg) (hout : CSimH.OutOkAll μ cfg)
    (n fuel : Nat) (hn : 0 < n) (hnf : n ≤ fuel) (start : PyObj) (interrupts : Bool) (exec_map keyboard disassemble trace : PyObj)
    (log0 : List (List Int)) (draws0 : List Int) (s : St μ) (h : RInv s) (hstart : ∀ v, start = .int v → 0 ≤ v ∧ v < 65536)
    (hn63 : (n : Int) < 9223372036854775808) (ht : s.t + fuel * (maxDur + 19) < 9223372036854775808) :
    CSimH.Loop.trace cfg fuel start PyObj.none n 0 interrupts PyObj.none exec_map keyboard disassemble trace log0 draws0 s =
      ((RunLoop.passN RunLoop.simM interrupts cfg n (RunLoop.objStart start s), (1, (n : Int))), true) :=
  RunLoop.c_trace_max_operations cfg hcfg hout n fuel hn hnf start interrupts exec_map keyboard disassemble trace log0 draws0 s h hstart hn63 ht

/-- **The hand model is the translated pass.**  One application of `cIter` (the model of the C trace loop all theorems above are about)
is `RunLoop.iter` — the pass that the translated `CSimulator_trace`, `CSimulator_run` and `Simulator.run` bodies are proved to make
(C06) — over the machine whose instruction is `tstep`, i.e. the generated `Sim.step`/`Cmio.step` wrapped in the tracer's port glue.  What
remains hand-modelled in `cRun` is that glue (`Tracer.read_port`, `PagingTracer.write_port`: tied by correspondence), not the loop. -/
theorem trace_model_pass_is_translated_pass {μ : Type} [MemLike μ] (mode : Mode μ) (cfg : Cfg) (ts : TS μ) :
    cIter mode cfg ts = ⟨RunLoop.iter (RunLoop.glued mode ts.tr) mode.interrupts cfg ts.s, (tstep mode.step cfg ts).tr⟩ :=
  RunLoop.cIter_eq_iter mode cfg ts

/-! ### … and so is the Python loop of `Tracer.run` (`translate/pyloop2lean.py`, loop core: the `else` branch of
`if hasattr(simulator, 'trace')`; prologue, C branch and epilogue of the method are checked by exact text) -/

/-- **The Python trace loop, translated (no `draw` callback), computes `RunLoop.traceLoop` too** — with no range hypothesis on the state:
`next_int` is a function of the clock (`RunLoop.sched_pass`, the invariant of `python_loop_eq_c_loop` on the translated text).  Final
state, `operations`, `stop_cond`, "finished" flag. -/
theorem python_trace_loop_derived_from_source {μ : Type} [MemLike μ] (cfg : Cfg) (hf : FrameOk cfg maxDur) (fuel : Nat) (start : Int)
    (stop : Option Int) (maxOps maxTime : Int) (interrupts exec_map trace_line : Bool) (start_time : Int) (is128k : Bool)
    (log0 : List (List Int)) (draws0 : List Bool) (s : St μ) :
    (PyLoop.Sim.trace_run cfg fuel start stop maxOps maxTime interrupts false exec_map trace_line start_time is128k log0 draws0 s).1.1 =
        (RunLoop.traceLoop RunLoop.simM interrupts cfg maxOps maxTime stop fuel 0 { s with pc := start }).1.1 ∧
      (PyLoop.Sim.trace_run cfg fuel start stop maxOps maxTime interrupts false exec_map trace_line start_time is128k log0 draws0 s).1.2.operations =
        (RunLoop.traceLoop RunLoop.simM interrupts cfg maxOps maxTime stop fuel 0 { s with pc := start }).1.2 ∧
      (PyLoop.Sim.trace_run cfg fuel start stop maxOps maxTime interrupts false exec_map trace_line start_time is128k log0 draws0 s).1.2.stop_cond =
        (RunLoop.traceLoop RunLoop.simM interrupts cfg maxOps maxTime stop fuel 0 { s with pc := start }).2.getD 0 ∧
      (PyLoop.Sim.trace_run cfg fuel start stop maxOps maxTime interrupts false exec_map trace_line start_time is128k log0 draws0 s).2 =
        (RunLoop.traceLoop RunLoop.simM interrupts cfg maxOps maxTime stop fuel 0 { s with pc := start }).2.isSome :=
  RunLoop.py_trace cfg hf fuel start stop maxOps maxTime interrupts exec_map trace_line start_time is128k log0 draws0 s

/-- **`python_loop_eq_c_loop`, on the translated loops.**  `Tracer.run`'s Python loop and `CSimulator_trace`, both translated from
source, end in the same state, finish together, and report the same (stop condition, operations) — for every start address and optional
stop address in 0..65535, every `max_operations` / `max_time` below 2^63, interrupts on or off, whatever the callbacks, from every
in-range state, for every fuel for which the clock stays below 2^63.  Plain pair and contended pair. -/
theorem translated_python_trace_loop_eq_translated_c_trace_loop {μ : Type} [MemLike μ] [CellMem μ] [PageStable μ] (cfg : Cfg)
    (hcfg : CSimH.CfgRep cfg) (hf : FrameOk cfg maxDurCmio) (hout : CSimH.OutOkAll μ cfg) (fuel : Nat) (start : Int) (stop : Option Int)
    (maxOps maxTime : Int) (interrupts : Bool) (emC kb dis tr : PyObj) (emP tl : Bool) (st0 : Int) (k128 : Bool)
    (logC logP : List (List Int)) (drawsC : List Int) (drawsP : List Bool) (s : St μ) (h : RInv s)
    (hstart : 0 ≤ start ∧ start < 65536) (hstop : ∀ v, stop = some v → 0 ≤ v ∧ v < 65536)
    (hmo : 0 ≤ maxOps ∧ maxOps < 9223372036854775808) (hmt : 0 ≤ maxTime ∧ maxTime < 9223372036854775808)
    (ht : s.t + fuel * (maxDurCmio + 19) < 9223372036854775808) :
    ((CSimH.Loop.trace cfg fuel (.int start) (RunLoop.stopObj stop) maxOps maxTime interrupts PyObj.none emC kb dis tr logC drawsC s).1.1 =
        (PyLoop.Sim.trace_run cfg fuel start stop maxOps maxTime interrupts false emP tl st0 k128 logP drawsP s).1.1 ∧
      (CSimH.Loop.trace cfg fuel (.int start) (RunLoop.stopObj stop) maxOps maxTime interrupts PyObj.none emC kb dis tr logC drawsC s).2 =
        (PyLoop.Sim.trace_run cfg fuel start stop maxOps maxTime interrupts false emP tl st0 k128 logP drawsP s).2) ∧
    ((CCmioH.Loop.trace cfg fuel (.int start) (RunLoop.stopObj stop) maxOps maxTime interrupts PyObj.none emC kb dis tr logC drawsC s).1.1 =
        (PyLoop.Cmio.trace_run cfg fuel start stop maxOps maxTime interrupts false emP tl st0 k128 logP drawsP s).1.1 ∧
      (CCmioH.Loop.trace cfg fuel (.int start) (RunLoop.stopObj stop) maxOps maxTime interrupts PyObj.none emC kb dis tr logC drawsC s).2 =
        (PyLoop.Cmio.trace_run cfg fuel start stop maxOps maxTime interrupts false emP tl st0 k128 logP drawsP s).2) := by
  have hmd : maxDur = 23 := rfl
  have hmc : maxDurCmio = 143 := rfl
  have hfn : (0 : Int) ≤ fuel := Int.natCast_nonneg fuel
  have ht' : s.t + fuel * (maxDur + 19) < 9223372036854775808 := by
    rw [hmd]; rw [hmc] at ht
    have : (fuel : Int) * (23 + 19) ≤ fuel * (143 + 19) := Int.mul_le_mul_of_nonneg_left (by decide) hfn
    omega
  have a := RunLoop.c_trace_eq_py_trace cfg hcfg (RunLoop.frameOk_of_cmio hf) hout fuel start stop maxOps maxTime interrupts emC kb dis tr emP tl st0 k128
    logC logP drawsC drawsP s h hstart hstop hmo hmt ht'
  have b := RunLoop.c_cmio_trace_eq_py_trace cfg hcfg hf hout fuel start stop maxOps maxTime interrupts emC kb dis tr emP tl st0 k128
    logC logP drawsC drawsP s h hstart hstop hmo hmt ht
  exact ⟨⟨a.1, a.2.1⟩, ⟨b.1, b.2.1⟩⟩

/-- … including the return value `(stop_cond, operations)` that `trace.py` prints, whenever the loop has finished -/
theorem translated_trace_loops_report_the_same {μ : Type} [MemLike μ] [CellMem μ] (cfg : Cfg) (hcfg : CSimH.CfgRep cfg) (hf : FrameOk cfg maxDur)
    (hout : CSimH.OutOkAll μ cfg) (fuel : Nat) (start : Int) (stop : Option Int) (maxOps maxTime : Int) (interrupts : Bool)
    (emC kb dis tr : PyObj) (emP tl : Bool) (st0 : Int) (k128 : Bool) (logC logP : List (List Int)) (drawsC : List Int) (drawsP : List Bool)
    (s : St μ) (h : RInv s) (hstart : 0 ≤ start ∧ start < 65536) (hstop : ∀ v, stop = some v → 0 ≤ v ∧ v < 65536)
    (hmo : 0 ≤ maxOps ∧ maxOps < 9223372036854775808) (hmt : 0 ≤ maxTime ∧ maxTime < 9223372036854775808)
    (ht : s.t + fuel * (maxDur + 19) < 9223372036854775808)
    (hdone : (CSimH.Loop.trace cfg fuel (.int start) (RunLoop.stopObj stop) maxOps maxTime interrupts PyObj.none emC kb dis tr logC drawsC s).2 = true) :
    (CSimH.Loop.trace cfg fuel (.int start) (RunLoop.stopObj stop) maxOps maxTime interrupts PyObj.none emC kb dis tr logC drawsC s).1.2 =
      ((PyLoop.Sim.trace_run cfg fuel start stop maxOps maxTime interrupts false emP tl st0 k128 logP drawsP s).1.2.stop_cond,
       (PyLoop.Sim.trace_run cfg fuel start stop maxOps maxTime interrupts false emP tl st0 k128 logP drawsP s).1.2.operations) :=
  (RunLoop.c_trace_eq_py_trace cfg hcfg hf hout fuel start stop maxOps maxTime interrupts emC kb dis tr emP tl st0 k128
    logC logP drawsC drawsP s h hstart hstop hmo hmt ht).2.2 hdone

/-- non-vacuity: the translated loop on the all-zero 128K state (NOPs): `-m 3` ends at PC 3 after 12 T-states and returns (1, 3);
with a stop address it returns (3, operations) -/
theorem c_trace_examples :
    (CSimH.Loop.trace RunLoop.witCfg 10 PyObj.none PyObj.none 3 0 false PyObj.none PyObj.none PyObj.none PyObj.none PyObj.none [] [] RunLoop.wit).1.2 = (1, 3) ∧
    (CSimH.Loop.trace RunLoop.witCfg 10 PyObj.none PyObj.none 3 0 false PyObj.none PyObj.none PyObj.none PyObj.none PyObj.none [] [] RunLoop.wit).1.1.t = 12 ∧
    (CSimH.Loop.trace RunLoop.witCfg 10 (PyObj.int 5) (PyObj.int 7) 0 0 false PyObj.none PyObj.none PyObj.none PyObj.none PyObj.none [] [] RunLoop.wit).1.2 = (3, 2) := by
  refine ⟨?_, ?_, ?_⟩ <;> decide +kernel

end C10
