import SkoolVerif.Proofs.AsmModesLemmas
import SkoolVerif.Proofs.AsmLayoutBin
import SkoolVerif.Proofs.AsmLayoutAsm
import SkoolVerif.Proofs.ReplaceNumsLemmas
import SkoolVerif.Proofs.ReplaceNumsRescan
import SkoolVerif.Proofs.AsmSnapshot
import SkoolVerif.Proofs.AsmLabels
import SkoolVerif.Proofs.ConvertCaseLemmas
/-!
C04 — skool2asm, skool2bin and the macro-visible snapshot agree on the assembled image.
Property theorems only; helper lemmas live in `SkoolVerif/Proofs/`.

Models (tied to /repo by the correspondence check `harness/props/c04.py`):
* `Model/AsmModes.lean`  — `skoolparser.Mode.weights`, `BinWriter.weights`, the two mode couplings,
  `read_skool`'s block-directive modes, `self.subs[max(self.subs)]`;
* `Model/AsmLayout.lean` — `BinWriter._add_instructions` & co. (`binLayout`) and
  `Mode.apply_asm_directives` + `AsmWriter.write` + sequential assembly (`asmLayout`);
* `Model/ReplaceNums.lean` — `skoolparser._replace_nums` (regex split as a state machine, the
  eligibility test, the two conversions);
* `Model/ConvertCase.lean` — `z80.Assembler.convert_case` (skool2asm -l / -u);
* `Spec/AsmLayout.lean`  — the reference layout written from the directive documentation
  (`specLayout`, partial: `none` outside the documented usage).
-/
namespace C04
open AsmModes AsmLayout AsmLayout.Spec

/-! ### (1) which directives are applied -/

/-- The two hand-written weight tables (skoolparser.Mode / skool2bin.BinWriter) are the same
function of (asm_mode, fix_mode), for all modes and all six directive classes. -/
theorem mode_weights_agree (asm fix : Nat) (d : Dir) : parserWeight asm fix d = binWeight asm fix d := by
  cases d <;> rfl

/-- `skool2asm.main` (which tests `== 3`) and `BinWriter.__init__` (which tests `> 2`) couple the
substitution and bugfix modes identically for every option combination the CLIs can produce. -/
theorem mode_coupling_agrees (asm fix : Nat) (ha : asm ≤ 3) (hf : fix ≤ 3) :
    asmCouple asm fix = binCouple asm fix := by
  unfold asmCouple binCouple
  by_cases h1 : fix = 3
  · simp [h1]
  · have : ¬ fix > 2 := by omega
    by_cases h2 : asm = 3
    · simp [h1, this, h2]
    · have : ¬ asm > 2 := by omega
      simp [*]

/-- Coupling is idempotent: feeding skool2bin the modes skool2asm ended up in changes nothing, so
`skool2bin` invoked with the coupled modes of a `skool2asm` run works in exactly those modes. -/
theorem mode_coupling_idempotent (asm fix : Nat) :
    binCouple (binCouple asm fix).1 (binCouple asm fix).2 = binCouple asm fix := by
  unfold binCouple
  by_cases h1 : fix > 2
  · simp [h1]
  · by_cases h2 : asm > 2
    · have : ¬ max fix 1 > 2 := by omega
      simp [h1, h2, this]
    · simp [h1, h2]

/-- In every ASM mode (`asm_mode ≠ 0`, the only ones skool2asm can be in) the parser records an
`@d=` directive iff BinWriter does. -/
theorem selected_set_agrees (asm fix : Nat) (d : Dir) (h : asm ≠ 0) :
    parserSelects asm fix d = binSelects asm fix d := by
  simp [parserSelects, binSelects, mode_weights_agree, h]

/-- Quirk made explicit: with `asm_mode = 0` the parser ignores every `@*sub`/`@*fix` directive
(whatever `fix_mode` is) whereas BinWriter applies `@ofix` in mode (0, 1).  Not reachable from
skool2asm (asm_mode ≥ 1) nor from skool2html (fix_mode = 0). -/
theorem asm0_parser_ignores_fixes (fix : Nat) (d : Dir) :
    parserSelects 0 fix d = false ∧ binSelects 0 1 .ofix = true := by
  constructor
  · simp [parserSelects]
  · decide

/-- `read_skool` keeps an `@d+begin … @d+end` block exactly when inline `@d=` directives are
applied: block and inline directives of a class are switched on together. -/
theorem block_and_inline_selection_agree (asm fix : Nat) (d : Dir) :
    blockPlus asm fix d = binSelects asm fix d := by
  cases d <;> simp only [blockPlus, binSelects, binWeight, wpos, wlt, b2n] <;>
    (split <;> simp_all)

/-- `self.subs[max(self.subs)]`: when class `d` is selected and present among the pending
directives and no selected class of higher rank (rfix > bfix > ofix > rsub > ssub > isub) is
present, exactly the values of class `d` are applied, in file order — for any pending list. -/
theorem applied_is_highest_rank {α : Type} (asm fix : Nat) (pending : List (Dir × α)) (d : Dir)
    (hsel : binSelects asm fix d = true) (hpres : d ∈ pending.map (·.1))
    (htop : ∀ d', binSelects asm fix d' = true → d' ∈ pending.map (·.1) → rank d' ≤ rank d) :
    applied (binWeight asm fix) (binSelects asm fix) pending = (pending.filter (fun p => p.1 == d)).map (·.2) := by
  unfold applied
  have hmax : maxW ((pending.filter (fun p => binSelects asm fix p.1)).map (fun p => binWeight asm fix p.1)) =
      binWeight asm fix d := by
    apply maxW_eq
    · intro x hx
      simp only [List.mem_map, List.mem_filter] at hx
      obtain ⟨p, ⟨hp, hps⟩, rfl⟩ := hx
      exact (table_facts asm fix p.1 d hps hsel).2 (htop p.1 hps (List.mem_map.mpr ⟨p, hp, rfl⟩))
    · simp only [List.mem_map, List.mem_filter] at hpres ⊢
      obtain ⟨p, hp, rfl⟩ := hpres
      exact ⟨p, ⟨hp, hsel⟩, rfl⟩
    · simp [wlt]
  simp only [hmax, List.filter_filter]
  congr 1
  apply List.filter_congr
  intro p _
  by_cases hpd : p.1 = d
  · simp [hpd, hsel]
  · have : ¬ (binSelects asm fix p.1 = true ∧ binWeight asm fix p.1 = binWeight asm fix d) := by
      intro ⟨h1, h2⟩
      exact hpd ((table_facts asm fix p.1 d h1 hsel).1 h2)
    have hbeq : (p.1 == d) = false := by simpa using hpd
    rw [hbeq]
    cases hs : binSelects asm fix p.1 with
    | false => simp
    | true =>
      have hne : binWeight asm fix p.1 ≠ binWeight asm fix d := fun h2 => this ⟨hs, h2⟩
      simp [hne]

/-- … and nothing is applied when no selected class is pending. -/
theorem applied_none_selected {α : Type} (asm fix : Nat) (pending : List (Dir × α))
    (h : ∀ p ∈ pending, binSelects asm fix p.1 = false) :
    applied (binWeight asm fix) (binSelects asm fix) pending = [] := by
  unfold applied
  have : pending.filter (fun p => binSelects asm fix p.1) = [] := by
    simp only [List.filter_eq_nil_iff]
    intro p hp; simp [h p hp]
  simp [this]

/-- The seven named modes: the options the end-to-end check passes to skool2asm and to skool2bin
put the parser and BinWriter in the same (asm_mode, fix_mode), hence (previous theorems) make them
select the same directives. -/
theorem cli_modes_agree (m : Mode7) : m.parserModes = m.binModes ∧
    ∀ d, parserSelects m.parserModes.1 m.parserModes.2 d = binSelects m.binModes.1 m.binModes.2 d := by
  cases m <;> refine ⟨rfl, fun d => ?_⟩ <;> cases d <;> rfl

/-! ### (2) where the instructions go -/

/-- `skool2bin` (BinWriter._add_instructions / _get_size / @org / `!range` handling) lays every
instruction out exactly as the reference does, for every list of blocks inside the documented
usage — by induction over blocks, lines and directive chains. -/
theorem bin_layout_correct {Op : Type} (size : Op → Nat) (bs : List (Block Op)) (out : List (Nat × Op))
    (h : specLayout size bs = some out) : binLayout size bs = .ok out := by
  unfold specLayout at h
  cases hs : specBlocks size (Spec.init Op) bs with
  | none => simp [hs] at h
  | some s' =>
    simp only [hs, Option.map_some, Option.some.injEq] at h
    obtain ⟨b', hb, hr⟩ := binBlocks_spec size bs _ _ s' binInit_rel hs
    simp [binLayout, hb, hr.out, h]

/-- Assembling skool2asm's output (parser: apply_asm_directives, compose_instructions,
process_instruction, add_instruction(insert); AsmWriter: ORG from the first instruction of an
entry; assembler: sequential placement) yields the reference layout as well. -/
theorem asm_layout_correct {Op : Type} (size : Op → Nat) (bs : List (Block Op)) (out : List (Nat × Op))
    (h : specLayout size bs = some out) : asmLayout size bs = .ok out := by
  unfold specLayout at h
  cases hs : specBlocks size (Spec.init Op) bs with
  | none => simp [hs] at h
  | some s' =>
    simp only [hs, Option.map_some, Option.some.injEq] at h
    obtain ⟨es, hes, hw⟩ := asmBlocks_spec size bs _ s' hs
    simp only [Spec.init] at hes hw
    simp [asmLayout, hes, hw, h]

/-- **layout_agree**: for every skool file inside the documented usage, the two independent
implementations put the same instructions at the same addresses. -/
theorem layout_agree {Op : Type} (size : Op → Nat) (bs : List (Block Op)) (out : List (Nat × Op))
    (h : specLayout size bs = some out) : binLayout size bs = asmLayout size bs := by
  rw [bin_layout_correct size bs out h, asm_layout_correct size bs out h]

/-- The address map skool2bin relocates operands with (`address_map`) is the reference's
original-address ↦ new-address map. -/
theorem bin_address_map_correct {Op : Type} (size : Op → Nat) (bs : List (Block Op)) (m : List (Nat × Nat))
    (h : specAmap size bs = some m) :
    ∃ st, binBlocks size (binInit Op) bs = .ok st ∧ st.amap = m := by
  unfold specAmap at h
  cases hs : specBlocks size (Spec.init Op) bs with
  | none => simp [hs] at h
  | some s' =>
    simp only [hs, Option.map_some, Option.some.injEq] at h
    obtain ⟨b', hb, hr⟩ := binBlocks_spec size bs _ _ s' binInit_rel hs
    exact ⟨b', hb, by rw [hr.amap, h]⟩

/-- Labels: when skool2asm's output is assembled, the label of every line lands exactly on the
address that skool2bin's `address_map` assigns to that line's original address. -/
theorem label_locations_match_address_map {Op : Type} (size : Op → Nat) (bs : List (Block Op))
    (m : List (Nat × Nat)) (h : specAmap size bs = some m) : ∀ q ∈ m, q ∈ asmLabelPos size bs := by
  unfold specAmap at h
  cases hs : specBlocks size (Spec.init Op) bs with
  | none => simp [hs] at h
  | some s' =>
    simp only [hs, Option.map_some, Option.some.injEq] at h
    subst h
    obtain ⟨es, hes, hw⟩ := labBlocks_spec size bs (Spec.init Op) s' [] (by simp [Spec.init]) hs
    simp only [Spec.init] at hes hw
    intro q hq
    simpa [asmLabelPos, hes] using hw q hq

/-- Operand relocation: an operand that names a LABELLED line is resolved by the assembler (via
the label) to the same address skool2bin substitutes (via `address_map`); an unlabelled operand
agrees when skool2bin leaves it alone (the line did not move, or it is not a line address).
`hn`: instruction addresses are distinct. -/
theorem relocation_agrees {Op : Type} (size : Op → Nat) (bs : List (Block Op)) (m : List (Nat × Nat))
    (h : specAmap size bs = some m) (labelled : Nat → Bool)
    (hn : ((asmLabelPos size bs).map (·.1)).Nodup) (ref : Nat)
    (hlab : labelled ref = true → (m.lookup ref).isSome = true)
    (hunl : labelled ref = false → relocBin m ref = ref) :
    relocBin m ref = relocAsm labelled (asmLabelPos size bs) ref := by
  unfold relocAsm
  cases hl : labelled ref with
  | false => simp [hunl hl]
  | true =>
    simp only [if_true]
    have := hlab hl
    cases hlk : m.lookup ref with
    | none => simp [hlk] at this
    | some r =>
      have hmem := label_locations_match_address_map size bs m h (ref, r) (mem_of_lookup m ref r hlk)
      rw [lookup_of_mem_nodup _ ref r hmem hn]
      simp [relocBin, hlk]

/-- Full-strength relocation statement (no label hypothesis) — false on the unchanged code. -/
def relocation_agrees_full : Prop :=
  ∀ (bs : List (Block (Nat × Nat))) (labelled : Nat → Bool) (ref : Nat) (st : BinSt (Nat × Nat)),
    binBlocks (fun o => o.1) (binInit _) bs = .ok st →
    relocBin st.amap ref = relocAsm labelled (asmLabelPos (fun o => o.1) bs) ref

/-- Witness (KNOWN_FINDINGS `unlabelled-target-after-move`): `c32768 JP 32773` / `@rsub=>XOR A` /
` 32771 NOP` / ` 32772 NOP` / ` 32773 RET` with no labels: skool2bin relocates the operand 32773 to
32774, the ASM keeps 32773. -/
theorem relocation_agrees_full_false : ¬ relocation_agrees_full := by
  intro h
  have := h [[.org none, .line ⟨some 32768, some (3, 1), []⟩,
      .line ⟨some 32771, some (1, 2), [⟨⟨true, false, false, false⟩, some (1, 9)⟩]⟩,
      .line ⟨some 32772, some (1, 3), []⟩, .line ⟨some 32773, some (1, 4), []⟩]]
    (fun _ => false) 32773
    { addr := some 32775, removed := [],
      out := [(32768, (3, 1)), (32771, (1, 9)), (32772, (1, 2)), (32773, (1, 3)), (32774, (1, 4))],
      amap := [(32768, 32768), (32771, 32772), (32772, 32773), (32773, 32774)] } (by rfl)
  simp [relocBin, relocAsm, List.lookup] at this

/-- Full-strength statement (no well-formedness hypothesis) — false on the unchanged code. -/
def layout_agree_full : Prop :=
  ∀ (bs : List (Block (Nat × Nat))), binLayout (fun o => o.1) bs = asmLayout (fun o => o.1) bs

/-- Witness: a line that is itself removed (overwritten by the preceding `|` instruction) but
carries a `>` directive of its own — the parser still inserts it (before the previous
instruction), BinWriter drops it.  (`@isub=|DEFS 2,2` / `c16384 DEFS 1,1` / `@isub=>DEFS 2,5` /
` 16385 DEFS 4,4`; reproduced on the real tools by the correspondence stream.) -/
theorem layout_agree_full_false : ¬ layout_agree_full := by
  intro h
  have := h [[.org none,
    .line ⟨some 16384, some (1, 1), [⟨⟨false, false, true, false⟩, some (2, 2)⟩]⟩,
    .line ⟨some 16385, some (4, 4), [⟨⟨true, false, false, false⟩, some (2, 5)⟩]⟩]]
  have hb : binLayout (fun o : Nat × Nat => o.1) [[.org none,
    .line ⟨some 16384, some (1, 1), [⟨⟨false, false, true, false⟩, some (2, 2)⟩]⟩,
    .line ⟨some 16385, some (4, 4), [⟨⟨true, false, false, false⟩, some (2, 5)⟩]⟩]] = .ok [(16384, (2, 2))] := by rfl
  have ha : asmLayout (fun o : Nat × Nat => o.1) [[.org none,
    .line ⟨some 16384, some (1, 1), [⟨⟨false, false, true, false⟩, some (2, 2)⟩]⟩,
    .line ⟨some 16385, some (4, 4), [⟨⟨true, false, false, false⟩, some (2, 5)⟩]⟩]] =
      .ok [(16384, (2, 5)), (16386, (2, 2))] := by rfl
  rw [hb, ha] at this
  simp at this

/-! ### (3) the macro-visible snapshot (`#PEEK`, image macros) -/

/-- In a fixed-layout file (every line that is not removed has an address, is placed at that
address, and has at most one directive that replaces/overwrites — nothing inserted) the parser
assembles into its snapshot exactly the (address, operation) sequence that skool2bin pokes into
the image and that assembling skool2asm's output produces. -/
theorem peek_snapshot_agrees {Op : Type} (size : Op → Nat) (bs : List (Block Op)) (out : List (Nat × Op))
    (h : specLayoutFixed size bs = some out) :
    parPokes size bs = .ok out ∧ binLayout size bs = .ok out ∧ asmLayout size bs = .ok out := by
  unfold specLayoutFixed at h
  cases hs : specBlocksFixed size (Spec.init Op) bs with
  | none => simp [hs] at h
  | some s' =>
    simp only [hs, Option.map_some, Option.some.injEq] at h
    have hspec : specLayout size bs = some out := by
      simp [specLayout, specBlocksFixed_spec size bs _ s' hs, h]
    refine ⟨?_, bin_layout_correct size bs out hspec, asm_layout_correct size bs out hspec⟩
    have := pokeBlocks_spec size bs _ s' hs
    simpa [parPokes, Spec.init, h] using this

/-- Hence, whatever the encoding, every address reads the same in the snapshot (what `#PEEK` and
the image macros see) and in the skool2bin image. -/
theorem peek_memory_agrees {Op : Type} (size : Op → Nat) (enc : Op → Nat → List Nat) (mem : Nat → Nat)
    (bs : List (Block Op)) (out pokes image : List (Nat × Op))
    (h : specLayoutFixed size bs = some out) (hp : parPokes size bs = .ok pokes) (hb : binLayout size bs = .ok image)
    (x : Nat) : pokeMem enc mem pokes x = pokeMem enc mem image x := by
  obtain ⟨h1, h2, _⟩ := peek_snapshot_agrees size bs out h
  rw [h1] at hp; rw [h2] at hb
  cases hp; cases hb; rfl

/-- Full-strength statement (no fixed-layout hypothesis) — false on the unchanged code. -/
def peek_agrees_full : Prop :=
  ∀ (bs : List (Block (Nat × Nat))), parPokes (fun o => o.1) bs = binLayout (fun o => o.1) bs

/-- Witness (KNOWN_FINDINGS `peek-overwrite-chain-not-assembled`): the 2nd instruction of a `|`
overwrite chain is never assembled into the snapshot (`@bfix=|LD L,0` / `@bfix=|LD H,L` over
`LD HL,0`). -/
theorem peek_agrees_full_false : ¬ peek_agrees_full := by
  intro h
  have := h [[.org none,
    .line ⟨some 49914, some (3, 1), [⟨⟨false, false, true, false⟩, some (2, 2)⟩, ⟨⟨false, false, true, false⟩, some (1, 3)⟩]⟩]]
  have hb : binLayout (fun o : Nat × Nat => o.1) [[.org none,
    .line ⟨some 49914, some (3, 1), [⟨⟨false, false, true, false⟩, some (2, 2)⟩, ⟨⟨false, false, true, false⟩, some (1, 3)⟩]⟩]] =
      .ok [(49914, (2, 2)), (49916, (1, 3))] := by rfl
  have hp : parPokes (fun o : Nat × Nat => o.1) [[.org none,
    .line ⟨some 49914, some (3, 1), [⟨⟨false, false, true, false⟩, some (2, 2)⟩, ⟨⟨false, false, true, false⟩, some (1, 3)⟩]⟩]] =
      .ok [(49914, (2, 2))] := by rfl
  rw [hb, hp] at this
  simp at this

/-! ### (4) numeral base conversion (`_replace_nums`) -/
open ReplaceNums in
/-- Digit round trips for every natural number: `int('{:0wX}'.format(n), 16) = n` for both widths
and letter cases, and `int(str(n)) = n`. -/
theorem hex_dec_roundtrip (f : HexFmt) (n : Nat) : parseHex (fmtHex f n) = n ∧ parseDec (fmtDec n) = n :=
  ⟨parseHex_fmtHex f n, parseDec_fmtDec n⟩

open ReplaceNums in
/-- The regex split loses no character, for every string: joining the elements gives back
`prefix + operation` (so an operation in which nothing is converted is returned unchanged). -/
theorem scan_lossless (pre : Char) (s : List Char) : join (scan pre s) = pre :: s := by
  simp [scan, join_scanFrom, St.pending]

open ReplaceNums in
/-- The token-level view: `_replace_nums` rewrites only numerals and every numeral keeps its value,
whatever the format, `skip_bit`, prefix and input string: the result is the join of a token list
with the same text elements and the same numeral values as the split of the input. -/
theorem replace_nums_tokens_preserved (fmt : Option HexFmt) (skipBit : Bool) (pre : Option Char)
    (s : List Char) :
    ∃ ts' : List Tok, replaceNums fmt skipBit pre s = (join ts').drop 1 ∧
      ts'.map Tok.val = (scan (pre.getD '(') s).map Tok.val ∧
      ts'.map Tok.txt = (scan (pre.getD '(') s).map Tok.txt ∧
      (join (scan (pre.getD '(') s)).drop 1 = s := by
  refine ⟨convAll fmt (if skipBit then 1 else 0) [] (scan (pre.getD '(') s), rfl, ?_, ?_, ?_⟩
  · exact (convAll_val fmt _ _ _).1
  · exact (convAll_val fmt _ _ _).2
  · simp [scan_lossless]

open ReplaceNums in
/-- **replace_nums_value_preserving**: re-tokenising the OUTPUT STRING of `_replace_nums` gives the
same text elements and, numeral for numeral, the same values as the input string — for every
format, `skip_bit`, prefix and input in which no decimal numeral is directly followed by a
hexadecimal letter (`wfToks`; without it `12AB` would become `$0CAB`, see the example below). The
documented exceptions (`%binary`, the bit number under `skip_bit`, text after a `"` prefix) are
numerals that are left alone, so they trivially keep their values too. -/
theorem replace_nums_value_preserving (fmt : Option HexFmt) (skipBit : Bool) (pre : Option Char)
    (s : List Char) (hwf : wfToks (scan (pre.getD '(') s) = true) :
    (scan (pre.getD '(') (replaceNums fmt skipBit pre s)).map Tok.val = (scan (pre.getD '(') s).map Tok.val ∧
    (scan (pre.getD '(') (replaceNums fmt skipBit pre s)).map Tok.txt = (scan (pre.getD '(') s).map Tok.txt := by
  rw [rescan_stable fmt skipBit pre s hwf]
  exact convAll_val fmt _ _ _

open ReplaceNums in
/-- Hence converting to hexadecimal and back to decimal (or the other way round) never changes
what the operation denotes. -/
theorem replace_nums_round_trip_values (f : HexFmt) (pre : Option Char) (s : List Char)
    (hwf : wfToks (scan (pre.getD '(') s) = true)
    (hwf2 : wfToks (scan (pre.getD '(') (replaceNums (some f) false pre s)) = true) :
    (scan (pre.getD '(') (replaceNums none false pre (replaceNums (some f) false pre s))).map Tok.val =
      (scan (pre.getD '(') s).map Tok.val := by
  rw [(replace_nums_value_preserving none false pre _ hwf2).1,
    (replace_nums_value_preserving (some f) false pre s hwf).1]

/-! ### (5) case conversion (`convert_case`, skool2asm -l / -u) -/
open ConvertCase in
/-- Case conversion leaves strings alone: the text has the same length, the same quoting structure,
and the characters inside double-quoted strings (escapes included) are unchanged, for every text. -/
theorem convert_case_keeps_strings (lower : Bool) (s : List Char) :
    (convertCase lower s).length = s.length ∧
    mask .out (convertCase lower s) = mask .out s ∧
    inString .out (convertCase lower s) = inString .out s :=
  ⟨go_length lower .out s, mask_go lower .out s, inString_go lower .out s⟩

open ConvertCase in
/-- Outside strings only the letter case (and the kind of white space) changes: after folding case
and white space the converted text equals the original — mnemonics, registers, hexadecimal digits
and label-free operands denote the same thing for a case-insensitive assembler. -/
theorem convert_case_only_changes_case (lower : Bool) (s : List Char) :
    (convertCase lower s).map (conv1 true) = s.map (conv1 true) :=
  go_fold lower .out s

open ConvertCase in
/-- Converting twice is converting once with the last setting (`-l` after `-u` = `-l`, idempotence). -/
theorem convert_case_last_wins (l1 l2 : Bool) (s : List Char) :
    convertCase l1 (convertCase l2 s) = convertCase l1 s :=
  go_go l1 l2 .out s

-- non-vacuity: concrete files inside the documented usage, with every directive shape
section examples
def sz (o : Nat × Nat) : Nat := o.1
def fl (s : String) : Flags :=
  if s = ">" then ⟨true, false, false, false⟩ else if s = "|" then ⟨false, false, true, false⟩
  else if s = "+" then ⟨false, false, false, true⟩ else ⟨false, false, false, false⟩

/-- `@org` / `>` insert / replace + `+`-less chain / `|` overwrite of two lines by three / `!` removal -/
def demo : List (Block (Nat × Nat)) :=
  [[.org none,
    .line ⟨some 32768, some (1, 1), []⟩,
    .line ⟨some 32769, some (2, 2), [⟨fl ">", some (1, 3)⟩, ⟨fl ">", some (3, 4)⟩, ⟨fl "", some (3, 5)⟩, ⟨fl "", some (1, 6)⟩]⟩,
    .line ⟨some 32771, some (3, 7), [⟨fl "|", some (2, 8)⟩, ⟨fl "|", some (1, 9)⟩, ⟨fl "|", some (1, 10)⟩]⟩,
    .line ⟨some 32774, some (1, 11), []⟩,
    .remove 32776 32777,
    .line ⟨some 32775, some (1, 12), [⟨fl "+", some (2, 13)⟩]⟩,
    .line ⟨some 32776, some (2, 14), []⟩],
   [.org (some 40000),
    .line ⟨some 32778, some (2, 15), []⟩,
    .line ⟨none, some (1, 16), []⟩]]

example : specLayout sz demo = some
    [(32768, (1, 1)), (32769, (1, 3)), (32770, (3, 4)), (32773, (3, 5)), (32776, (1, 6)),
     (32777, (2, 8)), (32779, (1, 9)), (32780, (1, 10)), (32781, (1, 12)), (32782, (2, 13)),
     (40000, (2, 15)), (40002, (1, 16))] := by decide
example : binLayout sz demo = asmLayout sz demo :=
  layout_agree sz demo [(32768, (1, 1)), (32769, (1, 3)), (32770, (3, 4)), (32773, (3, 5)), (32776, (1, 6)),
     (32777, (2, 8)), (32779, (1, 9)), (32780, (1, 10)), (32781, (1, 12)), (32782, (2, 13)),
     (40000, (2, 15)), (40002, (1, 16))] (by decide)
example : specAmap sz demo = some [(32768, 32768), (32769, 32773), (32771, 32777), (32775, 32781), (32778, 40000)] := by decide
example : asmLabelPos sz demo = [(32768, 32768), (32769, 32773), (32771, 32777), (32773, 32779), (32774, 32780), (32775, 32781), (32778, 40000)] := by rfl
example : ((asmLabelPos sz demo).map (·.1)).Nodup := by decide
-- the line at 32771 is labelled and moved to 32777: both routes resolve an operand 32771 to 32777
example : relocBin [(32768, 32768), (32769, 32773), (32771, 32777), (32775, 32781), (32778, 40000)] 32771 =
    relocAsm (fun a => a == 32771) (asmLabelPos sz demo) 32771 :=
  relocation_agrees sz demo _ (by decide) _ (by decide) 32771 (by decide) (by decide)
example : relocBin [(32768, 32768), (32769, 32773), (32771, 32777), (32775, 32781), (32778, 40000)] 32771 = 32777 := by decide
/-- a fixed-layout file: same-size replacement, single `|` overwrite of two lines, `!` removal with @org -/
def demoFixed : List (Block (Nat × Nat)) :=
  [[.org (some 32768),
    .line ⟨some 32768, some (2, 1), [⟨fl "", some (2, 2)⟩]⟩,
    .line ⟨some 32770, some (1, 3), [⟨fl "|", some (3, 4)⟩]⟩,
    .line ⟨some 32771, some (2, 5), []⟩,
    .line ⟨some 32773, some (1, 6), []⟩],
   [.remove 32774 32775, .org none,
    .line ⟨some 32776, some (3, 7), [⟨fl "", none⟩]⟩]]
example : specLayoutFixed sz demoFixed = some [(32768, (2, 2)), (32770, (3, 4)), (32773, (1, 6)), (32776, (3, 7))] := by decide
example : specLayoutFixed sz demo = none := by decide     -- `demo` moves code
-- outside the documented usage the reference is undefined (and the tools may differ):
example : specLayout sz [[.line ⟨some 1, some (1, 1), []⟩]] = none := by decide            -- no @org
example : specLayout sz [[.org none, .line ⟨some 1, some (0, 1), []⟩]] = none := by decide  -- cannot assemble
example : asmLayout sz [[.org none, .line ⟨some 1, some (1, 1), [⟨fl "", some (1, 2)⟩, ⟨fl "", some (1, 3)⟩, ⟨fl "|", some (1, 4)⟩]⟩]] =
    .error .cannotDetermine := by rfl
example : applied (binWeight 2 1) (binSelects 2 1) [(Dir.isub, 0), (.ssub, 1), (.ofix, 2), (.isub, 3), (.rsub, 4), (.ofix, 5)] = [2, 5] := by decide
example : asmCouple 0 4 ≠ binCouple 0 4 := by decide   -- `== 3` vs `> 2` differ outside the CLI range
open ConvertCase in  -- DEFM "a\"B",$ff : the string (with its escaped quote) is kept, the rest is upper-cased
example : convertCase false ['d', 'e', 'f', 'm', ' ', '"', 'a', '\\', '"', 'B', '"', ',', '$', 'f', 'f'] =
    ['D', 'E', 'F', 'M', ' ', '"', 'a', '\\', '"', 'B', '"', ',', '$', 'F', 'F'] := by decide
open ReplaceNums in
example : replaceNums (some ⟨2, false⟩) false none ['L', 'D', ' ', 'A', ',', '1', '2'] =
    ['L', 'D', ' ', 'A', ',', '$', '0', 'C'] := by decide
open ReplaceNums in
example : replaceNums none false none ['J', 'P', ' ', '$', '8', '0', '0', '0'] =
    ['J', 'P', ' ', '3', '2', '7', '6', '8'] := by decide
open ReplaceNums in  -- the side condition of replace_nums_value_preserving is needed: 12 followed by AB reads as $0CAB
example : (scan '(' (replaceNums (some ⟨2, false⟩) false none ['1', '2', 'A', 'B'])).map Tok.val = [none, some 3243] ∧
    (scan '(' ['1', '2', 'A', 'B']).map Tok.val = [none, some 12, none] ∧
    wfToks (scan '(' ['1', '2', 'A', 'B']) = false := by decide
open ReplaceNums in
example : wfToks (scan '(' ['L', 'D', ' ', 'A', ',', '1', '2']) = true := by decide
open ReplaceNums in  -- `%101` is binary and left alone, `5%3` is a modulo operation and converted
example : replaceNums (some ⟨2, true⟩) false none ['%', '1', '0', '1', ',', '5', '%', '3'] =
    ['%', '1', '0', '1', ',', '$', '0', '5', '%', '$', '0', '3'] := by decide
open ReplaceNums in  -- skip_bit: the bit number of BIT n,(IX+d) is not converted
example : replaceNums (some ⟨2, false⟩) true none ['3', ',', '(', 'I', 'X', '+', '9', ')'] =
    ['3', ',', '(', 'I', 'X', '+', '$', '0', '9', ')'] := by decide
end examples

end C04
