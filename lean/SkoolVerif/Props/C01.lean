import SkoolVerif.Proofs.BinWriterLemmas
import SkoolVerif.Proofs.CtlLexLemmas
/-!
C01 — sna2skool → skool2bin is lossless.  Property theorems only; helper lemmas live in
`SkoolVerif/Proofs/{CtlTiling,Statements,Emit,BinWriter}Lemmas.lean`.

Models (hand models tied to /repo by the correspondence check `harness/props/c01.py`):
`Model/CtlTiling.lean` + `Model/CtlLex.lean` (`CtlParser.parse_ctls` / `get_blocks`),
`Model/Statements.lean` (`Disassembler.*_range`, `disassemble`, `Disassembly._create_entries`),
`Model/BinWriter.lean` (`skool2bin.BinWriter`).  Declarative notions: `Spec/Tiling.lean`.

The per-instruction fact "the text of a decoded instruction assembles back to its bytes" is C02's;
it enters here only as the hypothesis `AsmOk` on code statements.
-/
namespace C01
open CtlTiling Stmts BinW C01Spec

/-! ## 1. control-file tiling -/

/-- `get_blocks` on **any** parser state: if the entry map's smallest key is `lo` and its largest
key `hi`, the blocks in order are contiguous and non-empty from `lo` to `hi`, and inside every block
the sub-blocks in order are contiguous, non-empty and cover the block exactly — so all sub-blocks in
order tile `[lo, hi)`.  (Sub-block addresses outside every block are dropped, duplicates of a block
start only change the first sub-block's type.) -/
theorem blocks_tile (st : PState) (lo hi : Nat)
    (hlo : (sortedKeys st.ctls).head? = some lo) (hhi : (sortedKeys st.ctls).getLast? = some hi) :
    BlocksTile (getBlocks st) lo hi ∧ (∀ b ∈ getBlocks st, Tiles b.subs b.start b.end_) ∧
    Tiles (flatSubs (getBlocks st)) lo hi := by
  have h := getBlocks_tile st lo hi hlo hhi
  exact ⟨h.1, h.2, flatSubs_tiles _ lo hi h.1 h.2⟩

/-- `parse_ctls` followed by `get_blocks`, for **every** list of parsed directives (sub-blocks,
sublength lists, `M`/`N`/`D` boundaries, `L` loops with any flags, addresses outside the range) and
every set of entry lines found by the pre-pass in `[min_address, max_address)`: the sub-blocks tile
exactly `[lo, max_address)` where `lo` is the lowest entry address. -/
theorem parse_ctls_tile (minA maxA lo : Nat) (pre : List (Nat × Char)) (ds : List Directive)
    (hpre : ∀ p ∈ pre, lo ≤ p.1 ∧ p.1 < maxA) (hlo : lo ∈ pre.map (·.1)) :
    Tiles (flatSubs (getBlocks (parseCtls minA maxA pre ds))) lo maxA := by
  have h := parseCtls_keys minA maxA lo pre ds hpre hlo
  exact (blocks_tile _ lo maxA h.1 h.2).2.2

/-- The same from control file **text**: for every list of control lines inside the lexical model's
domain and every `[min_address, max_address)`, either no entry line falls in the range (then there
are no blocks) or the sub-blocks tile `[lo, max_address)` with `lo` the lowest entry address —
malformed lines are ignored, never fatal. -/
theorem parse_file_tile (minA maxA : Nat) (lines : List (List Char)) (st : PState) (errs : List (Nat × CtlLex.Err))
    (h : CtlLex.parseFile minA maxA lines = .ok (st, errs)) :
    getBlocks st = [] ∨ ∃ lo, minA ≤ lo ∧ lo < maxA ∧ Tiles (flatSubs (getBlocks st)) lo maxA :=
  CtlLex.parseFile_tile minA maxA lines st errs h

/-- Without a control file (`CtlParser({start: 'c', end: 'i'})`) there is one block with one
sub-block covering `[start, end)`. -/
theorem no_ctl_tile (start end_ : Nat) (c : Char) (h : start < end_) :
    Tiles (flatSubs (getBlocks (noCtl start end_ c))) start end_ := by
  have hk : ∀ x, x ∈ sortedKeys (noCtl start end_ c).ctls ↔ x = start ∨ x = end_ := by
    intro x
    rw [mem_sortedKeys]
    simp only [noCtl, keys_dset]
    simp only [keys, List.map_nil, List.not_mem_nil, or_false]
    exact Or.comm
  refine (blocks_tile _ start end_ ?_ ?_).2.2
  · apply sorted_head _ (sortedItems_sorted _)
    · exact (hk start).2 (Or.inl rfl)
    · intro x hx; rcases (hk x).1 hx with h1 | h1 <;> omega
  · apply sorted_getLast _ (sortedItems_sorted _)
    · exact (hk end_).2 (Or.inr rfl)
    · intro x hx; rcases (hk x).1 hx with h1 | h1 <;> omega

/-- `*` multipliers: a parameter `n*m` contributes `m` statements of length `n`; the total length
and the number of statements of an expanded sublength list are the weighted sums. -/
theorem multipliers_expand (c : Char) (ps : List Param) :
    ((expandParams c ps).map (·.1)).sum = (ps.map (fun p => p.mult * (sublengthsOf c p.parts).1)).sum ∧
    (expandParams c ps).length = (ps.map (·.mult)).sum :=
  ⟨expandParams_sum c ps, expandParams_length c ps⟩

/-- The statements of a sublength list are given consecutive sub-block addresses: after the loop
the running address is the start plus the total of the lengths. -/
theorem sublength_addresses (sc : Option Char) (st : PState) (a : Nat) (l : List (Nat × Sublens)) :
    (assignLengths sc st a l).2 = a + (l.map (·.1)).sum :=
  assignLengths_address sc st a l

/-- `L start,length,count`: unrolling copies every directive in `[start, end)` to the same offset
in each of the following `count - 1` periods (below `max_address`) … -/
theorem loop_unroll_copies {V : Type} (d : Dict V) (hn : (keys d).Nodup) (s e c M k i : Nat) (v : V)
    (hv : dget d k = some v) (hs : s ≤ k) (he : k < e) (hi1 : 1 ≤ i) (hi2 : i < c)
    (hM : k + i * (e - s) < M) :
    dget (repeatDirectives d s e c M) (k + i * (e - s)) = some v :=
  repeat_copies d hn s e c M k i v hv hs he hi1 hi2 hM

/-- … and changes nothing else: the unrolled map is exactly what writing the directives out
`count` times would give. -/
theorem loop_unroll_frame {V : Type} (d : Dict V) (s e c M a : Nat)
    (h : ¬ ∃ k i, k ∈ keys d ∧ s ≤ k ∧ k < e ∧ 1 ≤ i ∧ i < c ∧ a = k + i * (e - s) ∧ a < M) :
    dget (repeatDirectives d s e c M) a = dget d a :=
  repeat_frame d s e c M a h

/-- Grouping sub-blocks under a multi-line (`M`) comment only regroups: the instructions of an
entry, in order, are those of its sub-blocks. -/
theorem merged_groups_keep_instructions {α : Type} (mlEnd : Sub → Option Nat) (l : List (Sub × List α)) :
    (mergeGroups mlEnd l).flatten = (l.map (·.2)).flatten :=
  mergeGroups_flatten mlEnd l

/-! ## 2. statement splitting -/

/-- `_defb_lines` (DEFB and DEFM, any sublengths, any `DefbSize`/`DefmSize` including 0): the
statements are consecutive from `start`, non-empty, hold the snapshot's bytes and end exactly at
`end`; and each one's item groups re-assemble to its bytes when the sublengths reach its end. -/
theorem defb_statements_cover (asm : Nat → List Nat) (mem : List Nat) (defm : Bool) (maxSize start end_ : Nat)
    (subl : Sublens) (hse : start < end_) (hmem : end_ ≤ mem.length) (h64 : mem.length ≤ 65536)
    (hne : subl ≠ []) (hsum : firstSize subl ≠ 0 → end_ - start ≤ (subl.map (·.1)).sum) :
    ∃ l, defbLines mem defm maxSize start end_ subl = .ok l ∧ Chain mem l start end_ ∧ ∀ s ∈ l, AsmOk asm s := by
  obtain ⟨l, hl, hc⟩ := defbLines_cover mem defm maxSize start end_ subl hse hmem h64
  exact ⟨l, hl, hc, defbLines_asm asm mem defm maxSize start end_ subl hne hsum l hl⟩

/-- `defw_range` without sublengths (`DefwSize` > 0): consecutive DEFW statements from `start`;
they end at `end` when `end - start` is even or `end` is the end of the snapshot (an odd last byte
then becomes a DEFB) and **one byte beyond `end`** otherwise; all re-assemble to their bytes. -/
theorem defw_statements_cover (asm : Nat → List Nat) (mem : List Nat) (dw start end_ : Nat) (subl : Sublens)
    (h0 : firstSize subl = 0) (hdw : 0 < dw) (hse : start < end_) (hmem : end_ ≤ mem.length)
    (h64 : mem.length ≤ 65536) (hb : ∀ x ∈ mem, x < 256) :
    ∃ l, defwRange mem dw start end_ subl = .ok l ∧
      Chain mem l start (if (end_ - start) % 2 = 1 ∧ end_ < mem.length then end_ + 1 else end_) ∧
      ∀ s ∈ l, AsmOk asm s := by
  obtain ⟨l, hl, hc⟩ := defwRange_default_cover mem dw start end_ subl h0 hdw hse hmem h64
  exact ⟨l, hl, hc, defwRange_asm asm mem dw start end_ subl (fun h => absurd h0 h) (fun h => absurd h0 h) hb l hl⟩

/-- `defw_range` with sublengths, all even: the DEFW statements cover `[start, end)` exactly — an
odd last byte of a group is emitted as a one-byte DEFB, never read across `end` — and re-assemble
to their bytes. -/
theorem defw_sublengths_cover (asm : Nat → List Nat) (mem : List Nat) (dw start end_ : Nat) (subl : Sublens)
    (h0 : firstSize subl ≠ 0) (hev : ∀ q ∈ subl, q.1 % 2 = 0) (hsum : end_ - start ≤ (subl.map (·.1)).sum)
    (hse : start < end_) (hmem : end_ ≤ mem.length) (h64 : mem.length ≤ 65536) (hb : ∀ x ∈ mem, x < 256) :
    ∃ l, defwRange mem dw start end_ subl = .ok l ∧ Chain mem l start end_ ∧ ∀ s ∈ l, AsmOk asm s := by
  obtain ⟨l, hl, hc⟩ := defwRange_explicit_cover mem dw start end_ subl h0 hev hsum hse hmem h64
  exact ⟨l, hl, hc, defwRange_asm asm mem dw start end_ subl (fun _ => hev) (fun _ => hsum) hb l hl⟩

/-- `defs_range`: one DEFS statement (or DEFB statements when the bytes differ) covering
`[start, end)` exactly; the DEFS re-assembles to its bytes when no size is given or the size is the
length of the range (a size that does not divide the sub-block is written unchanged for the last,
shorter chunk and then does **not** re-assemble). -/
theorem defs_statements_cover (asm : Nat → List Nat) (mem : List Nat) (db start end_ : Nat) (subl : Sublens)
    (hse : start < end_) (hmem : end_ ≤ mem.length) (h64 : mem.length ≤ 65536)
    (hsz : firstSize subl = 0 ∨ firstSize subl = end_ - start) :
    ∃ l, defsRange mem db start end_ subl = .ok l ∧ Chain mem l start end_ ∧ ∀ s ∈ l, AsmOk asm s := by
  obtain ⟨l, hl, hc⟩ := defsRange_cover mem db start end_ subl hse hmem h64
  exact ⟨l, hl, hc, defsRange_asm asm mem db start end_ subl hsz hmem l hl⟩

/-- **Data sub-blocks** (`b g s t u`), through the `while address < sub_block.end` loop of
`_create_entries` with sublength cycling: for every sublength list, `DefbSize`, `DefmSize` the
statements cover the sub-block exactly (`SubCovered`); for `b g t u` every statement also
re-assembles to its bytes. -/
theorem data_subblock_cover (asm : Nat → List Nat) (mem : List Nat) (cfg : Config) (dec : Dec) (s : Sub)
    (hctl : s.ctl = 'b' ∨ s.ctl = 'g' ∨ s.ctl = 's' ∨ s.ctl = 't' ∨ s.ctl = 'u')
    (hse : s.start < s.end_) (hmem : s.end_ ≤ mem.length) (h64 : mem.length ≤ 65536) :
    SubCovered mem cfg dec s ∧
    (s.ctl ≠ 's' → s.sublengths ≠ [] → ∀ l, emitSub mem cfg dec s = .ok l → ∀ t ∈ l, AsmOk asm t) := by
  refine ⟨dataSub_cover mem cfg dec s hctl hse hmem h64, ?_⟩
  intro hs hne l hl
  exact dataSub_asm asm mem cfg dec s (by rcases hctl with h | h | h | h | h <;> simp_all) hne l hl

/-- **Word sub-blocks** (`w`): with sublengths (all even) always covered exactly; without, exactly
when the length is even or the sub-block ends at the end of the snapshot. -/
theorem word_subblock_cover (mem : List Nat) (cfg : Config) (dec : Dec) (s : Sub) (hctl : s.ctl = 'w')
    (hse : s.start < s.end_) (hmem : s.end_ ≤ mem.length) (h64 : mem.length ≤ 65536)
    (hexp : firstSize s.sublengths ≠ 0 → ∀ q ∈ s.sublengths, q.1 % 2 = 0)
    (hdef : firstSize s.sublengths = 0 →
      0 < cfg.defwSize ∧ ((s.end_ - s.start) % 2 = 0 ∨ s.end_ = mem.length)) :
    SubCovered mem cfg dec s :=
  wordSub_cover mem cfg dec s hctl hse hmem h64 hexp hdef

/-- **Code sub-blocks**: the `address += length` walk of `disassemble` (any decoder returning
lengths ≥ 1; `Wrap` on or off; any RST-argument handler with byte or even word arguments) yields
consecutive statements from the start holding the snapshot's bytes — wrapping round to address 0
for an instruction that crosses 65535 with `Wrap`, a DEFB of the bytes up to 65535 without, no RST
argument at or beyond 65536 — and stops at the first statement boundary `e' ≥ end`; every statement
re-assembles to its bytes given C02's per-instruction fact. -/
theorem code_walk_cover (asm : Nat → List Nat) (mem : List Nat) (cfg : Config) (dec : Dec) (s : Sub)
    (hctl : s.ctl = 'c') (hlen : ∀ a, 1 ≤ dec.len a ∧ dec.len a ≤ 65536) (hrst : RstWf dec)
    (hse : s.start < s.end_) (hend : s.end_ ≤ 65536) (hmem : mem.length = 65536) (hb : ∀ x ∈ mem, x < 256)
    (hC02 : ∀ a, asm a = (codeIns mem cfg.wrap a (dec.len a)).bytes) :
    ∃ l e', emitSub mem cfg dec s = .ok l ∧ Chain mem l s.start e' ∧ s.end_ ≤ e' ∧ ∀ t ∈ l, AsmOk asm t := by
  obtain ⟨l, e', hl, hc, he⟩ := codeSub_cover mem cfg dec s hctl hlen hrst hse hend hmem
  refine ⟨l, e', hl, hc, he, ?_⟩
  unfold emitSub at hl
  rw [if_pos hctl] at hl
  simp only [Except.ok.injEq] at hl
  subst hl
  exact codeLoop_asm asm mem cfg.wrap dec s.end_ hrst hb hC02 _ _

/-- **All statements of a disassembly**: if the sub-blocks tile `[lo, hi)`, every disassembled
sub-block is covered exactly and the ignored ones come last, the statements written to the skool
file are a chain of snapshot bytes from `lo` to some `mid ≤ hi` followed only by blank placeholder
lines, and every address in `[mid, hi)` is ignored. -/
theorem statements_cover (mem : List Nat) (cfg : Config) (dec : Dec) (subs : List Sub) (lo hi : Nat)
    (ht : Tiles subs lo hi) (hgap : NoGap subs)
    (hcov : ∀ s ∈ subs, isIgnored s = false → SubCovered mem cfg dec s) :
    ∃ l bl mid, emit mem cfg dec subs = .ok (l ++ bl) ∧ Chain mem l lo mid ∧
      (∀ s ∈ bl, s.op = .blank ∧ s.bytes = []) ∧ mid ≤ hi ∧ ∀ a, mid ≤ a → a < hi → Ignored subs a :=
  emit_structure mem cfg dec subs lo hi ht hgap hcov

/-! ## 3. skool2bin and the composition -/

/-- skool2bin ignores the addresses in the skool file and places each instruction where the
previous one ended; along a chain of statements (which re-assemble to their bytes) this puts every
statement at its own address. -/
theorem sequential_placement (asm : Nat → List Nat) (mem : List Nat) (l : List Stmt) (a b : Nat)
    (hc : Chain mem l a b) (hasm : ∀ s ∈ l, AsmOk asm s) (hlt : ∀ s ∈ l, s.addr < 65537) :
    place none (itemsOf asm l) = .ok (l.map (fun s => (s.addr, s.bytes))) := by
  have := place_chain asm mem l a b hc hasm hlt [] none (Or.inl rfl)
  simp only [List.append_nil] at this
  rw [this]
  cases l <;> simp [place, Except.map]

/-- The full statement of C01 on the model: for every snapshot, tiling, decoder, assembler and
configuration, if the sub-block boundaries fall on statement boundaries (`SubCovered`) and every
statement re-assembles to its bytes (`AsmOk`: C02 for instructions, the `*_cover` theorems above
for data), the image written by skool2bin has the snapshot's byte at every address of `[lo, hi)`
outside the ignored sub-blocks. -/
def C01_full : Prop :=
  ∀ (asm : Nat → List Nat) (mem : List Nat) (cfg : Config) (dec : Dec) (subs : List Sub) (lo hi : Nat)
    (stmts : List Stmt),
    mem.length ≤ 65536 → hi ≤ mem.length → Tiles subs lo hi →
    (∀ s ∈ subs, isIgnored s = false → SubCovered mem cfg dec s) →
    emit mem cfg dec subs = .ok stmts → (∀ s ∈ stmts, AsmOk asm s) →
    ∃ m, binImage asm stmts = .ok m ∧ ∀ a, lo ≤ a → a < hi → ¬ Ignored subs a → some (m a) = mem[a]?

/-- **image_restored** (composition), proved under `NoGap`: no ignored sub-block is followed by a
disassembled one.  What is missing from `C01_full` is exactly the known finding `i-block-gap`
(`C01_full_false` below): sna2skool writes no `@org` after a blank ignored block, so skool2bin's
address counter — which is not advanced by the blank line — places everything that follows
directly after the preceding entry. -/
theorem image_restored_partial (asm : Nat → List Nat) (mem : List Nat) (cfg : Config) (dec : Dec)
    (subs : List Sub) (lo hi : Nat) (stmts : List Stmt)
    (h64 : mem.length ≤ 65536) (hhi : hi ≤ mem.length) (ht : Tiles subs lo hi) (hgap : NoGap subs)
    (hcov : ∀ s ∈ subs, isIgnored s = false → SubCovered mem cfg dec s)
    (hemit : emit mem cfg dec subs = .ok stmts) (hasm : ∀ s ∈ stmts, AsmOk asm s) :
    ∃ m, binImage asm stmts = .ok m ∧ ∀ a, lo ≤ a → a < hi → ¬ Ignored subs a → some (m a) = mem[a]? := by
  obtain ⟨l, bl, mid, hl, hc, hblank, hmid, hign⟩ := emit_structure mem cfg dec subs lo hi ht hgap hcov
  rw [hemit] at hl
  simp only [Except.ok.injEq] at hl
  subst hl
  have hltA : ∀ s ∈ l, s.addr < 65537 := by
    intro s hs; have := chain_addr_lt mem l lo mid hc s hs; omega
  have hpl := place_chain asm mem l lo mid hc (fun s hs => hasm s (List.mem_append_left _ hs)) hltA
    (itemsOf asm bl) none (Or.inl rfl)
  rw [place_blanks asm bl hblank] at hpl
  have hitems : itemsOf asm (l ++ bl) = itemsOf asm l ++ itemsOf asm bl := by simp [itemsOf]
  refine ⟨pokeAll (fun _ => 0) (l.map (fun s => (s.addr, s.bytes))), ?_, ?_⟩
  · simp only [binImage, hitems, hpl, Except.map, List.append_nil]
  · intro a h1 h2 hni
    have hamid : a < mid := by
      by_cases h : a < mid
      · exact h
      · exact absurd (hign a (by omega) h2) hni
    obtain ⟨s, hs, k, hk, hak, hbo⟩ := chain_covers mem l lo mid a hc h1 hamid
    apply pokeAll_good mem _ ?_ (fun _ => 0) (fun _ => False) (fun x hx => absurd hx id) a
    · right
      refine ⟨(s.addr, s.bytes), List.mem_map.2 ⟨s, hs, rfl⟩, k, hk, ?_⟩
      simp only; omega
    · intro p hp k' hk'
      obtain ⟨t, ht', rfl⟩ := List.mem_map.1 hp
      exact chain_bytesOk mem l lo mid hc t ht' k' hk'

/-- End-to-end for data-only disassemblies (e.g. `sna2skool -d N`, or control files made of
`b g s t u w` blocks and trailing `i` blocks; any sublengths, multipliers, `DefbSize`, `DefmSize`,
`DefwSize` within `DataWf`): no hypothesis about statement boundaries or re-assembly is left —
skool2bin reproduces every byte of `[lo, hi)` outside the ignored blocks. -/
theorem image_restored_data (asm : Nat → List Nat) (mem : List Nat) (cfg : Config) (dec : Dec)
    (subs : List Sub) (lo hi : Nat) (stmts : List Stmt)
    (h64 : mem.length ≤ 65536) (hhi : hi ≤ mem.length) (hb : ∀ x ∈ mem, x < 256)
    (ht : Tiles subs lo hi) (hgap : NoGap subs)
    (hctl : ∀ s ∈ subs, isIgnored s = false →
      (s.ctl = 'b' ∨ s.ctl = 'g' ∨ s.ctl = 's' ∨ s.ctl = 't' ∨ s.ctl = 'u' ∨ s.ctl = 'w') ∧ DataWf mem cfg s)
    (hemit : emit mem cfg dec subs = .ok stmts) :
    ∃ m, binImage asm stmts = .ok m ∧ ∀ a, lo ≤ a → a < hi → ¬ Ignored subs a → some (m a) = mem[a]? := by
  -- every sub-block lies inside [lo, hi)
  have hrange : ∀ (subs : List Sub) (lo : Nat), Tiles subs lo hi → ∀ s ∈ subs, s.start < s.end_ ∧ s.end_ ≤ hi := by
    intro subs
    induction subs with
    | nil => simp
    | cons s r ih =>
      intro lo ht s' hs'
      simp only [Tiles] at ht
      rcases List.mem_cons.1 hs' with h1 | h1
      · subst h1; exact ⟨by omega, Tiles_le ht.2.2⟩
      · exact ih _ ht.2.2 s' h1
  have hcov : ∀ s ∈ subs, isIgnored s = false → SubCovered mem cfg dec s := by
    intro s hs hi'
    have hr := hrange subs lo ht s hs
    obtain ⟨hc, _, hw, _⟩ := hctl s hs hi'
    by_cases hcw : s.ctl = 'w'
    · exact wordSub_cover mem cfg dec s hcw hr.1 (by omega) h64 (hw hcw).1 (hw hcw).2
    · exact dataSub_cover mem cfg dec s (by rcases hc with h | h | h | h | h | h <;> simp_all) hr.1 (by omega) h64
  have hsub : ∀ s ∈ subs, ∀ l, emitSub mem cfg dec s = .ok l → ∀ t ∈ l, AsmOk asm t := by
    intro s hs l hl
    by_cases hi' : isIgnored s = true
    · rw [emitSub_ignored mem cfg dec s hi'] at hl
      simp only [Except.ok.injEq] at hl
      subst hl
      intro t ht'
      simp only [List.mem_singleton] at ht'
      subst ht'
      rfl
    · have hr := hrange subs lo ht s hs
      obtain ⟨hc, hne, hw, hs'⟩ := hctl s hs (by simpa using hi')
      by_cases hcw : s.ctl = 'w'
      · exact wordSub_asm asm mem cfg dec s hcw hb (hw hcw).1 l hl
      · by_cases hcs : s.ctl = 's'
        · exact defsSub_asm asm mem cfg dec s hcs hr.1 (by omega) (hs' hcs) l hl
        · exact dataSub_asm asm mem cfg dec s (by rcases hc with h | h | h | h | h | h <;> simp_all) hne l hl
  exact image_restored_partial asm mem cfg dec subs lo hi stmts h64 hhi ht hgap hcov hemit
    (emit_asm asm mem cfg dec subs hsub stmts hemit)

/-- `C01_full` is false on the unchanged tree (known finding `i-block-gap`): for the control file
`b 0 / i 1 / b 2` over the bytes 1 2 3 every hypothesis holds, yet skool2bin puts the byte of
address 2 at address 1 (the blank line `i00001` does not advance its address counter and sna2skool
writes no `@org` for the entry after it). -/
theorem C01_full_false : ¬ C01_full := by
  intro h
  have hcov : ∀ s ∈ gapSubs, isIgnored s = false → SubCovered [1, 2, 3] {} gapDec s := by
    intro s hs hi
    simp only [gapSubs, List.mem_cons, List.not_mem_nil, or_false] at hs
    rcases hs with rfl | rfl | rfl
    · exact dataSub_cover _ _ _ _ (Or.inl rfl) (by decide) (by decide) (by decide)
    · simp [isIgnored] at hi
    · exact dataSub_cover _ _ _ _ (Or.inl rfl) (by decide) (by decide) (by decide)
  obtain ⟨m, hm, hall⟩ := h (fun _ => []) [1, 2, 3] {} gapDec gapSubs 0 3 gapStmts (by decide) (by decide)
    (by simp [gapSubs, Tiles]) hcov rfl (by simp [gapStmts, AsmOk, Op.assemble])
  have h2 := hall 2 (by omega) (by omega) (by simp [Ignored, gapSubs, isIgnored])
  have hb : binImage (fun _ => []) gapStmts = .ok (pokeAll (fun _ => 0) [(0, [1]), (1, [3])]) := rfl
  rw [hb] at hm
  simp only [Except.ok.injEq] at hm
  subst hm
  simp [pokeAll, poke] at h2

/-! ## non-vacuity: concrete values -/

-- a control file with sub-blocks, a sublength list, an `M` boundary and a loop, tiled by the model
example : flatSubs (getBlocks (parseCtls 0 100 [(10, 'b'), (40, 'c')]
    [.sub 'B' 10 (some 16) [(2, [(2, "n")]), (4, [(1, "b"), (3, "n")])], .sub 'W' 16 none [], .boundary 30 (some 34),
     .loop 10 20 2 0])) =
  [⟨'b', 10, 12, [(2, "n")]⟩, ⟨'b', 12, 16, [(1, "b"), (3, "n")]⟩, ⟨'w', 16, 20, [(0, "n")]⟩,
   ⟨'b', 20, 22, [(2, "n")]⟩, ⟨'b', 22, 26, [(1, "b"), (3, "n")]⟩, ⟨'w', 26, 30, [(0, "n")]⟩,
   ⟨'b', 30, 34, [(0, "n")]⟩, ⟨'b', 34, 40, [(0, "n")]⟩, ⟨'c', 40, 100, [(0, "n")]⟩] := by decide
example : Tiles (flatSubs (getBlocks (parseCtls 0 100 [(10, 'b'), (40, 'c')] [.loop 10 20 2 0]))) 10 100 :=
  parse_ctls_tile 0 100 10 _ _ (by decide) (by decide)
-- `2*3` expands to three statements of length 2
example : expandParams 'B' [⟨[(2, "n")], 3⟩, ⟨[(1, "b"), (3, "h")], 1⟩] =
  [(2, [(2, "n")]), (2, [(2, "n")]), (2, [(2, "n")]), (4, [(1, "b"), (3, "h")])] := by decide
-- loop unrolling copies the directive at 10 to 14 and 18
example : dget (repeatDirectives [(10, some 'b'), (12, none)] 10 14 3 100) 18 = some (some 'b') := by decide
-- DEFW without sublengths reads across an odd `end` …
example : defwRange [1, 2, 3, 4, 5] 1 0 3 [(0, "n")] =
  .ok [⟨0, .defw [513], [1, 2]⟩, ⟨2, .defw [1027], [3, 4]⟩] := rfl
-- … unless `end` is the end of the snapshot, where the odd byte becomes a DEFB
example : defwRange [1, 2, 3] 1 0 3 [(0, "n")] =
  .ok [⟨0, .defw [513], [1, 2]⟩, ⟨2, .defb false [[3]], [3]⟩] := rfl
-- a DEFS size that does not divide the sub-block: the last statement says DEFS 2 for one byte
example : emitSub [0, 0, 0] {} gapDec ⟨'s', 0, 3, [(2, "n")]⟩ =
  .ok [⟨0, .defs 2 0, [0, 0]⟩, ⟨2, .defs 2 0, [0]⟩] := rfl
-- statement splitting with DefbSize 2 and the hypotheses of `image_restored_data`
example : ∃ m, binImage (fun _ => []) [⟨0, .defb false [[5, 6]], [5, 6]⟩, ⟨2, .defb false [[7]], [7]⟩, ⟨3, .blank, []⟩] = .ok m ∧
    ∀ a, 0 ≤ a → a < 4 → ¬ Ignored [⟨'b', 0, 3, [(0, "n")]⟩, ⟨'i', 3, 4, [(0, "n")]⟩] a → some (m a) = [5, 6, 7, 8][a]? :=
  image_restored_data (fun _ => []) [5, 6, 7, 8] { defbSize := 2 } gapDec
    [⟨'b', 0, 3, [(0, "n")]⟩, ⟨'i', 3, 4, [(0, "n")]⟩] 0 4 _ (by decide) (by decide) (by decide) (by simp [Tiles])
    (by simp [NoGap, isIgnored]) (by simp [isIgnored, DataWf]) rfl
-- an instruction crossing 65535 on a full 64K snapshot is wrapped round to address 0 with `Wrap`
example : codeLoop (List.replicate 65533 7 ++ [0, 0, 62]) true { len := fun a => if a = 65535 then 2 else 1 } 65536 3 65533 =
  [⟨65533, .code 65533, [0]⟩, ⟨65534, .code 65534, [0]⟩, ⟨65535, .code 65535, [62, 7]⟩] := by decide +kernel
-- the real RST handlers satisfy `RstWf`
example : RstWf { len := fun _ => 1, rst := fun a => if a = 5 then some (false, [(1, "n")]) else if a = 9 then some (true, [(2, "n")]) else none } := by
  intro a isW sl h
  simp only at h
  split at h
  · cases h; simp
  · split at h
    · cases h; simp
    · cases h
-- control file text through the lexical layer
example : (CtlLex.parseFile 0 65536 ["b 30000".toList, "B 30000,4,1:b2*2".toList, "Z".toList, "i 30010".toList]).map
    (fun r => (flatSubs (getBlocks r.1), r.2)) =
  .ok ([⟨'b', 30000, 30003, [(1, "n"), (2, "b")]⟩, ⟨'b', 30003, 30004, [(1, "n"), (2, "b")]⟩, ⟨'b', 30004, 30010, [(0, "n")]⟩,
        ⟨'i', 30010, 65536, [(0, "n")]⟩], []) := by rfl
-- the sequential address counter: the line at skool address 2 lands at 1 after a blank line
example : place none (itemsOf (fun _ => []) gapStmts) = .ok [(0, [1]), (1, [3])] := rfl

end C01
