import SkoolVerif.Props.C08
import SkoolVerif.Props.C06
/-!
C08 for the C simulators — corollaries of C06's `c_run_eq_python` (the C handler bodies are translated
from `c/csimulator.c` on every run and proved equal to the Python closures) and of the C08 theorems
about the Python simulators.  They hold for runs of the *translated C handlers* (`CSimH.runN`,
`CCmioH.runN`: fetch through `GET_OPCODE_FUNC`, then the handler), from any in-range state, as long
as the 64-bit clock of the C implementation does not wrap (`s.t + n·maxDur < 2^63`: the C run loops
keep T bounded) and — on 128K memory — a tracer is attached (`OutOkAll`; see the known finding
`c-pages-128k-without-tracer`; on `Mem48` the hypothesis holds outright).  Property theorems only.
-/
namespace C08
open Z80

/-- C plain simulator, 48K: ROM is never modified, whatever program runs -/
theorem c_rom48_preserved (cfg : Cfg) (hcfg : CSimH.CfgRep cfg) (n : Nat) (s : St Mem48) (h : RInv s)
    (ht : s.t + n * Tshift.maxDur < 9223372036854775808) (a : Nat) (ha : a < 16384) :
    (CSimH.runN cfg n s).mem.cells.getD a 0 = s.mem.cells.getD a 0 := by
  rw [C06.c_run_eq_python cfg hcfg (Or.inr (fun _ _ _ => rfl)) n s h ht]
  exact rom48_preserved cfg n s a ha

/-- C contended simulator, 48K -/
theorem c_rom48_preserved_cmio (cfg : Cfg) (hcfg : CSimH.CfgRep cfg) (n : Nat) (s : St Mem48) (h : RInv s)
    (ht : s.t + n * Tshift.maxDurCmio < 9223372036854775808) (a : Nat) (ha : a < 16384) :
    (CCmioH.runN cfg n s).mem.cells.getD a 0 = s.mem.cells.getD a 0 := by
  rw [C06.c_cmio_run_eq_python cfg hcfg (Or.inr (fun _ _ _ => rfl)) n s h ht]
  exact rom48_preserved_cmio cfg n s a ha

/-- C simulators, 128K (tracer attached): neither ROM image is ever modified -/
theorem c_rom128_preserved (cfg : Cfg) (hcfg : CSimH.CfgRep cfg) (hout : CSimH.OutOkAll Mem128 cfg) (n : Nat)
    (s : St Mem128) (h : RInv s) :
    (s.t + n * Tshift.maxDur < 9223372036854775808 → (CSimH.runN cfg n s).mem.roms = s.mem.roms) ∧
    (s.t + n * Tshift.maxDurCmio < 9223372036854775808 → (CCmioH.runN cfg n s).mem.roms = s.mem.roms) := by
  constructor
  · intro ht
    rw [C06.c_run_eq_python cfg hcfg hout n s h ht]
    exact rom128_preserved cfg n s
  · intro ht
    rw [C06.c_cmio_run_eq_python cfg hcfg hout n s h ht]
    exact rom128_preserved_cmio cfg n s

/-- C simulators: every register, state field and memory cell stays in range, and the clock never
decreases, over runs of any length on any lawful memory -/
theorem c_ranges_and_clock {μ : Type} [MemLike μ] [CellMem μ] (cfg : Cfg) (hcfg : CSimH.CfgRep cfg)
    (hout : CSimH.OutOkAll μ cfg) (n : Nat) (s : St μ) (h : RInv s)
    (ht : s.t + n * Tshift.maxDur < 9223372036854775808) :
    RInv (CSimH.runN cfg n s) ∧ s.t ≤ (CSimH.runN cfg n s).t := by
  rw [C06.c_run_eq_python cfg hcfg hout n s h ht]
  exact ⟨(ranges_preserved_run cfg n s h).1, clock_monotone cfg n s⟩

theorem c_ranges_and_clock_cmio {μ : Type} [MemLike μ] [CellMem μ] [PageStable μ] (cfg : Cfg) (hcfg : CSimH.CfgRep cfg)
    (hout : CSimH.OutOkAll μ cfg) (n : Nat) (s : St μ) (h : RInv s)
    (ht : s.t + n * Tshift.maxDurCmio < 9223372036854775808) :
    RInv (CCmioH.runN cfg n s) ∧ s.t ≤ (CCmioH.runN cfg n s).t := by
  rw [C06.c_cmio_run_eq_python cfg hcfg hout n s h ht]
  exact ⟨(ranges_preserved_run cfg n s h).2, clock_monotone_cmio cfg n s⟩

-- the hypotheses are satisfiable: the concrete in-range 128K state of C06 with a tracer attached, 1000 instructions
example : RInv CVsPyEx.st128 ∧ CSimH.CfgRep { out_tracer := true } ∧ CSimH.OutOkAll Mem128 { out_tracer := true } ∧
    CVsPyEx.st128.t + 1000 * Tshift.maxDurCmio < 9223372036854775808 :=
  ⟨CVsPyEx.st128_inv, ⟨by decide, by decide, by decide, by decide, by decide⟩, Or.inl rfl, by decide⟩

end C08
