import SkoolVerif.Proofs.CmioVsSimRun
import SkoolVerif.Proofs.BusStep
/-!
C19 — contention simulation only ever adds the delays the ULA would impose.
Models: `Gen/CmioHandlers.lean` (translated from cmiosimulator.py on every run),
`Model/Contend.lean` (hand model of the delay tables / `contend_*` / `io_contention_*`; the tables are
compared entry by entry with the Python lists on every run).
-/
namespace C19
open Z80 Contend CmioVsSim

/-- Every instruction leaves registers, flags, memory, PC, interrupt state and the port-access
sequence exactly as the plain simulator does and never takes fewer T-states (MEMPTR is not compared).
The only closure left out of this statement is `BIT n,(HL)` (`isBitHl`), whose flag bits 5 and 3 depend
on MEMPTR — the property's own exemption; `only_adds_delay_modF53` covers it.
`CfgOk cfg` is the frame layout HALT and LD A,I/R need (they test the interrupt window after adding the
delay); both machine configurations have it (`frame_layout_ok`). -/
theorem only_adds_delay {μ : Type} [MemLike μ] (cfg : Cfg) (s : St μ)
    (hb : isBitHl (Sim.leafOf s) = false) (hr : RegsOk s.reg) (hcfg : CfgOk cfg) :
    SameButClock (Sim.step cfg s) (Cmio.step cfg s) := same_step cfg s hb hr hcfg

/-- Every instruction, no exclusion: the same as above except that bits 5 and 3 of F are not compared
("MEMPTR and the flag bits that depend on it"): every register but F, F under mask 0xD7, memory, PC,
IFF, IM, HALT, port logs equal, T never smaller. -/
theorem only_adds_delay_modF53 {μ : Type} [MemLike μ] (cfg : Cfg) (s : St μ)
    (hr : RegsOk s.reg) (hcfg : CfgOk cfg) :
    SameModF53 (Sim.step cfg s) (Cmio.step cfg s) := sameModF53_step cfg s hr hcfg

/-- never fewer T-states: every instruction, no exclusion -/
theorem never_fewer_tstates {μ : Type} [MemLike μ] (cfg : Cfg) (s : St μ)
    (hr : RegsOk s.reg) (hcfg : CfgOk cfg) :
    (Sim.step cfg s).t ≤ (Cmio.step cfg s).t := (sameModF53_step cfg s hr hcfg).2.2.2.2.2.2.2.2.2.2

/-- the frame-layout side condition holds for the 48K and the 128K configuration of
`CMIOSimulator.__init__` (constants compared with the real objects on every run) -/
theorem frame_layout_ok : CfgOk (cfgFor false) ∧ CfgOk (cfgFor true) := ⟨cfgOk_48k, cfgOk_128k⟩

/-- the bound behind it: a delay is at most 6 T-states per bus access of the instruction's pattern -/
theorem delay_le_six_per_access {μ : Type} [MemLike μ] (cfg : Cfg) (m : μ) (t : Int) (l : List (Int × Int)) :
    contend cfg m t l ≤ 6 * l.length := contend_le cfg m t l

/-- the one closure with the weaker statement -/
theorem isBitHl_iff (i : Sim.Instr) : isBitHl i = true ↔ ∃ b t, i = .bit_hl b t := by
  cases i <;> simp [isBitHl]

/-- Runs of any length (no interrupt accepted in between): started from the same state, the contended
simulator has after each of the first `n` instructions the same registers, flags, memory, PC, interrupt
state and port logs as the plain one and is never ahead of it in T — provided the plain run keeps its
registers in range and meets none of the three closures whose effect depends on what the two states
differ in (`clockFree`: HALT and LD A,I/R read T; BIT n,(HL) reads MEMPTR in the contended simulator). -/
theorem only_adds_delay_run {μ : Type} [MemLike μ] (cfg : Cfg) (hcfg : CfgOk cfg) (n : Nat) (s : St μ)
    (hall : ∀ k, k < n → RegsOk (Sim.runN cfg k s).reg ∧ clockFree (Sim.leafOf (Sim.runN cfg k s)) = true)
    (m : Nat) (hm : m ≤ n) :
    SameButClock (Sim.runN cfg m s) (Cmio.runN cfg m s) := same_runN cfg hcfg n s hall m hm

/-- the step behind it: from two states that differ in T (contended not earlier) and MEMPTR only -/
theorem only_adds_delay_from_related {μ : Type} [MemLike μ] (cfg : Cfg) (a b : St μ) (h : SameButClock a b)
    (hc : clockFree (Sim.leafOf a) = true) (hr : RegsOk a.reg) (hcfg : CfgOk cfg) :
    SameButClock (Sim.step cfg a) (Cmio.step cfg b) := same_step_rel cfg a b h hc hr hcfg

/-- exactly three closures are not clock-free -/
theorem clockFree_false_iff (i : Sim.Instr) :
    clockFree i = false ↔ (∃ b t, i = .bit_hl b t) ∨ i = .halt ∨ (∃ r, i = .ld_a_ir r) := clockFree_iff i

/-- Outside the display-fetch part of the frame (the guard `t0 < T mod frame < t1` is false) every
closure — no exclusions — takes exactly the plain simulator's T-states. -/
theorem same_tstates_outside_window {μ : Type} [MemLike μ] (cfg : Cfg) (s : St μ)
    (hout : ¬ (cfg.t0 < s.t % cfg.frame_duration ∧ s.t % cfg.frame_duration < cfg.t1)) :
    (Cmio.step cfg s).t = (Sim.step cfg s).t := by
  rw [Sim.step_eq, Cmio.step_eq, leafOf_map]
  exact sameT_execLeaf cfg _ s hout

/-- a delay is a sum of table entries, each in 0..6, never negative -/
theorem delay_nonneg {μ : Type} [MemLike μ] (cfg : Cfg) (m : μ) (t : Int) (l : List (Int × Int)) :
    0 ≤ contend cfg m t l := contend_nonneg cfg m t l

theorem delay_table_range (t : Int) : (0 ≤ delays48 t ∧ delays48 t ≤ 6) ∧ (0 ≤ delays128 t ∧ delays128 t ≤ 6) :=
  ⟨delays48_range t, delays128_range t⟩

/-- no delay when none of the addresses the instruction puts on the bus is contended -/
theorem no_delay_if_uncontended_48k (t : Int) (l : List (Int × Int))
    (h : ∀ x ∈ l, ¬ (0x4000 ≤ x.1 ∧ x.1 < 0x8000)) : contend48 t l = 0 := contend48_zero_of_uncontended t l h

theorem no_delay_if_uncontended_128k (o t : Int) (l : List (Int × Int))
    (h : ∀ x ∈ l, ¬ ((0x4000 ≤ x.1 ∧ x.1 < 0x8000) ∨ (o % 2 ≠ 0 ∧ x.1 ≥ 0xC000))) : contend128 o t l = 0 :=
  contend128_zero_of_uncontended o t l h

/-- the wait pattern 6,5,4,3,2,1,0,0 at each of the 128 fetch T-states of each of the 192 display
lines, 48K layout (224 T-states per line, first contended T-state 14335) -/
theorem wait_pattern_48k (row col : Int) (hr : 0 ≤ row ∧ row < 192) (hc : 0 ≤ col ∧ col < 128) :
    delays48 (14335 + 224 * row + col) = pattern (col % 8) := delays48_pattern row col hr hc

/-- 128K layout (228 T-states per line, first contended T-state 14361) -/
theorem wait_pattern_128k (row col : Int) (hr : 0 ≤ row ∧ row < 192) (hc : 0 ≤ col ∧ col < 128) :
    delays128 (14361 + 228 * row + col) = pattern (col % 8) := delays128_pattern row col hr hc

/-- no wait during the border part of a display line, before the first display line or after the last -/
theorem no_wait_outside_fetch_48k (row col : Int) (hr : 0 ≤ row ∧ row < 192) (hc : 128 ≤ col ∧ col < 224) :
    delays48 (14335 + 224 * row + col) = 0 := delays48_zero_border row col hr hc
theorem no_wait_before_display_48k (t : Int) (h : t < 14335) : delays48 t = 0 := delays48_zero_before t h
theorem no_wait_after_display_48k (t : Int) (h : 14335 + 224 * 192 ≤ t) : delays48 t = 0 := delays48_zero_after t h

/-- The window the simulators test (`t0 < T mod frame < t1`, constants of `CMIOSimulator.__init__`,
compared with the real objects on every run) is sound and tight: no wait can be met from `t1` on or
within 23 T-states of an instruction starting at or before `t0`, while the T-states just inside it are
contended. -/
theorem window_sound_48k (t : Int) : ((cfgFor false).t1 ≤ t → delays48 t = 0) ∧ (t ≤ (cfgFor false).t0 + 22 → delays48 t = 0) :=
  ⟨window_sound_48k_after t, window_sound_48k_before t⟩
theorem window_sound_128k (t : Int) : ((cfgFor true).t1 ≤ t → delays128 t = 0) ∧ (t ≤ (cfgFor true).t0 + 22 → delays128 t = 0) :=
  ⟨window_sound_128k_after t, window_sound_128k_before t⟩
theorem window_tight : (delays48 ((cfgFor false).t1 - 1) = 1 ∧ delays48 ((cfgFor false).t0 + 23) = 6) ∧
    (delays128 ((cfgFor true).t1 - 1) = 1 ∧ delays128 ((cfgFor true).t0 + 23) = 6) := ⟨window_tight_48k, window_tight_128k⟩

/-- every I/O contention pattern accounts for exactly the 4 T-states of the I/O cycle -/
theorem io_pattern_is_four_tstates {μ : Type} [MemLike μ] (cfg : Cfg) (m : μ) (port : Int) :
    ((io_contention cfg m port).map Prod.snd).sum = 4 := io_contention_sum cfg m port

example : pattern 0 = 6 ∧ pattern 5 = 1 ∧ pattern 6 = 0 ∧ pattern 7 = 0 := by decide
example : contend48 14335 [(0x4000, 4), (0x8000, 3), (0x4000, 3)] = 6 + 1 := by decide

/-! ### Each extra delay is the documented wait pattern over the instruction's documented cycles

`Spec/Z80Bus.lean` is an independent, executable bus-level specification: for every `ZInstr` the ordered
machine cycles (address on the bus, T-states; I/O cycles by port) written from the documented contention
tables, and `busDelay` = the sum, over those cycles in order, of the ULA wait at the T-state each cycle
begins.  The theorems below tie `cmiosimulator.py` (translated on every run) to it, for the instruction
that the independent fetch + decode of C05 finds at PC — not for a closure name.  Per-closure proofs:
`Gen/CmioBusThms.lean` (generated, one theorem per closure), `Proofs/BusStep.lean`.
-/
section Bus
open Z80Bus C19Bus Spec Z80Decode
variable {μ : Type} [MemLike μ] [CellMem μ]

/-- **Main theorem.**  From every in-range state inside the contended window, whatever bytes are at PC:
the contended simulator takes exactly the plain simulator's T-states plus the delay the documented
pattern gives for the instruction at PC — the sum over its memory, internal and I/O cycles, in order, of
the 6,5,4,3,2,1,0,0 wait at the T-state each cycle begins.  All instructions and addressing forms,
conditional instructions taken and not taken, block instructions repeating and terminating, HALT.
`hot`: the one spec entry where documentation and code differ is set aside — a *repeating* OTIR/OTDR
whose BC changes contention class when B is decremented (see `otir_repeat_cycles_differ`); for every
other instruction and state the hypothesis holds trivially (`otirRepeats_false_of_not_block_out`). -/
theorem delay_equals_documented_pattern (cfg : Cfg) (s : St μ) (hi : RInv s)
    (hw : cfg.t0 < s.t % cfg.frame_duration ∧ s.t % cfg.frame_duration < cfg.t1)
    (hot : otirRepeats s (decode (fetch s).1 (fetch s).2.toNat) = false ∨
      contended s.mem (addrVal s .bcOut) = contended s.mem (addrVal s (.rp .BC))) :
    (Cmio.step cfg s).t = (Sim.step cfg s).t +
      busDelay .documented cfg s (decode (fetch s).1 (fetch s).2.toNat) := by
  rw [bus_step cfg s hi hw]
  rcases hot with h | h
  · rw [busDelay_variant cfg s _ h]
  · rw [busDelay_variant_same_class cfg s _ h]

/-- The same for every instruction without exception, under the specification variant that models the
five repeat cycles of OTIR/OTDR as SkoolKit does (BC as it was before the instruction). -/
theorem delay_equals_pattern_skoolkit_otir (cfg : Cfg) (s : St μ) (hi : RInv s)
    (hw : cfg.t0 < s.t % cfg.frame_duration ∧ s.t % cfg.frame_duration < cfg.t1) :
    (Cmio.step cfg s).t = (Sim.step cfg s).t +
      busDelay .skoolkit cfg s (decode (fetch s).1 (fetch s).2.toNat) := bus_step cfg s hi hw

/-- … and at every frame position (the simulator's window guard loses nothing): when the frame
constants are those of the machine (`CfgMatches`: 48K list memory ↔ 69888/14312/57245, 128K paged
memory ↔ 70908/14338/58035, `cfg_matches_machine`), outside the window the specification's delay is 0
as well (`spec_no_delay_outside_window`). -/
theorem delay_equals_pattern_everywhere (cfg : Cfg) (s : St μ) (hi : RInv s) (hm : CfgMatches cfg s.mem) :
    (Cmio.step cfg s).t = (Sim.step cfg s).t +
      busDelay .skoolkit cfg s (decode (fetch s).1 (fetch s).2.toNat) := bus_step_everywhere cfg s hi hm

omit [CellMem μ] in
theorem cfg_matches_machine (m : μ) : CfgMatches (Contend.cfgFor (MemLike.is128 m)) m := ⟨rfl, rfl, rfl⟩

theorem spec_no_delay_outside_window (v : Variant) (cfg : Cfg) (s : St μ) (hi : RInv s) (hm : CfgMatches cfg s.mem)
    (hout : ¬ (cfg.t0 < s.t % cfg.frame_duration ∧ s.t % cfg.frame_duration < cfg.t1)) :
    busDelay v cfg s (decode (fetch s).1 (fetch s).2.toNat) = 0 :=
  busDelay_zero_outside v cfg s _ (fetch_decodable s hi) hm hout

/-- the per-closure statement behind the main theorem: every closure of the contended simulator, every
argument tuple that denotes an instruction (`zinstrOf`), for the decoded instruction `i'` it stands for -/
theorem closure_delay_equals_pattern (cfg : Cfg) (i : Sim.Instr) (s : St μ) (d : Decoded) (i' : Z80Isa.ZInstr)
    (hz : C05.zinstrOf i = some d) (hc : C05.canonD d = C05.canonD (Decoded.of i')) (hd : Decodable i')
    (hi : RInv s) (hw : cfg.t0 < s.t % cfg.frame_duration ∧ s.t % cfg.frame_duration < cfg.t1) :
    (Cmio.execLeaf cfg (CmioVsSim.toCmio i) s).t = (Sim.execLeaf cfg i s).t + busDelay .skoolkit cfg s i' :=
  bus_execLeaf cfg i s d i' hz hc hd hi hw

omit [CellMem μ] in
/-- only a block output instruction can be an `otirRepeats` case -/
theorem otirRepeats_false_of_not_block_out (s : St μ) (i : Z80Isa.ZInstr) (h : ∀ dec, i ≠ .block .OUT dec true) :
    otirRepeats s i = false := by
  cases i <;> try rfl
  rename_i k dec rep
  cases k <;> try rfl
  cases rep
  · rfl
  · exact absurd rfl (h dec)

omit [CellMem μ] in
/-- "each delay equals the sum, over the cycles in order, of the wait at the T-state each cycle begins":
the defining equations of the fold — a contended piece of `n` T-states starting at `t` waits `wait t`,
and the next piece starts at `t + wait t + n`; an uncontended one waits 0. -/
theorem delay_is_sum_in_order (m : μ) (t : Int) (c : Bool) (n : Int) (l : List (Bool × Int)) :
    delayFrom m t [] = 0 ∧
    delayFrom m t ((c, n) :: l) = (if c then wait m t else 0) + delayFrom m (t + (if c then wait m t else 0) + n) l :=
  ⟨rfl, rfl⟩

omit [CellMem μ] in
theorem busDelay_def (v : Variant) (cfg : Cfg) (s : St μ) (i : Z80Isa.ZInstr) :
    busDelay v cfg s i = delayFrom s.mem (s.t % cfg.frame_duration) (pieces s (shape v i (branch s i))) := rfl

omit [CellMem μ] in
/-- the wait is the documented 6,5,4,3,2,1,0,0 pattern of the machine's frame layout -/
theorem wait_is_documented_pattern (m : μ) (row col : Int) (hr : 0 ≤ row ∧ row < 192) (hc : 0 ≤ col ∧ col < 128) :
    (MemLike.is128 m = false → wait m (14335 + 224 * row + col) = Z80Bus.pattern (col % 8)) ∧
    (MemLike.is128 m = true → wait m (14361 + 228 * row + col) = Z80Bus.pattern (col % 8)) := by
  constructor
  · intro h; rw [wait_eq, h]; exact Contend.delays48_pattern row col hr hc
  · intro h; rw [wait_eq, h]; exact Contend.delays128_pattern row col hr hc

/-- no delay when no address or port the instruction puts on the bus is contended (0x4000-0x7FFF;
0xC000-0xFFFF with an odd bank on a 128K): then the contended step takes exactly the plain step's T-states -/
theorem same_tstates_if_no_contended_address (cfg : Cfg) (s : St μ) (hi : RInv s)
    (hw : cfg.t0 < s.t % cfg.frame_duration ∧ s.t % cfg.frame_duration < cfg.t1)
    (hu : anyContended .skoolkit s (decode (fetch s).1 (fetch s).2.toNat) = false) :
    (Cmio.step cfg s).t = (Sim.step cfg s).t := by
  rw [bus_step cfg s hi hw, busDelay_zero_of_uncontended _ cfg s _ hu, Int.add_zero]

/-- the specification is consistent with the instruction timings of C05: for every opcode of every prefix
page, in every state, its cycles add up to the documented T-states of the instruction (taken / not taken) -/
theorem spec_cycles_add_up (v : Variant) (s : St μ) (hi : RInv s) :
    cyclesLen (busCycles v s (decode (fetch s).1 (fetch s).2.toNat)) =
      (((if branch s (decode (fetch s).1 (fetch s).2.toNat) then (decode (fetch s).1 (fetch s).2.toNat).time.2
          else (decode (fetch s).1 (fetch s).2.toNat).time.1 : Nat)) : Int) :=
  cycles_total v s _ (fetch_decodable s hi)

/-- the four documented I/O cases -/
theorem io_cases : ioPieces false false = [(false, 1), (true, 3)] ∧ ioPieces false true = [(false, 4)] ∧
    ioPieces true false = [(true, 1), (true, 3)] ∧ ioPieces true true = [(true, 1), (true, 1), (true, 1), (true, 1)] :=
  ⟨rfl, rfl, rfl, rfl⟩

/-! #### where documentation and code differ: the five repeat cycles of OTIR / OTDR

`cmiosimulator.py` (`outi`: `contend(tm + 16 + delay, ((bc, 1),) * 5)` with `bc` read before
`b = (b - 1) % 256`) and `csimulator.c` put the *pre-decrement* BC on the bus during the five extra
cycles of a repeating OTIR/OTDR, although the I/O cycle of the same instruction (correctly) uses the
post-decrement value; at that point of the instruction B has already been decremented (FUSE: `B--`
first, then `contend_read_no_mreq( BC, 1 )` five times).  The two readings give different delays only
when B-1 and B fall in different contention classes. -/

/-- a 48K machine about to execute OTIR at 0x0000 with B = 0x40, C = 0x01, HL = 0x8000, 16 T-states
before the first contended T-state of the frame: the port 0x3F01 is not contended, the five repeat
cycles start at T = 14335 -/
def otirState : St Mem48 :=
  { reg := #[0, 0, 0x40, 0x01, 0, 0, 0x80, 0, 0, 0, 0, 0, 0xFFFF, 0, 0, 0, 0, 0, 0, 0, 0, 0, 0, 0],
    mem := ⟨#[0xED, 0xB3]⟩, pc := 0, t := 14319, iff := 0, im := 0, halt := 0, memptr := 0, ins := [], outs := [], inLog := [] }

theorem otirState_instr : decode (fetch otirState).1 (fetch otirState).2.toNat = .block .OUT false true := by
  decide +kernel

/-- documented reading: BC = 0x3F01 on the bus, no delay; SkoolKit's reading: BC = 0x4001, 6+0+6+0+6 -/
theorem otir_repeat_cycles_differ :
    busDelay .documented {} otirState (.block .OUT false true) = 0 ∧
    busDelay .skoolkit {} otirState (.block .OUT false true) = 18 := by decide +kernel

/-- … and the simulator model follows SkoolKit's reading there: 21 + 18 T-states -/
theorem otir_repeat_cycles_model : (Cmio.step {} otirState).t = 14319 + 21 + 18 ∧ (Sim.step {} otirState).t = 14319 + 21 := by
  decide +kernel

end Bus

/-! the specification on concrete instructions (documented breakdowns) -/
section BusExamples
open Z80Bus Z80Isa Z80Decode
-- NOP: pc:4
example : shape .documented (decode .MAIN 0x00) false = [.m (.pc 0) 4] := by decide
-- LD A,(nn): pc:4,pc+1:3,pc+2:3,nn:3
example : shape .documented (decode .MAIN 0x3A) false = [.m (.pc 0) 4, .m (.pc 1) 3, .m (.pc 2) 3, .m (.nn 1) 3] := by decide
-- INC (HL): pc:4,hl:3,hl:1,hl(write):3
example : shape .documented (decode .MAIN 0x34) false = [.m (.pc 0) 4, .m (.rp .HL) 3, .m (.rp .HL) 1, .m (.rp .HL) 3] := by decide
-- DJNZ: pc:4,ir:1,pc+1:3,[pc+1:1 x5]
example : shape .documented (decode .MAIN 0x10) true =
    [.m (.pc 0) 4, .m .ir 1, .m (.pc 1) 3, .m (.pc 1) 1, .m (.pc 1) 1, .m (.pc 1) 1, .m (.pc 1) 1, .m (.pc 1) 1] := by decide
-- PUSH IX: pc:4,pc+1:4,ir:1,sp-1:3,sp-2:3
example : shape .documented (decode .DD 0xE5) false = [.m (.pc 0) 4, .m (.pc 1) 4, .m .ir 1, .m (.sp (-1)) 3, .m (.sp (-2)) 3] := by decide
-- RLC (IY+d): pc:4,pc+1:4,pc+2:3,pc+3:3,pc+3:1 x2,iyd:3,iyd:1,iyd(write):3
example : shape .documented (decode .FDCB 0x06) false =
    [.m (.pc 0) 4, .m (.pc 1) 4, .m (.pc 2) 3, .m (.pc 3) 3, .m (.pc 3) 1, .m (.pc 3) 1, .m (.ea .IY) 3, .m (.ea .IY) 1, .m (.ea .IY) 3] := by decide
-- OUTI: pc:4,pc+1:4,ir:1,hl:3,I/O with B already decremented
example : shape .documented (decode .ED 0xA3) false = [.m (.pc 0) 4, .m (.pc 1) 4, .m .ir 1, .m (.rp .HL) 3, .io .BCout] := by decide
-- INIR repeating: pc:4,pc+1:4,ir:1,I/O (B as it was),hl:3,hl:1 x5
example : shape .documented (decode .ED 0xB2) true =
    [.m (.pc 0) 4, .m (.pc 1) 4, .m .ir 1, .io .BC, .m (.rp .HL) 3, .m (.rp .HL) 1, .m (.rp .HL) 1, .m (.rp .HL) 1, .m (.rp .HL) 1, .m (.rp .HL) 1] := by decide
-- a wait of 6 then 4+... : NOP in contended memory at the first contended T-state
example : delayFrom (⟨#[]⟩ : Z80.Mem48) 14335 [(true, 4), (false, 3), (true, 3)] = 6 + 1 := by decide +kernel
end BusExamples

end C19
