import SkoolVerif.Proofs.CmioVsSimRun
/-!
C19 — contention simulation only ever adds the delays the ULA would impose.
Models: `Gen/CmioHandlers.lean` (translated from cmiosimulator.py on every run),
`Model/Contend.lean` (hand model of the delay tables / `contend_*` / `io_contention_*`; the tables are
compared entry by entry with the Python lists on every run).
-/
namespace C19
open Z80 Contend CmioVsSim

/-- Every instruction leaves registers, flags, memory, PC, interrupt state and the port-access
sequence exactly as the plain simulator does and never takes fewer T-states (MEMPTR is not compared).
The only closure left out of this statement is `BIT n,(HL)` (`isBitHl`), whose flag bits 5 and 3 depend
on MEMPTR — the property's own exemption; `only_adds_delay_modF53` covers it.
`CfgOk cfg` is the frame layout HALT and LD A,I/R need (they test the interrupt window after adding the
delay); both machine configurations have it (`frame_layout_ok`). -/
theorem only_adds_delay {μ : Type} [MemLike μ] (cfg : Cfg) (s : St μ)
    (hb : isBitHl (Sim.leafOf s) = false) (hr : RegsOk s.reg) (hcfg : CfgOk cfg) :
    SameButClock (Sim.step cfg s) (Cmio.step cfg s) := same_step cfg s hb hr hcfg

/-- Every instruction, no exclusion: the same as above except that bits 5 and 3 of F are not compared
("MEMPTR and the flag bits that depend on it"): every register but F, F under mask 0xD7, memory, PC,
IFF, IM, HALT, port logs equal, T never smaller. -/
theorem only_adds_delay_modF53 {μ : Type} [MemLike μ] (cfg : Cfg) (s : St μ)
    (hr : RegsOk s.reg) (hcfg : CfgOk cfg) :
    SameModF53 (Sim.step cfg s) (Cmio.step cfg s) := sameModF53_step cfg s hr hcfg

/-- never fewer T-states: every instruction, no exclusion -/
theorem never_fewer_tstates {μ : Type} [MemLike μ] (cfg : Cfg) (s : St μ)
    (hr : RegsOk s.reg) (hcfg : CfgOk cfg) :
    (Sim.step cfg s).t ≤ (Cmio.step cfg s).t := (sameModF53_step cfg s hr hcfg).2.2.2.2.2.2.2.2.2.2

/-- the frame-layout side condition holds for the 48K and the 128K configuration of
`CMIOSimulator.__init__` (constants compared with the real objects on every run) -/
theorem frame_layout_ok : CfgOk (cfgFor false) ∧ CfgOk (cfgFor true) := ⟨cfgOk_48k, cfgOk_128k⟩

/-- the bound behind it: a delay is at most 6 T-states per bus access of the instruction's pattern -/
theorem delay_le_six_per_access {μ : Type} [MemLike μ] (cfg : Cfg) (m : μ) (t : Int) (l : List (Int × Int)) :
    contend cfg m t l ≤ 6 * l.length := contend_le cfg m t l

/-- the one closure with the weaker statement -/
theorem isBitHl_iff (i : Sim.Instr) : isBitHl i = true ↔ ∃ b t, i = .bit_hl b t := by
  cases i <;> simp [isBitHl]

/-- Runs of any length (no interrupt accepted in between): started from the same state, the contended
simulator has after each of the first `n` instructions the same registers, flags, memory, PC, interrupt
state and port logs as the plain one and is never ahead of it in T — provided the plain run keeps its
registers in range and meets none of the three closures whose effect depends on what the two states
differ in (`clockFree`: HALT and LD A,I/R read T; BIT n,(HL) reads MEMPTR in the contended simulator). -/
theorem only_adds_delay_run {μ : Type} [MemLike μ] (cfg : Cfg) (hcfg : CfgOk cfg) (n : Nat) (s : St μ)
    (hall : ∀ k, k < n → RegsOk (Sim.runN cfg k s).reg ∧ clockFree (Sim.leafOf (Sim.runN cfg k s)) = true)
    (m : Nat) (hm : m ≤ n) :
    SameButClock (Sim.runN cfg m s) (Cmio.runN cfg m s) := same_runN cfg hcfg n s hall m hm

/-- the step behind it: from two states that differ in T (contended not earlier) and MEMPTR only -/
theorem only_adds_delay_from_related {μ : Type} [MemLike μ] (cfg : Cfg) (a b : St μ) (h : SameButClock a b)
    (hc : clockFree (Sim.leafOf a) = true) (hr : RegsOk a.reg) (hcfg : CfgOk cfg) :
    SameButClock (Sim.step cfg a) (Cmio.step cfg b) := same_step_rel cfg a b h hc hr hcfg

/-- exactly three closures are not clock-free -/
theorem clockFree_false_iff (i : Sim.Instr) :
    clockFree i = false ↔ (∃ b t, i = .bit_hl b t) ∨ i = .halt ∨ (∃ r, i = .ld_a_ir r) := clockFree_iff i

/-- Outside the display-fetch part of the frame (the guard `t0 < T mod frame < t1` is false) every
closure — no exclusions — takes exactly the plain simulator's T-states. -/
theorem same_tstates_outside_window {μ : Type} [MemLike μ] (cfg : Cfg) (s : St μ)
    (hout : ¬ (cfg.t0 < s.t % cfg.frame_duration ∧ s.t % cfg.frame_duration < cfg.t1)) :
    (Cmio.step cfg s).t = (Sim.step cfg s).t := by
  rw [Sim.step_eq, Cmio.step_eq, leafOf_map]
  exact sameT_execLeaf cfg _ s hout

/-- a delay is a sum of table entries, each in 0..6, never negative -/
theorem delay_nonneg {μ : Type} [MemLike μ] (cfg : Cfg) (m : μ) (t : Int) (l : List (Int × Int)) :
    0 ≤ contend cfg m t l := contend_nonneg cfg m t l

theorem delay_table_range (t : Int) : (0 ≤ delays48 t ∧ delays48 t ≤ 6) ∧ (0 ≤ delays128 t ∧ delays128 t ≤ 6) :=
  ⟨delays48_range t, delays128_range t⟩

/-- no delay when none of the addresses the instruction puts on the bus is contended -/
theorem no_delay_if_uncontended_48k (t : Int) (l : List (Int × Int))
    (h : ∀ x ∈ l, ¬ (0x4000 ≤ x.1 ∧ x.1 < 0x8000)) : contend48 t l = 0 := contend48_zero_of_uncontended t l h

theorem no_delay_if_uncontended_128k (o t : Int) (l : List (Int × Int))
    (h : ∀ x ∈ l, ¬ ((0x4000 ≤ x.1 ∧ x.1 < 0x8000) ∨ (o % 2 ≠ 0 ∧ x.1 ≥ 0xC000))) : contend128 o t l = 0 :=
  contend128_zero_of_uncontended o t l h

/-- the wait pattern 6,5,4,3,2,1,0,0 at each of the 128 fetch T-states of each of the 192 display
lines, 48K layout (224 T-states per line, first contended T-state 14335) -/
theorem wait_pattern_48k (row col : Int) (hr : 0 ≤ row ∧ row < 192) (hc : 0 ≤ col ∧ col < 128) :
    delays48 (14335 + 224 * row + col) = pattern (col % 8) := delays48_pattern row col hr hc

/-- 128K layout (228 T-states per line, first contended T-state 14361) -/
theorem wait_pattern_128k (row col : Int) (hr : 0 ≤ row ∧ row < 192) (hc : 0 ≤ col ∧ col < 128) :
    delays128 (14361 + 228 * row + col) = pattern (col % 8) := delays128_pattern row col hr hc

/-- no wait during the border part of a display line, before the first display line or after the last -/
theorem no_wait_outside_fetch_48k (row col : Int) (hr : 0 ≤ row ∧ row < 192) (hc : 128 ≤ col ∧ col < 224) :
    delays48 (14335 + 224 * row + col) = 0 := delays48_zero_border row col hr hc
theorem no_wait_before_display_48k (t : Int) (h : t < 14335) : delays48 t = 0 := delays48_zero_before t h
theorem no_wait_after_display_48k (t : Int) (h : 14335 + 224 * 192 ≤ t) : delays48 t = 0 := delays48_zero_after t h

/-- The window the simulators test (`t0 < T mod frame < t1`, constants of `CMIOSimulator.__init__`,
compared with the real objects on every run) is sound and tight: no wait can be met from `t1` on or
within 23 T-states of an instruction starting at or before `t0`, while the T-states just inside it are
contended. -/
theorem window_sound_48k (t : Int) : ((cfgFor false).t1 ≤ t → delays48 t = 0) ∧ (t ≤ (cfgFor false).t0 + 22 → delays48 t = 0) :=
  ⟨window_sound_48k_after t, window_sound_48k_before t⟩
theorem window_sound_128k (t : Int) : ((cfgFor true).t1 ≤ t → delays128 t = 0) ∧ (t ≤ (cfgFor true).t0 + 22 → delays128 t = 0) :=
  ⟨window_sound_128k_after t, window_sound_128k_before t⟩
theorem window_tight : (delays48 ((cfgFor false).t1 - 1) = 1 ∧ delays48 ((cfgFor false).t0 + 23) = 6) ∧
    (delays128 ((cfgFor true).t1 - 1) = 1 ∧ delays128 ((cfgFor true).t0 + 23) = 6) := ⟨window_tight_48k, window_tight_128k⟩

/-- every I/O contention pattern accounts for exactly the 4 T-states of the I/O cycle -/
theorem io_pattern_is_four_tstates {μ : Type} [MemLike μ] (cfg : Cfg) (m : μ) (port : Int) :
    ((io_contention cfg m port).map Prod.snd).sum = 4 := io_contention_sum cfg m port

example : pattern 0 = 6 ∧ pattern 5 = 1 ∧ pattern 6 = 0 ∧ pattern 7 = 0 := by decide
example : contend48 14335 [(0x4000, 4), (0x8000, 3), (0x4000, 3)] = 6 + 1 := by decide

end C19
