import SkoolVerif.Proofs.CmioVsSimStep
/-!
C19 — contention simulation only ever adds the delays the ULA would impose.
Models: `Gen/CmioHandlers.lean` (translated from cmiosimulator.py on every run),
`Model/Contend.lean` (hand model of the delay tables / `contend_*` / `io_contention_*`; the tables are
compared entry by entry with the Python lists on every run).
-/
namespace C19
open Z80 Contend CmioVsSim

/-- Every instruction leaves registers, flags, memory, PC, interrupt state and the port-access
sequence exactly as the plain simulator does and never takes fewer T-states.
`_partial`: BIT n,(HL) (flag bits 5/3 depend on MEMPTR: exempted by the property itself), HALT and
LD A,I/R are excluded (`CmioVsSim.pending`). -/
theorem only_adds_delay_partial {μ : Type} [MemLike μ] (cfg : Cfg) (s : St μ)
    (hp : pending (Sim.leafOf s) = false) (hr : RegsOk s.reg) :
    SameButClock (Sim.step cfg s) (Cmio.step cfg s) := same_step_partial cfg s hp hr

/-- never fewer T-states (corollary, same exclusions) -/
theorem never_fewer_tstates_partial {μ : Type} [MemLike μ] (cfg : Cfg) (s : St μ)
    (hp : pending (Sim.leafOf s) = false) (hr : RegsOk s.reg) :
    (Sim.step cfg s).t ≤ (Cmio.step cfg s).t := (same_step_partial cfg s hp hr).2.2.2.2.2.2.2.2.2

/-- Outside the display-fetch part of the frame (the guard `t0 < T mod frame < t1` is false) every
closure — no exclusions — takes exactly the plain simulator's T-states. -/
theorem same_tstates_outside_window {μ : Type} [MemLike μ] (cfg : Cfg) (s : St μ)
    (hout : ¬ (cfg.t0 < s.t % cfg.frame_duration ∧ s.t % cfg.frame_duration < cfg.t1)) :
    (Cmio.step cfg s).t = (Sim.step cfg s).t := by
  rw [Sim.step_eq, Cmio.step_eq, leafOf_map]
  exact sameT_execLeaf cfg _ s hout

/-- a delay is a sum of table entries, each in 0..6, never negative -/
theorem delay_nonneg {μ : Type} [MemLike μ] (cfg : Cfg) (m : μ) (t : Int) (l : List (Int × Int)) :
    0 ≤ contend cfg m t l := contend_nonneg cfg m t l

theorem delay_table_range (t : Int) : (0 ≤ delays48 t ∧ delays48 t ≤ 6) ∧ (0 ≤ delays128 t ∧ delays128 t ≤ 6) :=
  ⟨delays48_range t, delays128_range t⟩

/-- no delay when none of the addresses the instruction puts on the bus is contended -/
theorem no_delay_if_uncontended_48k (t : Int) (l : List (Int × Int))
    (h : ∀ x ∈ l, ¬ (0x4000 ≤ x.1 ∧ x.1 < 0x8000)) : contend48 t l = 0 := contend48_zero_of_uncontended t l h

theorem no_delay_if_uncontended_128k (o t : Int) (l : List (Int × Int))
    (h : ∀ x ∈ l, ¬ ((0x4000 ≤ x.1 ∧ x.1 < 0x8000) ∨ (o % 2 ≠ 0 ∧ x.1 ≥ 0xC000))) : contend128 o t l = 0 :=
  contend128_zero_of_uncontended o t l h

/-- the wait pattern 6,5,4,3,2,1,0,0 at each of the 128 fetch T-states of each of the 192 display
lines, 48K layout (224 T-states per line, first contended T-state 14335) -/
theorem wait_pattern_48k (row col : Int) (hr : 0 ≤ row ∧ row < 192) (hc : 0 ≤ col ∧ col < 128) :
    delays48 (14335 + 224 * row + col) = pattern (col % 8) := delays48_pattern row col hr hc

/-- 128K layout (228 T-states per line, first contended T-state 14361) -/
theorem wait_pattern_128k (row col : Int) (hr : 0 ≤ row ∧ row < 192) (hc : 0 ≤ col ∧ col < 128) :
    delays128 (14361 + 228 * row + col) = pattern (col % 8) := delays128_pattern row col hr hc

/-- no wait during the border part of a display line, before the first display line or after the last -/
theorem no_wait_outside_fetch_48k (row col : Int) (hr : 0 ≤ row ∧ row < 192) (hc : 128 ≤ col ∧ col < 224) :
    delays48 (14335 + 224 * row + col) = 0 := delays48_zero_border row col hr hc
theorem no_wait_before_display_48k (t : Int) (h : t < 14335) : delays48 t = 0 := delays48_zero_before t h
theorem no_wait_after_display_48k (t : Int) (h : 14335 + 224 * 192 ≤ t) : delays48 t = 0 := delays48_zero_after t h

/-- The window the simulators test (`t0 < T mod frame < t1`, constants of `CMIOSimulator.__init__`,
compared with the real objects on every run) is sound and tight: no wait can be met from `t1` on or
within 23 T-states of an instruction starting at or before `t0`, while the T-states just inside it are
contended. -/
theorem window_sound_48k (t : Int) : ((cfgFor false).t1 ≤ t → delays48 t = 0) ∧ (t ≤ (cfgFor false).t0 + 22 → delays48 t = 0) :=
  ⟨window_sound_48k_after t, window_sound_48k_before t⟩
theorem window_sound_128k (t : Int) : ((cfgFor true).t1 ≤ t → delays128 t = 0) ∧ (t ≤ (cfgFor true).t0 + 22 → delays128 t = 0) :=
  ⟨window_sound_128k_after t, window_sound_128k_before t⟩
theorem window_tight : (delays48 ((cfgFor false).t1 - 1) = 1 ∧ delays48 ((cfgFor false).t0 + 23) = 6) ∧
    (delays128 ((cfgFor true).t1 - 1) = 1 ∧ delays128 ((cfgFor true).t0 + 23) = 6) := ⟨window_tight_48k, window_tight_128k⟩

/-- every I/O contention pattern accounts for exactly the 4 T-states of the I/O cycle -/
theorem io_pattern_is_four_tstates {μ : Type} [MemLike μ] (cfg : Cfg) (m : μ) (port : Int) :
    ((io_contention cfg m port).map Prod.snd).sum = 4 := io_contention_sum cfg m port

example : pattern 0 = 6 ∧ pattern 5 = 1 ∧ pattern 6 = 0 ∧ pattern 7 = 0 := by decide
example : contend48 14335 [(0x4000, 4), (0x8000, 3), (0x4000, 3)] = 6 + 1 := by decide

end C19
