import SkoolVerif.Proofs.SemCorollaries
/-!
C05 — the Z80 simulators implement documented Z80 instruction semantics.

What is proved here, about the Lean models translated on every run from `simtables.py` and
`simulator.py` (`Gen/SimTables.lean`, `Gen/SimHandlers.lean`):

1. `alu_<TABLE>_correct`: every entry of every flag/result table equals the independent bit-level
   specification `Spec/Z80Alu.lean` (kernel enumeration of all 1 189 120 entries, `Proofs/Alu/*`).
2. `dispatch_<tbl>_ok`: each of the 7 × 256 dispatch-table slots holds the closure call — closure,
   flag table, register slots, instruction length, T-states (both branches), R increment — that the
   independent opcode decoder `Spec/Z80Decode.lean` and the documented lengths / timings of
   `Spec/Z80Isa.lean` demand for that opcode, including the agreed undocumented forms.
3. `sim_refines_spec`: from every in-range state, one step of the simulator model *is* one step of
   the executable ISA semantics `Spec/Z80Sem.lean` (registers, all eight flag bits, memory, stack,
   PC, IFF/IM/HALT, T-states, R, port traffic) — for all 76 closures, all argument tuples that occur,
   all operand values (the 16-bit and block-instruction flag arithmetic by general bit lemmas, not
   by sampling).

The C simulators and the contended Python simulator are tied to these models by C06 (dispatch
equality, closure-by-closure equivalence) and by differential execution.
Property theorems only; proofs are in `Proofs/Sem*.lean`, `Proofs/C05Dispatch.lean`.
-/
namespace C05
open Z80 Sim Spec Z80Isa Z80Decode TableRanges AluCheck

/-! ### 1. The 8-bit flag/result lookup tables are correct for every one of their entries -/

theorem alu_ADC_correct (c a n : Nat) (hc : c < 2) (ha : a < 256) (hn : n < 256) :
    Tbl.ADC c a n = ((((Z80Spec.adc c a n).1 : Nat) : Int), (((Z80Spec.adc c a n).2 : Nat) : Int)) :=
  (okP_spec (AluProofs.ADC_ok c a n hc ha hn)).1

theorem alu_SBC_correct (c a n : Nat) (hc : c < 2) (ha : a < 256) (hn : n < 256) :
    Tbl.SBC c a n = ((((Z80Spec.sbc c a n).1 : Nat) : Int), (((Z80Spec.sbc c a n).2 : Nat) : Int)) :=
  (okP_spec (AluProofs.SBC_ok c a n hc ha hn)).1

theorem alu_ADD_correct (a n : Nat) (ha : a < 256) (hn : n < 256) :
    Tbl.ADD a n = ((((Z80Spec.adc 0 a n).1 : Nat) : Int), (((Z80Spec.adc 0 a n).2 : Nat) : Int)) :=
  (okP_spec (AluProofs.ADC_ok 0 a n (by omega) ha hn)).1

theorem alu_SUB_correct (a n : Nat) (ha : a < 256) (hn : n < 256) :
    Tbl.SUB a n = ((((Z80Spec.sbc 0 a n).1 : Nat) : Int), (((Z80Spec.sbc 0 a n).2 : Nat) : Int)) :=
  (okP_spec (AluProofs.SBC_ok 0 a n (by omega) ha hn)).1

theorem alu_AND_correct (a n : Nat) (ha : a < 256) (hn : n < 256) :
    Tbl.AND a n = ((((Z80Spec.and_ a n).1 : Nat) : Int), (((Z80Spec.and_ a n).2 : Nat) : Int)) :=
  (okP_spec (AluProofs.AND_ok a n ha hn)).1

theorem alu_OR_correct (a n : Nat) (ha : a < 256) (hn : n < 256) :
    Tbl.OR a n = ((((Z80Spec.or_ a n).1 : Nat) : Int), (((Z80Spec.or_ a n).2 : Nat) : Int)) :=
  (okP_spec (AluProofs.OR_ok a n ha hn)).1

theorem alu_XOR_correct (a n : Nat) (ha : a < 256) (hn : n < 256) :
    Tbl.XOR a n = ((((Z80Spec.xor_ a n).1 : Nat) : Int), (((Z80Spec.xor_ a n).2 : Nat) : Int)) :=
  (okP_spec (AluProofs.XOR_ok a n ha hn)).1

theorem alu_CP_correct (a n : Nat) (ha : a < 256) (hn : n < 256) :
    Tbl.CP a n = ((((Z80Spec.cp a n).1 : Nat) : Int), (((Z80Spec.cp a n).2 : Nat) : Int)) :=
  (okP_spec (AluProofs.CP_ok a n ha hn)).1

theorem alu_CPL_correct (a n : Nat) (ha : a < 256) (hn : n < 256) :
    Tbl.CPL a n = ((((Z80Spec.cpl a n).1 : Nat) : Int), (((Z80Spec.cpl a n).2 : Nat) : Int)) :=
  (okP_spec (AluProofs.CPL_ok a n ha hn)).1

theorem alu_DAA_correct (a n : Nat) (ha : a < 256) (hn : n < 256) :
    Tbl.DAA a n = ((((Z80Spec.daa a n).1 : Nat) : Int), (((Z80Spec.daa a n).2 : Nat) : Int)) :=
  (okP_spec (AluProofs.DAA_ok a n ha hn)).1

theorem alu_RLA_correct (a n : Nat) (ha : a < 256) (hn : n < 256) :
    Tbl.RLA a n = ((((Z80Spec.rla a n).1 : Nat) : Int), (((Z80Spec.rla a n).2 : Nat) : Int)) :=
  (okP_spec (AluProofs.RLA_ok a n ha hn)).1

theorem alu_RLCA_correct (a n : Nat) (ha : a < 256) (hn : n < 256) :
    Tbl.RLCA a n = ((((Z80Spec.rlca a n).1 : Nat) : Int), (((Z80Spec.rlca a n).2 : Nat) : Int)) :=
  (okP_spec (AluProofs.RLCA_ok a n ha hn)).1

theorem alu_RRA_correct (a n : Nat) (ha : a < 256) (hn : n < 256) :
    Tbl.RRA a n = ((((Z80Spec.rra a n).1 : Nat) : Int), (((Z80Spec.rra a n).2 : Nat) : Int)) :=
  (okP_spec (AluProofs.RRA_ok a n ha hn)).1

theorem alu_RRCA_correct (a n : Nat) (ha : a < 256) (hn : n < 256) :
    Tbl.RRCA a n = ((((Z80Spec.rrca a n).1 : Nat) : Int), (((Z80Spec.rrca a n).2 : Nat) : Int)) :=
  (okP_spec (AluProofs.RRCA_ok a n ha hn)).1

theorem alu_CCF_correct (a n : Nat) (ha : a < 256) (hn : n < 256) :
    Tbl.CCF a n = ((Z80Spec.ccf a n : Nat) : Int) :=
  (okI_spec (AluProofs.CCF_ok a n ha hn)).1

theorem alu_SCF_correct (a n : Nat) (ha : a < 256) (hn : n < 256) :
    Tbl.SCF a n = ((Z80Spec.scf a n : Nat) : Int) :=
  (okI_spec (AluProofs.SCF_ok a n ha hn)).1

theorem alu_BIT_correct (c b v : Nat) (hc : c < 2) (hb : b < 8) (hv : v < 256) :
    Tbl.BIT c b v = ((Z80Spec.bitTest c b v : Nat) : Int) :=
  (okI_spec (AluProofs.BIT_ok c b v hc hb hv)).1

theorem alu_ADC_A_A_correct (a n : Nat) (ha : a < 2) (hn : n < 256) :
    Tbl.ADC_A_A a n = ((((Z80Spec.adc a n n).1 : Nat) : Int), (((Z80Spec.adc a n n).2 : Nat) : Int)) :=
  (okP_spec (AluProofs.ADC_A_A_ok a n ha hn)).1

theorem alu_SBC_A_A_correct (a n : Nat) (ha : a < 2) (hn : n < 256) :
    Tbl.SBC_A_A a n = ((((Z80Spec.sbc a n n).1 : Nat) : Int), (((Z80Spec.sbc a n n).2 : Nat) : Int)) :=
  (okP_spec (AluProofs.SBC_A_A_ok a n ha hn)).1

theorem alu_INC_correct (a n : Nat) (ha : a < 2) (hn : n < 256) :
    Tbl.INC a n = ((((Z80Spec.inc a n).1 : Nat) : Int), (((Z80Spec.inc a n).2 : Nat) : Int)) :=
  (okP_spec (AluProofs.INC_ok a n ha hn)).1

theorem alu_DEC_correct (a n : Nat) (ha : a < 2) (hn : n < 256) :
    Tbl.DEC a n = ((((Z80Spec.dec a n).1 : Nat) : Int), (((Z80Spec.dec a n).2 : Nat) : Int)) :=
  (okP_spec (AluProofs.DEC_ok a n ha hn)).1

theorem alu_RL_correct (a n : Nat) (ha : a < 2) (hn : n < 256) :
    Tbl.RL a n = ((((Z80Spec.rl a n).1 : Nat) : Int), (((Z80Spec.rl a n).2 : Nat) : Int)) :=
  (okP_spec (AluProofs.RL_ok a n ha hn)).1

theorem alu_RR_correct (a n : Nat) (ha : a < 2) (hn : n < 256) :
    Tbl.RR a n = ((((Z80Spec.rr a n).1 : Nat) : Int), (((Z80Spec.rr a n).2 : Nat) : Int)) :=
  (okP_spec (AluProofs.RR_ok a n ha hn)).1

theorem alu_RLC_correct (v : Nat) (hv : v < 256) :
    Tbl.RLC v = ((((Z80Spec.rlc v).1 : Nat) : Int), (((Z80Spec.rlc v).2 : Nat) : Int)) :=
  (okP_spec (AluProofs.RLC_ok v hv)).1

theorem alu_RRC_correct (v : Nat) (hv : v < 256) :
    Tbl.RRC v = ((((Z80Spec.rrc v).1 : Nat) : Int), (((Z80Spec.rrc v).2 : Nat) : Int)) :=
  (okP_spec (AluProofs.RRC_ok v hv)).1

theorem alu_SLA_correct (v : Nat) (hv : v < 256) :
    Tbl.SLA v = ((((Z80Spec.sla v).1 : Nat) : Int), (((Z80Spec.sla v).2 : Nat) : Int)) :=
  (okP_spec (AluProofs.SLA_ok v hv)).1

theorem alu_SLL_correct (v : Nat) (hv : v < 256) :
    Tbl.SLL v = ((((Z80Spec.sll v).1 : Nat) : Int), (((Z80Spec.sll v).2 : Nat) : Int)) :=
  (okP_spec (AluProofs.SLL_ok v hv)).1

theorem alu_SRA_correct (v : Nat) (hv : v < 256) :
    Tbl.SRA v = ((((Z80Spec.sra v).1 : Nat) : Int), (((Z80Spec.sra v).2 : Nat) : Int)) :=
  (okP_spec (AluProofs.SRA_ok v hv)).1

theorem alu_SRL_correct (v : Nat) (hv : v < 256) :
    Tbl.SRL v = ((((Z80Spec.srl v).1 : Nat) : Int), (((Z80Spec.srl v).2 : Nat) : Int)) :=
  (okP_spec (AluProofs.SRL_ok v hv)).1

theorem alu_NEG_correct (v : Nat) (hv : v < 256) :
    Tbl.NEG v = ((((Z80Spec.neg v).1 : Nat) : Int), (((Z80Spec.neg v).2 : Nat) : Int)) :=
  (okP_spec (AluProofs.NEG_ok v hv)).1

theorem alu_SZ53P_correct (v : Nat) (hv : v < 256) :
    Tbl.SZ53P v = ((Z80Spec.sz53p v : Nat) : Int) :=
  (okI_spec (AluProofs.SZ53P_ok v hv)).1

theorem alu_PARITY_correct (v : Nat) (hv : v < 256) :
    Tbl.PARITY v = ((Z80Spec.fl (Z80Spec.parityEven v) 4 : Nat) : Int) :=
  (okI_spec (AluProofs.PARITY_ok v hv)).1

theorem alu_R1_correct (v : Nat) (hv : v < 256) :
    Tbl.R1 v = (((v / 128) * 128 + (v % 128 + 1) % 128 : Nat) : Int) :=
  (okI_spec (AluProofs.R1_ok v hv)).1

theorem alu_R2_correct (v : Nat) (hv : v < 256) :
    Tbl.R2 v = (((v / 128) * 128 + (v % 128 + 2) % 128 : Nat) : Int) :=
  (okI_spec (AluProofs.R2_ok v hv)).1

/-! ### 2. Dispatch: every slot calls the right closure with the right arguments -/

theorem slotDecodes_of_leaf (t : Sim.OpTbl) (op : Nat) (h : op < 256)
    (hl : isLeaf (t.arr.getD op (.prefix_ .MAIN)) = true) : SlotDecodes t op := regular_of_leaf t op h hl

/-- unprefixed opcodes (all but the four prefix bytes) -/
theorem dispatch_MAIN_ok (op : Nat) (h : op < 256) (hp : op ≠ 0xCB ∧ op ≠ 0xED ∧ op ≠ 0xDD ∧ op ≠ 0xFD) :
    SlotDecodes .MAIN op := by
  apply slotDecodes_of_leaf _ _ h
  rw [isLeaf_iff]
  constructor
  · intro t' he; have := (slot_prefix .MAIN op h t' he).2; omega
  · intro t' he; have := (slot_prefix2 .MAIN op h t' he).2; simp at this

theorem dispatch_CB_ok (op : Nat) (h : op < 256) : SlotDecodes .CB op :=
  slotDecodes_of_leaf _ _ h (leaf_in_plain .CB (by simp) op h)

theorem dispatch_ED_ok (op : Nat) (h : op < 256) : SlotDecodes .ED op :=
  slotDecodes_of_leaf _ _ h (leaf_in_plain .ED (by simp) op h)

theorem dispatch_DD_ok (op : Nat) (h : op < 256) (hp : op ≠ 0xCB) : SlotDecodes .DD op := by
  apply slotDecodes_of_leaf _ _ h
  rw [isLeaf_iff]
  constructor
  · intro t' he; have := (slot_prefix .DD op h t' he).1; simp at this
  · intro t' he; have := (slot_prefix2 .DD op h t' he).1; omega

theorem dispatch_FD_ok (op : Nat) (h : op < 256) (hp : op ≠ 0xCB) : SlotDecodes .FD op := by
  apply slotDecodes_of_leaf _ _ h
  rw [isLeaf_iff]
  constructor
  · intro t' he; have := (slot_prefix .FD op h t' he).1; simp at this
  · intro t' he; have := (slot_prefix2 .FD op h t' he).1; omega

theorem dispatch_DDCB_ok (op : Nat) (h : op < 256) : SlotDecodes .DDCB op :=
  slotDecodes_of_leaf _ _ h (leaf_in_plain .DDCB (by simp) op h)

theorem dispatch_FDCB_ok (op : Nat) (h : op < 256) : SlotDecodes .FDCB op :=
  slotDecodes_of_leaf _ _ h (leaf_in_plain .FDCB (by simp) op h)

/-- the six prefix slots lead to the right second-level tables -/
theorem dispatch_prefix_slots_ok :
    Sim.tbl_MAIN[0xCB]! = .prefix_ .CB ∧ Sim.tbl_MAIN[0xED]! = .prefix_ .ED ∧
    Sim.tbl_MAIN[0xDD]! = .prefix_ .DD ∧ Sim.tbl_MAIN[0xFD]! = .prefix_ .FD ∧
    Sim.tbl_DD[0xCB]! = .prefix2_ .DDCB ∧ Sim.tbl_FD[0xCB]! = .prefix2_ .FDCB := by decide +kernel

/-- Whatever bytes are at PC, the closure `step` ends up running denotes the instruction that the
independent fetch (prefix handling) + decode finds there. -/
theorem fetch_decode_agree {μ : Type} [MemLike μ] [CellMem μ] (s : St μ) (hi : RInv s) :
    ∃ d, zinstrOf (leafOf s) = some d ∧
      canonD d = canonD (Decoded.of (decode (Spec.fetch s).1 (Spec.fetch s).2.toNat)) := leaf_spec s hi

/-- encodings identified by `canon` (NOP / lone prefix / undefined ED pair / LD r,r; RETI / RETN)
execute identically -/
theorem equivalent_encodings_same_semantics {μ : Type} [MemLike μ] [CellMem μ] (cfg : Cfg) (d : Decoded) (s : St μ) :
    Spec.exec cfg (canonD d) s = Spec.exec cfg d s := exec_canon cfg d s

/-! ### 3. Execution: each closure does what the ISA semantics says -/

/-- Per closure: for every argument tuple that denotes an instruction (`zinstrOf … = some d`),
from every in-range state, running the closure is executing `d` — result values, all eight flag
bits, memory writes with the ROM guard, stack, PC, IFF/IM/HALT, T-states, R, port reads/writes.
All 76 closures, including the ones with inline flag arithmetic (`adc_hl`, `sbc_hl`, `add_rr`,
`cpi`, `ldi`, `ini`, `outi`, `rld`, `rrd`, `ld_a_ir`). -/
theorem closure_refines_spec {μ : Type} [MemLike μ] [CellMem μ] [AdjMem μ] (cfg : Cfg) (i : Sim.Instr) (d : Decoded)
    (hz : zinstrOf i = some d) (hwf : instrWf i = true) (s : St μ) (hi : RInv s) :
    execLeaf cfg i s = Spec.exec cfg d s := sem_execLeaf cfg i d hz hwf s hi

/-- **Main theorem.**  One `opcodes[memory[pc]]()` of the simulator = one step of the executable Z80
specification (fetch with prefix handling, independent decode, ISA semantics), from any state
satisfying the range invariant, on any lawful memory (48K list, 128K paged), for any port-input
stream and tracer configuration. -/
theorem sim_refines_spec {μ : Type} [MemLike μ] [CellMem μ] [AdjMem μ] (cfg : Cfg) (s : St μ) (hi : RInv s) :
    Sim.step cfg s = Spec.step cfg s := step_refines cfg s hi

/-- 48K list memory -/
theorem sim_refines_spec_48k (cfg : Cfg) (s : St Mem48) (hi : RInv s) : Sim.step cfg s = Spec.step cfg s :=
  step_refines cfg s hi

/-- 128K paged memory (`pagingtracer.Memory`) -/
theorem sim_refines_spec_128k (cfg : Cfg) (s : St Mem128) (hi : RInv s) : Sim.step cfg s = Spec.step cfg s :=
  step_refines cfg s hi

/-- Runs of any length: the simulator's trajectory is the specification's trajectory (the range
invariant is carried along by C08's `rinv_step`). -/
theorem run_refines_spec {μ : Type} [MemLike μ] [CellMem μ] [AdjMem μ] (cfg : Cfg) (n : Nat) (s : St μ) (hi : RInv s) :
    Sim.runN cfg n s = specRunN cfg n s := by
  induction n generalizing s with
  | zero => rfl
  | succ n ih =>
    have hstep := step_refines cfg s hi
    simp only [Sim.runN, specRunN]
    rw [← hstep]
    exact ih _ (rinv_step cfg s hi)

/-! ### 4. Corollaries -/

/-- T-states: one step of the simulator advances the clock by exactly one of the two documented
durations of the instruction at PC (condition false / true, repeat ends / repeats). -/
theorem sim_step_tstates {μ : Type} [MemLike μ] [CellMem μ] [AdjMem μ] (cfg : Cfg) (s : St μ) (hi : RInv s) :
    (Sim.step cfg s).t = s.t + ((decode (Spec.fetch s).1 (Spec.fetch s).2.toNat).time.1 : Nat) ∨
    (Sim.step cfg s).t = s.t + ((decode (Spec.fetch s).1 (Spec.fetch s).2.toNat).time.2 : Nat) := by
  rw [step_refines cfg s hi]
  exact exec_tstates cfg (Decoded.of _) s

/-- The contention-aware Python simulator (`cmiosimulator.py`) against the specification, every
closure: same registers, memory, PC, IFF, IM, HALT and port traffic as the specification's step,
its clock never behind — all of F but bits 5 and 3 (which after BIT n,(HL) it takes from MEMPTR).
`CfgOk`: the frame layout both machine configurations have (C19). -/
theorem cmio_refines_spec {μ : Type} [MemLike μ] [CellMem μ] [AdjMem μ] (cfg : Cfg) (s : St μ) (hi : RInv s)
    (hcfg : CmioVsSim.CfgOk cfg) : CmioVsSim.SameModF53 (Spec.step cfg s) (Cmio.step cfg s) := by
  rw [← step_refines cfg s hi]
  exact CmioVsSim.sameModF53_step cfg s hi.regs hcfg

/-- … and exactly the specification's F as well, for every instruction but BIT n,(HL). -/
theorem cmio_refines_spec_flags {μ : Type} [MemLike μ] [CellMem μ] [AdjMem μ] (cfg : Cfg) (s : St μ) (hi : RInv s)
    (hcfg : CmioVsSim.CfgOk cfg) (hb : CmioVsSim.isBitHl (Sim.leafOf s) = false) :
    CmioVsSim.SameButClock (Spec.step cfg s) (Cmio.step cfg s) := by
  rw [← step_refines cfg s hi]
  exact CmioVsSim.same_step cfg s hb hi.regs hcfg

/-- The seven dispatch tables of `c/csimulator.c` hold, slot by slot, the closure calls the
independent decoder demands (they equal the Python tables, C06). -/
theorem c_dispatch_ok (t : Sim.OpTbl) (op : Nat) (h : op < 256)
    (hl : isLeaf ((cArr t).getD op (.prefix_ .MAIN)) = true) :
    ∃ d, zinstrOf ((cArr t).getD op (.prefix_ .MAIN)) = some d ∧
      canonD d = canonD (Decoded.of (decode (pfxOf t) op)) := by
  rw [cArr_eq] at hl ⊢
  exact regular_of_leaf t op h hl

/-! ### examples: the statements are about concrete, non-trivial things -/

-- the decoder on documented and undocumented opcodes
example : decode .MAIN 0x09 = .add16 .HL .BC := by decide
example : decode .DD 0x09 = .add16 .IX .BC := by decide
example : decode .DD 0x29 = .add16 .IX .IX := by decide
example : decode .DD 0x66 = .ld8 (.reg .H) (.idx .IX) := by decide        -- H stays H next to (IX+d)
example : decode .DD 0x65 = .ld8 (.reg .IXh) (.reg .IXl) := by decide     -- undocumented halves
example : decode .DD 0x00 = .prefixNop := by decide
example : decode .DD 0xEB = .prefixNop := by decide                        -- EX DE,HL is not indexable
example : decode .CB 0x36 = .rot .SLL (.ind .HL) none := by decide         -- SLL
example : decode .DDCB 0x30 = .rot .SLL (.idx .IX) (some .B) := by decide  -- DDCB register copy
example : decode .FDCB 0x46 = .bit 0 (.idx .IY) := by decide
example : decode .ED 0x70 = .inC none := by decide
example : decode .ED 0x71 = .outC none := by decide
example : decode .ED 0x54 = .neg := by decide                              -- ED duplicate
example : decode .ED 0x00 = .edNop := by decide
example : decode .ED 0xB0 = .block .LD false true := by decide
-- length / T-states (both branches) / M1 count
example : Decoded.of (decode .MAIN 0x20) = ⟨.jr (some .NZ), 2, 7, 12, 1⟩ := by decide
example : Decoded.of (decode .MAIN 0xCC) = ⟨.call (some .Z), 3, 10, 17, 1⟩ := by decide
example : Decoded.of (decode .DD 0x36) = ⟨.ld8 (.idx .IX) .imm, 4, 19, 19, 2⟩ := by decide
example : Decoded.of (decode .FDCB 0xFE) = ⟨.set 7 (.idx .IY) none, 4, 23, 23, 2⟩ := by decide
example : Decoded.of (decode .ED 0xB1) = ⟨.block .CP false true, 2, 16, 21, 2⟩ := by decide
-- a dispatch row and what it denotes
example : Sim.tbl_MAIN[0x09]! = .add_rr .R1 11 1 6 7 2 3 := by decide +kernel
example : zinstrOf (.add_rr .R1 11 1 6 7 2 3) = some ⟨.add16 .HL .BC, 1, 11, 11, 1⟩ := by decide +kernel
example : zinstrOf (.call 64 64) = some ⟨.call (some .NZ), 3, 10, 17, 1⟩ := by decide +kernel
example : zinstrOf (.af_r .R1 4 1 .DEC 2) = none := by decide +kernel        -- a meaningless argument tuple
-- the hypotheses of the main theorem are satisfiable: `exState` (Proofs/SemCorollaries) is a concrete in-range
-- state executing ADD A,B (A = 0x7F, B = 1), `exState_inv : RInv exState`
example : leafOf exState = .af_r .R1 4 1 .ADD 2 := by decide +kernel
-- ADD A,B with A = 0x7F, B = 1: A = 0x80, F = S·H·V (0x94), R 0x7F -> 0x00 (bit 7 kept), PC 1, T 4
example : ((Spec.step {} exState).reg.toList.take 3, (Spec.step {} exState).reg[15]!, (Spec.step {} exState).pc,
    (Spec.step {} exState).t) = ([0x80, 0x94, 1], 0, 1, 4) := by decide +kernel
example : Sim.step {} exState = Spec.step {} exState := sim_refines_spec {} exState exState_inv
example : CmioVsSim.isBitHl (leafOf exState) = false := by decide +kernel
example : CmioVsSim.CfgOk {} := by decide
example : CSim.tbl_DDCB[0x06]! = .f_xy .RLC 8 9 (-1) := by decide +kernel
-- an instruction with inline 16-bit flag arithmetic: ADC HL,DE decodes from ED 5A
example : decode .ED 0x5A = .adc16 .DE := by decide
example : zinstrOf (.adc_hl 4 5) = some ⟨.adc16 .DE, 2, 15, 15, 2⟩ := by decide +kernel
-- 0x7FFF + 0x0001 + carry: result 0x8001, S and V set, H set (carry out of bit 11), N C clear
example : Z80Spec.adc16 1 0x7FFF 0x0001 = (0x8001, 0x94) := by decide

end C05
