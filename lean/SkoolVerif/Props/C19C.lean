import SkoolVerif.Props.C19
import SkoolVerif.Props.C06
/-!
C19 for the C simulators — the contended C handler bodies (translated from `c/csimulator.c` with
`-DCONTENTION` on every run, see C06) add exactly the delay of the independent bus-cycle specification
to the plain C handlers: corollaries of C06's `c_step_eq_python` / `c_cmio_step_eq_python` and C19's
`delay_equals_pattern_skoolkit_otir` / `delay_equals_documented_pattern`.  Property theorems only.
-/
namespace C19
open Z80 Contend CmioVsSim Z80Bus C19Bus Spec Z80Decode
variable {μ : Type} [MemLike μ] [CellMem μ] [PageStable μ]

/-- contended C step = plain C step + the specification's delay (as-implemented OTIR/OTDR variant), inside the window -/
theorem c_delay_equals_pattern (cfg : Cfg) (s : St μ) (hi : RInv s) (hrep : CRep cfg s)
    (hout : CSimH.OutOk cfg s) (houtc : CCmioH.OutOk cfg s)
    (hw : cfg.t0 < s.t % cfg.frame_duration ∧ s.t % cfg.frame_duration < cfg.t1) :
    (CCmioH.step cfg s).t = (CSimH.step cfg s).t +
      busDelay .skoolkit cfg s (decode (fetch s).1 (fetch s).2.toNat) := by
  rw [C06.c_cmio_step_eq_python cfg s hi hrep houtc, C06.c_step_eq_python cfg s hi hrep hout]
  exact delay_equals_pattern_skoolkit_otir cfg s hi hw

/-- … and the documented pattern for every instruction but a repeating OTIR/OTDR whose BC changes contention class -/
theorem c_delay_equals_documented_pattern (cfg : Cfg) (s : St μ) (hi : RInv s) (hrep : CRep cfg s)
    (hout : CSimH.OutOk cfg s) (houtc : CCmioH.OutOk cfg s)
    (hw : cfg.t0 < s.t % cfg.frame_duration ∧ s.t % cfg.frame_duration < cfg.t1)
    (hot : otirRepeats s (decode (fetch s).1 (fetch s).2.toNat) = false ∨
      contended s.mem (addrVal s .bcOut) = contended s.mem (addrVal s (.rp .BC))) :
    (CCmioH.step cfg s).t = (CSimH.step cfg s).t +
      busDelay .documented cfg s (decode (fetch s).1 (fetch s).2.toNat) := by
  rw [C06.c_cmio_step_eq_python cfg s hi hrep houtc, C06.c_step_eq_python cfg s hi hrep hout]
  exact delay_equals_documented_pattern cfg s hi hw hot

end C19
