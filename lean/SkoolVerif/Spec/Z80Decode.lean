import SkoolVerif.Spec.Z80Isa
/-!
Algorithmic decoding of Z80 opcodes, for the seven prefix contexts (none, CB, ED, DD, FD, DD CB,
FD CB), following the bit-field decomposition of the opcode byte

    x = op[7:6]   y = op[5:3]   z = op[2:0]   p = y[2:1]   q = y[0]

and the operand tables `r[·]`, `rp[·]`, `rp2[·]`, `cc[·]`, `alu[·]`, `rot[·]`, `im[·]`, as in the
Z80 CPU User Manual's opcode maps and "The Undocumented Z80 Documented" (ED duplicates NEG / RETN /
IM, ED NOPs, SLL, IXh/IXl substitution, DDCB register copies, `DD`/`FD` before an opcode that does
not use HL = a 4-T one-byte NOP).  Written from that documentation, not from `simulator.py`.
Core Lean only.
-/
namespace Z80Decode
open Z80Isa

/-- prefix context of an opcode byte -/
inductive Pfx where
  | MAIN | CB | ED | DD | FD | DDCB | FDCB
  deriving DecidableEq, Repr, Inhabited

/-! ### operand tables -/

/-- `r[z]`: B C D E H L (HL) A -/
def tabR (i : Nat) : Loc8 :=
  match i with
  | 0 => .reg .B | 1 => .reg .C | 2 => .reg .D | 3 => .reg .E | 4 => .reg .H | 5 => .reg .L
  | 6 => .ind .HL | _ => .reg .A

/-- `rp[p]`: BC DE HL SP -/
def tabRP (p : Nat) : Reg16 :=
  match p with
  | 0 => .BC | 1 => .DE | 2 => .HL | _ => .SP

/-- `rp2[p]`: BC DE HL AF -/
def tabRP2 (p : Nat) : Reg16 :=
  match p with
  | 0 => .BC | 1 => .DE | 2 => .HL | _ => .AF

/-- `cc[y]`: NZ Z NC C PO PE P M -/
def tabCC (y : Nat) : Cond :=
  match y with
  | 0 => .NZ | 1 => .Z | 2 => .NC | 3 => .C | 4 => .PO | 5 => .PE | 6 => .P | _ => .M

/-- `alu[y]`: ADD ADC SUB SBC AND XOR OR CP -/
def tabALU (y : Nat) : AluOp :=
  match y with
  | 0 => .ADD | 1 => .ADC | 2 => .SUB | 3 => .SBC | 4 => .AND | 5 => .XOR | 6 => .OR | _ => .CP

/-- `rot[y]`: RLC RRC RL RR SLA SRA SLL SRL -/
def tabROT (y : Nat) : RotOp :=
  match y with
  | 0 => .RLC | 1 => .RRC | 2 => .RL | 3 => .RR | 4 => .SLA | 5 => .SRA | 6 => .SLL | _ => .SRL

/-- `x=0, z=7`: RLCA RRCA RLA RRA DAA CPL SCF CCF -/
def tabACC (y : Nat) : AccOp :=
  match y with
  | 0 => .RLCA | 1 => .RRCA | 2 => .RLA | 3 => .RRA | 4 => .DAA | 5 => .CPL | 6 => .SCF | _ => .CCF

/-- `im[y]`: 0 0 1 2 0 0 1 2 (the two "IM 0/1" slots select mode 0) -/
def tabIM (y : Nat) : Nat :=
  match y with
  | 0 => 0 | 1 => 0 | 2 => 1 | 3 => 2 | 4 => 0 | 5 => 0 | 6 => 1 | _ => 2

/-- register named by an `r[·]` entry (none for `(HL)`) -/
def regOfLoc : Loc8 → Option Reg8
  | .reg r => some r
  | _ => none

/-! ### unprefixed opcodes -/

def decodeMain (op : Nat) : ZInstr :=
  let x := op / 64
  let y := (op / 8) % 8
  let z := op % 8
  let p := y / 2
  let q := y % 2
  if x = 0 then
    if z = 0 then
      if y = 0 then .nop
      else if y = 1 then .exAF
      else if y = 2 then .djnz
      else if y = 3 then .jr none
      else .jr (some (tabCC (y - 4)))
    else if z = 1 then
      if q = 0 then .ld16imm (tabRP p) else .add16 .HL (tabRP p)
    else if z = 2 then
      if q = 0 then
        if p = 0 then .ld8 (.ind .BC) (.reg .A)
        else if p = 1 then .ld8 (.ind .DE) (.reg .A)
        else if p = 2 then .ld16store .HL false
        else .ld8 .abs (.reg .A)
      else
        if p = 0 then .ld8 (.reg .A) (.ind .BC)
        else if p = 1 then .ld8 (.reg .A) (.ind .DE)
        else if p = 2 then .ld16load .HL false
        else .ld8 (.reg .A) .abs
    else if z = 3 then
      if q = 0 then .inc16 (tabRP p) else .dec16 (tabRP p)
    else if z = 4 then .inc8 (tabR y)
    else if z = 5 then .dec8 (tabR y)
    else if z = 6 then .ld8 (tabR y) .imm
    else .acc (tabACC y)
  else if x = 1 then
    if y = 6 ∧ z = 6 then .halt else .ld8 (tabR y) (tabR z)
  else if x = 2 then .alu8 (tabALU y) (tabR z)
  else
    if z = 0 then .ret (some (tabCC y))
    else if z = 1 then
      if q = 0 then .pop (tabRP2 p)
      else if p = 0 then .ret none
      else if p = 1 then .exx
      else if p = 2 then .jpReg .HL
      else .ldSP .HL
    else if z = 2 then .jp (some (tabCC y))
    else if z = 3 then
      if y = 0 then .jp none
      else if y = 1 then .nop         -- CB prefix: never decoded in this context
      else if y = 2 then .outA
      else if y = 3 then .inA
      else if y = 4 then .exSP .HL
      else if y = 5 then .exDEHL
      else if y = 6 then .di
      else .ei
    else if z = 4 then .call (some (tabCC y))
    else if z = 5 then
      if q = 0 then .push (tabRP2 p)
      else if p = 0 then .call none
      else .nop                       -- DD / ED / FD prefixes: never decoded in this context
    else if z = 6 then .alu8 (tabALU y) .imm
    else .rst (y * 8)

/-! ### CB page -/

def decodeCB (op : Nat) : ZInstr :=
  let x := op / 64
  let y := (op / 8) % 8
  let z := op % 8
  if x = 0 then .rot (tabROT y) (tabR z) none
  else if x = 1 then .bit y (tabR z)
  else if x = 2 then .res y (tabR z) none
  else .set y (tabR z) none

/-! ### ED page -/

def decodeED (op : Nat) : ZInstr :=
  let x := op / 64
  let y := (op / 8) % 8
  let z := op % 8
  let p := y / 2
  let q := y % 2
  if x = 1 then
    if z = 0 then .inC (if y = 6 then none else regOfLoc (tabR y))
    else if z = 1 then .outC (if y = 6 then none else regOfLoc (tabR y))
    else if z = 2 then (if q = 0 then .sbc16 (tabRP p) else .adc16 (tabRP p))
    else if z = 3 then (if q = 0 then .ld16store (tabRP p) true else .ld16load (tabRP p) true)
    else if z = 4 then .neg
    else if z = 5 then (if y = 1 then .reti else .retn)
    else if z = 6 then .im (tabIM y)
    else
      if y = 0 then .ld8 (.reg .I) (.reg .A)
      else if y = 1 then .ld8 (.reg .R) (.reg .A)
      else if y = 2 then .ldAIR .I
      else if y = 3 then .ldAIR .R
      else if y = 4 then .rrd
      else if y = 5 then .rld
      else .edNop
  else if x = 2 ∧ z ≤ 3 ∧ y ≥ 4 then
    -- bli[y,z]: y = 4 I, 5 D, 6 IR, 7 DR; z = 0 LD, 1 CP, 2 IN, 3 OUT
    let kind := if z = 0 then BlockKind.LD else if z = 1 then .CP else if z = 2 then .IN else .OUT
    .block kind (y % 2 = 1) (y ≥ 6)
  else .edNop

/-! ### DD / FD: index-register substitution -/

/-- the index register's halves -/
def hiOf (i : Reg16) : Reg8 := if i = .IX then .IXh else .IYh
def loOf (i : Reg16) : Reg8 := if i = .IX then .IXl else .IYl

/-- H → IXh, L → IXl -/
def substR8 (i : Reg16) : Reg8 → Reg8
  | .H => hiOf i
  | .L => loOf i
  | r => r

/-- HL → IX -/
def substR16 (i : Reg16) : Reg16 → Reg16
  | .HL => i
  | rp => rp

def namesHL : Loc8 → Bool
  | .reg .H | .reg .L | .ind .HL => true
  | _ => false

def isIndHL : Loc8 → Bool
  | .ind .HL => true
  | _ => false

/-- substitution in one operand when the instruction has no `(HL)` operand -/
def substLocReg (i : Reg16) : Loc8 → Loc8
  | .reg r => .reg (substR8 i r)
  | l => l

/-- `(HL)` → `(IX+d)`; registers are left alone (an instruction with an `(IX+d)` operand keeps
its plain H and L, e.g. `LD H,(IX+d)`) -/
def substLocMem (i : Reg16) : Loc8 → Loc8
  | .ind .HL => .idx i
  | l => l

/-- The instruction `DD`/`FD` turns `m` into, or `none` when `m` does not involve HL, H, L or
`(HL)` (then the prefix has no effect on `m`).  `EX DE,HL`, `EXX` and the ED page are never
affected; of `ADD HL,rp` both HLs are replaced; `JP (HL)` becomes `JP (IX)`, without
displacement. -/
def substIdx (i : Reg16) (m : ZInstr) : Option ZInstr :=
  match m with
  | .ld8 d s =>
    if isIndHL d || isIndHL s then some (.ld8 (substLocMem i d) (substLocMem i s))
    else if namesHL d || namesHL s then some (.ld8 (substLocReg i d) (substLocReg i s))
    else none
  | .alu8 op l =>
    if isIndHL l then some (.alu8 op (.idx i))
    else if namesHL l then some (.alu8 op (substLocReg i l)) else none
  | .inc8 l =>
    if isIndHL l then some (.inc8 (.idx i))
    else if namesHL l then some (.inc8 (substLocReg i l)) else none
  | .dec8 l =>
    if isIndHL l then some (.dec8 (.idx i))
    else if namesHL l then some (.dec8 (substLocReg i l)) else none
  | .ld16imm .HL => some (.ld16imm i)
  | .ld16load .HL false => some (.ld16load i false)
  | .ld16store .HL false => some (.ld16store i false)
  | .ldSP .HL => some (.ldSP i)
  | .push .HL => some (.push i)
  | .pop .HL => some (.pop i)
  | .exSP .HL => some (.exSP i)
  | .add16 .HL s => some (.add16 i (substR16 i s))
  | .inc16 .HL => some (.inc16 i)
  | .dec16 .HL => some (.dec16 i)
  | .jpReg .HL => some (.jpReg i)
  | _ => none

/-- opcode byte after `DD` (`i = IX`) / `FD` (`i = IY`) -/
def decodeIdx (i : Reg16) (op : Nat) : ZInstr :=
  match substIdx i (decodeMain op) with
  | some m => m
  | none => .prefixNop

/-! ### DD CB d op / FD CB d op -/

def decodeIdxCB (i : Reg16) (op : Nat) : ZInstr :=
  let x := op / 64
  let y := (op / 8) % 8
  let z := op % 8
  let copy := if z = 6 then none else regOfLoc (tabR z)
  if x = 0 then .rot (tabROT y) (.idx i) copy
  else if x = 1 then .bit y (.idx i)
  else if x = 2 then .res y (.idx i) copy
  else .set y (.idx i) copy

def decode (pfx : Pfx) (op : Nat) : ZInstr :=
  match pfx with
  | .MAIN => decodeMain op
  | .CB => decodeCB op
  | .ED => decodeED op
  | .DD => decodeIdx .IX op
  | .FD => decodeIdx .IY op
  | .DDCB => decodeIdxCB .IX op
  | .FDCB => decodeIdxCB .IY op

end Z80Decode
