import SkoolVerif.Model.Wrap
/-!
Declarative specification of word wrapping, written without reference to the
algorithm: a list of lines is *the* greedy wrap of a word list at width `w` iff

* the lines, concatenated, are the words (every word once, in order);
* no line is empty;
* a line fits in `w` columns (words joined by single spaces) unless it consists
  of a single word;
* every line is maximal: the first word of the next line would not have fitted.

`C18.greedy_unique` shows that these four clauses determine the lines.
-/
namespace WrapSpec
open Wrap

/-- The first word of `l2` would still fit at the end of `l1`. -/
def NextFits (w : Nat) (l1 l2 : List Word) : Prop :=
  match l2 with
  | [] => False
  | x :: _ => lineLen l1 + 1 + x.length ≤ w

def Maximal (w : Nat) : List (List Word) → Prop
  | [] => True
  | [_] => True
  | l1 :: l2 :: rest => ¬ NextFits w l1 l2 ∧ Maximal w (l2 :: rest)

def IsGreedyWrap (w : Nat) (ws : List Word) (lines : List (List Word)) : Prop :=
  lines.flatten = ws ∧ (∀ l ∈ lines, l ≠ []) ∧
  (∀ l ∈ lines, lineLen l ≤ w ∨ l.length = 1) ∧ Maximal w lines

end WrapSpec
