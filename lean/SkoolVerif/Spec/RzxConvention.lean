import SkoolVerif.Prelude.Machine
/-!
Independent specification for C20: the RZX end-of-frame convention as `rzxplay.py --flags help`
describes it, over the Z80's maskable-interrupt acknowledge.  Written from the documentation (and the
Z80 manual for the acknowledge cycle), not from `process_block` / `accept_interrupt`.
Core Lean + Prelude only.
-/
namespace Rzx.Spec
open Z80
variable {μ : Type} [MemLike μ]

/-- What the last instruction of a frame was. -/
inductive LastInstr | halt | ldAIR | ei | other
  deriving DecidableEq, Repr

/-- Interrupt acknowledge with 0xFF on the data bus: IM 0/1 execute RST 38 (13 T-states), IM 2 jumps
through the vector at `I * 256 + 255` (19 T-states); PC is pushed (ROM is not writable), R is
incremented (7-bit), IFF is reset, the CPU leaves the HALT state; MEMPTR (where it is simulated)
becomes the address jumped to. -/
def acknowledge (memptrSimulated : Bool) (s : St μ) : St μ :=
  let target := if s.im = 2 then
      mget s.mem (255 + 256 * rget s.reg 14) + 256 * mget s.mem ((255 + 256 * rget s.reg 14 + 1) % 65536)
    else 56
  let sp1 := (rget s.reg 12 - 1) % 65536
  let sp2 := (rget s.reg 12 - 2) % 65536
  let mem := if sp2 > 0x3FFF then mset s.mem sp2 (s.pc % 256) else s.mem
  let mem := if sp1 > 0x3FFF then mset mem sp1 (s.pc / 256) else mem
  let r := rget s.reg 15
  { s with reg := rset (rset s.reg 12 sp2) 15 (PyInt.land r 128 + (r + 1) % 128), mem := mem, pc := target,
           t := s.t + (if s.im = 2 then 19 else 13), iff := 0, halt := 0,
           memptr := if memptrSimulated then target else s.memptr }

/-- "rzxplay.py accepts an interrupt at the start of every frame except the first, regardless of
whether the instruction just executed would normally block it" - with the frame's clock restarted -
and the three refinements: a halted CPU resumes after the HALT; flag 1: LD A,I / LD A,R interrupted
resets P/V; flag 2: EI followed by a short frame (fetch count 1 or 2 - or no further frame) blocks it. -/
def frameEnd (memptrSimulated flag1 flag2 : Bool) (last : LastInstr) (nextShort : Bool) (s : St μ) : St μ :=
  let s : St μ := { s with t := 0 }
  if s.iff = 0 then s
  else match last with
    | .halt => acknowledge memptrSimulated { s with pc := (s.pc + 1) % 65536 }
    | .ldAIR => if flag1 then acknowledge memptrSimulated { s with reg := rset s.reg 1 (PyInt.land (rget s.reg 1) 251) }
                else acknowledge memptrSimulated s
    | .ei => if flag2 && nextShort then s else acknowledge memptrSimulated s
    | .other => acknowledge memptrSimulated s

end Rzx.Spec
