/-
Independent statement of the ZX Spectrum display rules that an image must
follow, written from the hardware description (one attribute byte per 8x8
cell: bits 0-2 INK, 3-5 PAPER, 6 BRIGHT, 7 FLASH; a set bit shows INK) and
from SkoolKit's documentation of masks (skool-macros.rst, "Masks") -- not from
the image code.  Core Lean only.
-/
namespace ZxSpec

/-- What a pixel shows. -/
inductive Pix | paper | ink | trans
  deriving DecidableEq, Repr

/-- Documented truth tables.  `u` = UDG bit, `m` = mask bit.
OR-AND (1):  00 paper, 01 transparent, 10 paper, 11 ink.
AND-OR (2):  00 paper, 01 transparent, 10 ink,   11 ink.
No mask (0): ink where the bit is set, paper otherwise. -/
def rule (maskType : Nat) (u m : Bool) : Pix :=
  if maskType = 1 then
    match u, m with
    | false, false => .paper
    | false, true => .trans
    | true, false => .paper
    | true, true => .ink
  else if maskType = 2 then
    match u, m with
    | false, false => .paper
    | false, true => .trans
    | true, _ => .ink
  else
    if u then .ink else .paper

def Pix.pick {α : Type} (p : Pix) (paper ink trans : α) : α :=
  match p with
  | .paper => paper
  | .ink => ink
  | .trans => trans

/-- Bit of column `c` (0 = leftmost pixel) of a display byte. -/
def colBit (byte c : Nat) : Bool := byte.testBit (7 - c)

/-- A picture: attribute, graphic bit and optional mask bit of every unscaled
pixel `(X, Y)` (`X` to the right, `Y` downwards). -/
structure Picture where
  attr : Nat → Nat → Nat
  bit : Nat → Nat → Bool
  mbit : Nat → Nat → Option Bool

/-- The display rule for one pixel, as a choice between paper / ink /
transparent.  A cell without mask data is shown unmasked. -/
def Picture.pix (p : Picture) (maskType X Y : Nat) : Pix :=
  match p.mbit X Y with
  | some m => rule maskType (p.bit X Y) m
  | none => rule 0 (p.bit X Y) false

/-- INK and PAPER colour numbers 0..7 and BRIGHT of an attribute byte. -/
def inkOf (attr : Nat) : Nat := attr % 8
def paperOf (attr : Nat) : Nat := attr / 8 % 8
def brightOf (attr : Nat) : Bool := attr / 64 % 2 = 1
def flashOf (attr : Nat) : Bool := attr / 128 % 2 = 1

/-- SkoolKit palette slot (skool-macros.rst "Palette": 0 transparent, 1 black,
2..8 blue..white, 9..15 bright blue..white; bright black is black). -/
def slot (colour : Nat) (bright : Bool) : Nat :=
  if colour = 0 then 1 else if bright then 8 + colour else 1 + colour

/-- The scaled, cropped image: pixel `(x, y)` of an image cropped at
`(x0, y0)` shows source pixel `((x0+x)/scale, (y0+y)/scale)`. -/
def imagePix (p : Picture) (maskType scale x0 y0 x y : Nat) : Pix :=
  p.pix maskType ((x0 + x) / scale) ((y0 + y) / scale)

/-- Pixel `x` of a packed PNG scanline (after the filter byte) at bit depth
`bd ∈ {1,2,4}`: PNG §7.2, leftmost pixel in the high-order bits. -/
def unpackPixel (bd : Nat) (line : List Nat) (x : Nat) : Nat :=
  let per := 8 / bd
  (line.getD (x / per) 0 / 2 ^ (bd * (per - 1 - x % per))) % 2 ^ bd

end ZxSpec
