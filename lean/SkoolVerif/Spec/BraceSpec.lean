/-!
The documented rule for instruction comments delimited by braces
(sphinx/source/skool-files.rst, "Braces in comments"), as arithmetic on brace
balances (number of `{` minus number of `}`):

  "The comment terminates on the line where the total number of closing braces
   in the comment becomes equal to or greater than the total number of opening
   braces."

A comment group is described by the balances of the text carried by each of
its instructions; `open` extra opening braces are put in front and `close`
closing braces at the end.
-/
namespace BraceSpec

/-- Further instructions consumed while the running balance stays positive. -/
def spanLen : Int → List Int → Nat
  | _, [] => 0
  | n, d :: r => if n > 0 then 1 + spanLen (n + d) r else 0

/-- Instructions spanned by a comment that starts with `k` opening braces:
`ds` = balances of the texts on the successive instructions (the text of the
last instruction of the intended group already includes the closing braces). -/
def spanAll (k : Int) : List Int → Nat
  | [] => 0
  | d :: r => 1 + spanLen (k + d) r

/-- The running balance stays positive after each of the given instructions. -/
def AllPos : Int → List Int → Prop
  | _, [] => True
  | acc, d :: r => acc + d > 0 ∧ AllPos (acc + d) r

/-- The lowest running balance over the non-empty prefixes (capped by `worst`). -/
def worstFrom (cur worst : Int) : List Int → Int
  | [] => worst
  | d :: r => worstFrom (cur + d) (min worst (cur + d)) r

/-- Opening braces needed so that the comment does not terminate before its
last instruction: `init` = balances of the texts of all instructions but the last. -/
def docOpen (init : List Int) : Int := max 1 (1 - worstFrom 0 0 init)

/-- Closing braces needed to terminate the comment on its last instruction. -/
def docClose (init : List Int) (last : Int) : Int := max 1 (docOpen init + init.sum + last)

/-- What sna2skool uses instead (`snaskool.py`: `'{' * (1 - balance)` if the
overall balance is negative, else one brace; `'}' * max(1 + balance, 1)`). -/
def snaOpen (total : Int) : Int := if total < 0 then 1 - total else 1
def snaClose (total : Int) : Int := max (1 + total) 1

end BraceSpec
