import SkoolVerif.Model.AsmLayout
/-
Reference semantics of a skool file's instruction layout in a given substitution mode (C04),
written from the documentation of the `@*sub` / `@*fix` directives (sphinx/source/asm.rst: "`>`
inserted before", "`+` inserted after", "`|` overwrites any overlapping instructions instead of
pushing them aside", "`!addr1-addr2` removes", "`@org` … works only on the first instruction in an
entry") — not from either implementation.  It shares only the input types with the models.

The reference is *partial*: `specLayout` is `none` outside the documented usage, i.e. it doubles as
the well-formedness predicate under which the two implementations are proved to agree:

* an `@org` directive must come before the first instruction of its entry, and the line after it
  must not be a removed one;
* a line that is removed (by `!` or by a preceding `|` instruction) carries no directives of its own
  and is not the very first line of the file;
* every operation that is placed can be assembled (`size op > 0`);
* in a directive chain, a `|` instruction may only follow `|` instructions (its position in the
  original address space must be known), the line must then have an address, and the 2nd and later
  `|` instructions do not land on an address that was removed earlier;
* an address (from `@org`, or inherited) is known for every placed instruction.
-/
namespace AsmLayout.Spec
open AsmLayout

/-- Place a chain of instructions one after the other from `pc`.  `cursor` is the position in the
ORIGINAL address space (known while every instruction so far overwrote); an overwriting
instruction of size n at original position c removes the original addresses c … c+n-1. -/
def specChain {Op : Type} (size : Op → Nat) : Nat → Option Nat → Bool → List Nat → List (Nat × Op) →
    List (Bool × Op) → Option (Nat × List Nat × List (Nat × Op))
  | pc, _, _, removed, out, [] => some (pc, removed, out)
  | pc, cur, first, removed, out, (ow, op) :: r =>
    if size op = 0 then none
    else if ow then
      match cur with
      | none => none
      | some c =>
        if !first && removed.contains c then none
        else specChain size (pc + size op) (some (c + size op)) false (removed ++ rangeL c (size op))
               (out ++ [(pc, op)]) r
    else specChain size (pc + size op) none false removed (out ++ [(pc, op)]) r

/-- The instruction that stands for the line itself: the first directive without `>` replaces it
unless that directive is marked `+`. -/
def curOf {Op : Type} (orig : Option Op) (others : List (SubDir Op)) : Bool × Option Op :=
  match others with
  | [] => (false, orig)
  | s :: _ => if s.flags.append then (false, orig) else (s.flags.overwrite, if s.op.isSome then s.op else orig)

/-- The directives that add instructions after it. -/
def restOf {Op : Type} (others : List (SubDir Op)) : List (Bool × Op) :=
  let subs := match others with
    | [] => []
    | s :: r => if s.flags.append then s :: r else r
  subs.filterMap (fun s => s.op.map (fun o => (s.flags.overwrite, o)))

/-- A line that is not removed, placed from `pc`: inserted-before instructions, the line's own
(possibly replaced) instruction, inserted-after instructions.  Returns the next address, the
removed set, the placed instructions and the address of the line's own instruction. -/
def specLine {Op : Type} (size : Op → Nat) (pc : Nat) (removed : List Nat) (out : List (Nat × Op)) (l : Line Op) :
    Option (Nat × List Nat × List (Nat × Op) × Nat) :=
  let pre := l.subs.filter (fun s => s.flags.prepend)
  let others := l.subs.filter (fun s => !s.flags.prepend)
  match specChain size pc none false removed out ((pre.filterMap (·.op)).map (fun o => (false, o))) with
  | none => none
  | some (pc1, removed1, out1) =>
    let cur := curOf l.op others
    let r := match cur.2 with
      | some o => specChain size pc1 l.sa true removed1 out1 ((cur.1, o) :: restOf others)
      | none => specChain size pc1 none false removed1 out1 (restOf others)
    match r with
    | none => none
    | some (pc2, removed2, out2) => some (pc2, removed2, out2, pc1)

/-- Where the next instruction goes: a pending `@org=v` gives v, a pending bare `@org` the line's
own address, otherwise placement continues. -/
def startPc (porg : MOrg) (pc : Option Nat) (sa : Option Nat) : Option Nat :=
  match porg with
  | .unset => pc
  | .bare => sa
  | .val v => some v

structure St (Op : Type) where
  pc : Option Nat
  out : List (Nat × Op)
  /-- original address ↦ new address of every line's own instruction -/
  amap : List (Nat × Nat)
  removed : List Nat
  /-- the entry being read already has an instruction -/
  started : Bool
  /-- an `@org` directive waits for the next instruction -/
  porg : MOrg

def specItem {Op : Type} (size : Op → Nat) (st : St Op) : Item Op → Option (St Op)
  | .org v => if st.started then none
              else some { st with porg := match v with | none => .bare | some x => .val x }
  | .remove lo hi => some { st with removed := st.removed ++ rangeL lo (hi + 1 - lo) }
  | .line l =>
    let gone := isRemoved st.removed l.sa
    if gone then
      if l.subs.isEmpty && st.porg == .unset && st.pc.isSome then some st else none
    else
      match startPc st.porg st.pc l.sa with
      | none => none
      | some a =>
        match specLine size a st.removed st.out l with
        | none => none
        | some (pc', removed', out', a1) =>
          some { pc := some pc', out := out', amap := setdefault st.amap l.sa a1,
                 removed := removed', started := true, porg := .unset }

def specItems {Op : Type} (size : Op → Nat) : St Op → List (Item Op) → Option (St Op)
  | st, [] => some st
  | st, i :: is =>
    match specItem size st i with
    | none => none
    | some st' => specItems size st' is

/-- A new entry: nothing is removed, no instruction yet. -/
def specBlocks {Op : Type} (size : Op → Nat) : St Op → List (Block Op) → Option (St Op)
  | st, [] => some st
  | st, b :: bs =>
    match specItems size { st with removed := [], started := false } b with
    | none => none
    | some st' => specBlocks size st' bs

def init (Op : Type) : St Op := { pc := none, out := [], amap := [], removed := [], started := false, porg := .unset }

/-- The reference layout: every placed instruction with its address, or `none` when the file is
outside the documented usage described above. -/
def specLayout {Op : Type} (size : Op → Nat) (bs : List (Block Op)) : Option (List (Nat × Op)) :=
  (specBlocks size (init Op) bs).map (·.out)

/-! ### files whose layout is the one written in the skool file -/

/-- A line of a fixed-layout file: it has an address and at most one directive, which replaces
(or overwrites with) an instruction — nothing is inserted before or after it. -/
def plainLine {Op : Type} (l : Line Op) : Bool :=
  l.sa.isSome && decide (l.subs.length ≤ 1) && l.subs.all (fun s => !s.flags.prepend && !s.flags.append)

/-- `specItem` restricted to fixed layouts: every line that is not removed is plain and is placed
at the address written in its address field. -/
def specItemFixed {Op : Type} (size : Op → Nat) (st : St Op) (i : Item Op) : Option (St Op) :=
  match i with
  | .line l =>
    if isRemoved st.removed l.sa || (plainLine l && startPc st.porg st.pc l.sa == l.sa) then specItem size st i
    else none
  | _ => specItem size st i

def specItemsFixed {Op : Type} (size : Op → Nat) : St Op → List (Item Op) → Option (St Op)
  | st, [] => some st
  | st, i :: is =>
    match specItemFixed size st i with
    | none => none
    | some st' => specItemsFixed size st' is

def specBlocksFixed {Op : Type} (size : Op → Nat) : St Op → List (Block Op) → Option (St Op)
  | st, [] => some st
  | st, b :: bs =>
    match specItemsFixed size { st with removed := [], started := false } b with
    | none => none
    | some st' => specBlocksFixed size st' bs

/-- The reference layout of a fixed-layout file (`none` if the file is not one). -/
def specLayoutFixed {Op : Type} (size : Op → Nat) (bs : List (Block Op)) : Option (List (Nat × Op)) :=
  (specBlocksFixed size (init Op) bs).map (·.out)

/-- Memory after a sequence of pokes, for any encoding `enc op address` of operations into bytes. -/
def pokeMem {Op : Type} (enc : Op → Nat → List Nat) (mem : Nat → Nat) : List (Nat × Op) → Nat → Nat
  | [] => mem
  | (a, o) :: r => pokeMem enc (fun x => if a ≤ x ∧ x < a + (enc o a).length then (enc o a).getD (x - a) 0 else mem x) r

/-- The reference relocation map (original address ↦ new address). -/
def specAmap {Op : Type} (size : Op → Nat) (bs : List (Block Op)) : Option (List (Nat × Nat)) :=
  (specBlocks size (init Op) bs).map (·.amap)

end AsmLayout.Spec
