import SkoolVerif.Prelude.Machine
import SkoolVerif.Spec.Z80Decode
import SkoolVerif.Spec.Z80Alu16
/-!
Executable ISA-level semantics of the Z80 over the simulators' state type `St μ`:
`exec cfg d s` runs one decoded instruction; `step cfg s` fetches (following prefixes), decodes
(`Spec/Z80Decode`) and executes.  Flags come from the bit-level functions of `Spec/Z80Alu` /
`Spec/Z80Alu16`; everything else is `% 256` / `% 65536` arithmetic.  Written from the Z80
documentation, one clause per `ZInstr` constructor; no closure of `simulator.py` is mentioned.

Machine conventions (the Spectrum the simulators model, not the CPU):
* addresses 0x0000-0x3FFF are ROM: writes are ignored (`wr`);
* a 16-bit store writes the low byte, then the high byte (`wrPair`) — for two different cells
  the order cannot be observed;
* ports: if a device (tracer) is attached for that kind of access it supplies the next value of
  `ins`, otherwise the bus reads 255 (191 for the block input instructions); writes go to `outs`
  and to the memory's paging port;
* there is one interrupt flip-flop `iff` (IFF1 = IFF2, so RETN = RETI);
* HALT is executed as a 4-T step that stays on the HALT opcode until the maskable interrupt is
  about to be accepted (interrupts enabled and the clock inside the frame's INT window), and
  LD A,I / LD A,R report P/V = 0 in that same situation (the documented "interrupt during
  LD A,I" anomaly).

State layout (shared with the implementation, `skoolkit/simutils.py`): `reg` slots
0 A, 1 F, 2 B, 3 C, 4 D, 5 E, 6 H, 7 L, 8 IXh, 9 IXl, 10 IYh, 11 IYl, 12 SP (16 bits), 14 I, 15 R,
16-23 the shadow set A' F' B' C' D' E' H' L'.
Core Lean only.
-/
namespace Spec
open Z80 Z80Isa Z80Decode Z80Spec

variable {μ : Type} [MemLike μ]

/-- what the decoder hands to the execution unit -/
structure Decoded where
  instr : ZInstr
  /-- length in bytes -/
  size : Int
  /-- T-states (condition false / no repeat) -/
  t : Int
  /-- T-states (condition true / repeat) -/
  tAlt : Int
  /-- number of M1 cycles -/
  m1 : Int
  deriving DecidableEq, Repr, Inhabited

def Decoded.of (i : ZInstr) : Decoded :=
  ⟨i, Int.ofNat i.size, Int.ofNat i.time.1, Int.ofNat i.time.2, Int.ofNat i.m1⟩

/-! ### registers -/

def idx : Reg8 → Int
  | .A => 0 | .F => 1 | .B => 2 | .C => 3 | .D => 4 | .E => 5 | .H => 6 | .L => 7
  | .IXh => 8 | .IXl => 9 | .IYh => 10 | .IYl => 11 | .I => 14 | .R => 15

def r8 (s : St μ) (r : Reg8) : Int := rget s.reg (idx r)
def setR8 (s : St μ) (r : Reg8) (v : Int) : St μ := { s with reg := rset s.reg (idx r) v }

/-- high and low halves of a pair (unused for SP, which is one 16-bit slot) -/
def hiOfPair : Reg16 → Reg8
  | .BC => .B | .DE => .D | .HL => .H | .IX => .IXh | .IY => .IYh | .AF => .A | .SP => .A
def loOfPair : Reg16 → Reg8
  | .BC => .C | .DE => .E | .HL => .L | .IX => .IXl | .IY => .IYl | .AF => .F | .SP => .A

def sp (s : St μ) : Int := rget s.reg 12
def setSP (s : St μ) (v : Int) : St μ := { s with reg := rset s.reg 12 v }

def lo16 (s : St μ) (rp : Reg16) : Int := if rp = .SP then sp s % 256 else r8 s (loOfPair rp)
def hi16 (s : St μ) (rp : Reg16) : Int := if rp = .SP then sp s / 256 else r8 s (hiOfPair rp)
def r16 (s : St μ) (rp : Reg16) : Int :=
  if rp = .SP then sp s else r8 s (loOfPair rp) + 256 * r8 s (hiOfPair rp)

/-- load a pair from two bytes -/
def setPair (s : St μ) (rp : Reg16) (lo hi : Int) : St μ :=
  if rp = .SP then setSP s (lo + 256 * hi) else setR8 (setR8 s (loOfPair rp) lo) (hiOfPair rp) hi
/-- load a pair from a 16-bit value -/
def setR16 (s : St μ) (rp : Reg16) (v : Int) : St μ :=
  if rp = .SP then setSP s v else setR8 (setR8 s (hiOfPair rp) (v / 256)) (loOfPair rp) (v % 256)

/-- exchange an 8-bit register with its shadow (slot + 16) -/
def swapShadow (s : St μ) (r : Reg8) : St μ :=
  let a := rget s.reg (idx r)
  let b := rget s.reg (idx r + 16)
  { s with reg := rset (rset s.reg (idx r) b) (idx r + 16) a }

/-- R after `m1` opcode fetches: bit 7 is preserved, the low seven bits count -/
def incR (m1 r : Int) : Int := (r / 128) * 128 + (r % 128 + m1) % 128

/-! ### memory -/

def rd (s : St μ) (a : Int) : Int := mget s.mem a
/-- ROM ignores writes -/
def wr (s : St μ) (a v : Int) : St μ := { s with mem := if a > 0x3FFF then mset s.mem a v else s.mem }
/-- store `lo` at `a`, `hi` at `a+1` -/
def wrPair (s : St μ) (a lo hi : Int) : St μ := wr (wr s a lo) ((a + 1) % 65536) hi

/-- signed displacement / relative offset -/
def sgn8 (d : Int) : Int := if d < 128 then d else d - 256

/-! ### flags and conditions -/

def flagSet (f : Int) (k : Nat) : Bool := decide ((f / (2 : Int) ^ k) % 2 = 1)

def condHolds (c : Cond) (f : Int) : Bool :=
  match c with
  | .NZ => !flagSet f 6 | .Z => flagSet f 6
  | .NC => !flagSet f 0 | .C => flagSet f 0
  | .PO => !flagSet f 2 | .PE => flagSet f 2
  | .P => !flagSet f 7 | .M => flagSet f 7

def ccHolds (cc : Option Cond) (f : Int) : Bool :=
  match cc with
  | none => true
  | some c => condHolds c f

def aluSpec (op : AluOp) (c a v : Nat) : Nat × Nat :=
  match op with
  | .ADD => adc 0 a v | .ADC => adc c a v | .SUB => sbc 0 a v | .SBC => sbc c a v
  | .AND => and_ a v | .XOR => xor_ a v | .OR => or_ a v | .CP => cp a v

def rotSpec (op : RotOp) (c v : Nat) : Nat × Nat :=
  match op with
  | .RLC => rlc v | .RRC => rrc v | .RL => rl c v | .RR => rr c v
  | .SLA => sla v | .SRA => sra v | .SLL => sll v | .SRL => srl v

/-- (new A, new F) -/
def accSpec (op : AccOp) (a f : Nat) : Nat × Nat :=
  match op with
  | .RLCA => rlca a f | .RRCA => rrca a f | .RLA => rla a f | .RRA => rra a f
  | .DAA => daa a f | .CPL => cpl a f | .SCF => (a, scf f a) | .CCF => (a, ccf f a)

/-! ### ports -/

def portIn (attached : Bool) (dflt port : Int) (s : St μ) : Int × St μ :=
  if attached then
    let r := readPort s.ins
    (r.1, { s with ins := r.2, inLog := port :: s.inLog })
  else (dflt, s)

def portOut (attached : Bool) (port v : Int) (s : St μ) : St μ :=
  if attached then { s with outs := (port, v) :: s.outs, mem := MemLike.portOut s.mem port v } else s

/-! ### operands -/

/-- the immediate byte `n` / `e`: last byte of the instruction -/
def imm8 (s : St μ) (pc size : Int) : Int := rd s ((pc + size - 1) % 65536)
/-- the immediate word `nn`: last two bytes of the instruction, little-endian -/
def imm16 (s : St μ) (pc size : Int) : Int :=
  rd s ((pc + size - 2) % 65536) + 256 * rd s ((pc + size - 1) % 65536)
/-- the displacement byte `d` of `(IX+d)`: always the third byte -/
def dispByte (s : St μ) (pc : Int) : Int := rd s ((pc + 2) % 65536)

/-- effective address of a memory operand -/
def addrOf (s : St μ) (pc size : Int) : Loc8 → Int
  | .ind rp => r16 s rp
  | .idx rp => (r16 s rp + sgn8 (dispByte s pc)) % 65536
  | .abs => imm16 s pc size
  | _ => 0

def rdLoc (s : St μ) (pc size : Int) (l : Loc8) : Int :=
  match l with
  | .reg r => r8 s r
  | .imm => imm8 s pc size
  | l => rd s (addrOf s pc size l)

/-- write `v` to the operand; the address is evaluated in `s0` (the state before the
instruction changed anything) -/
def wrLoc (s0 s : St μ) (pc size : Int) (l : Loc8) (v : Int) : St μ :=
  match l with
  | .reg r => setR8 s r v
  | .imm => s
  | l => wr s (addrOf s0 pc size l) v

def copyTo (s : St μ) (c : Option Reg8) (v : Int) : St μ :=
  match c with
  | some r => setR8 s r v
  | none => s

/-- push a word given as two bytes: SP -= 2, low byte at SP, high byte at SP+1 -/
def push (s : St μ) (lo hi : Int) : St μ :=
  let a := (sp s - 2) % 65536
  wrPair (setSP s a) a lo hi

/-- is the maskable interrupt about to be accepted after an instruction ending at clock `t`? -/
def intDue (cfg : Cfg) (iff t : Int) : Bool :=
  decide (iff ≠ 0 ∧ t % cfg.frame_duration < cfg.int_active)

/-! ### execution -/

def exec (cfg : Cfg) (d : Decoded) (s0 : St μ) : St μ :=
  let pc := s0.pc
  let sz := d.size
  -- opcode fetch(es): R counts M1 cycles
  let s := setR8 s0 .R (incR d.m1 (r8 s0 .R))
  let next := (pc + sz) % 65536
  let fin (x : St μ) : St μ := { x with pc := next, t := x.t + d.t }
  let a := r8 s .A
  let f := r8 s .F
  let c := f % 2
  match d.instr with
  | .nop | .prefixNop | .edNop => fin s
  | .ld8 dst src => fin (wrLoc s s pc sz dst (rdLoc s pc sz src))
  | .ldAIR r =>
    let v := r8 s r
    let t := s.t + d.t
    -- P/V = IFF2, except that it reads 0 when the interrupt is accepted right after this instruction
    let pv : Bool := decide (s.iff ≠ 0) && !intDue cfg s.iff t
    fin (setR8 (setR8 s .A v) .F (ldAIRFlags v.toNat f.toNat pv))
  | .ld16imm rp => fin (setPair s rp (rd s ((pc + sz - 2) % 65536)) (rd s ((pc + sz - 1) % 65536)))
  | .ld16load rp _ =>
    let addr := imm16 s pc sz
    fin (setPair s rp (rd s addr) (rd s ((addr + 1) % 65536)))
  | .ld16store rp _ => fin (wrPair s (imm16 s pc sz) (lo16 s rp) (hi16 s rp))
  | .ldSP rp => fin (setSP s (r16 s rp))
  | .push rp => fin (push s (lo16 s rp) (hi16 s rp))
  | .pop rp =>
    let a := sp s
    fin (setPair (setSP s ((a + 2) % 65536)) rp (rd s a) (rd s ((a + 1) % 65536)))
  | .exAF => fin (swapShadow (swapShadow s .A) .F)
  | .exx =>
    fin (swapShadow (swapShadow (swapShadow (swapShadow (swapShadow (swapShadow s .B) .C) .D) .E) .H) .L)
  | .exDEHL =>
    let de := (r8 s .E, r8 s .D)
    fin (setPair (setPair s .DE (r8 s .L) (r8 s .H)) .HL de.1 de.2)
  | .exSP rp =>
    let a := sp s
    let lo := rd s a
    let hi := rd s ((a + 1) % 65536)
    fin (setPair (wrPair s a (lo16 s rp) (hi16 s rp)) rp lo hi)
  | .alu8 op src =>
    let r := aluSpec op c.toNat a.toNat (rdLoc s pc sz src).toNat
    fin (setR8 (setR8 s .A r.1) .F r.2)
  | .inc8 l =>
    let r := inc c.toNat (rdLoc s pc sz l).toNat
    fin (setR8 (wrLoc s s pc sz l r.1) .F r.2)
  | .dec8 l =>
    let r := dec c.toNat (rdLoc s pc sz l).toNat
    fin (setR8 (wrLoc s s pc sz l r.1) .F r.2)
  | .acc op =>
    let r := accSpec op a.toNat f.toNat
    fin (setR8 (setR8 s .A r.1) .F r.2)
  | .neg =>
    let r := neg a.toNat
    fin (setR8 (setR8 s .A r.1) .F r.2)
  | .add16 dst src =>
    let r := add16 f.toNat (r16 s dst).toNat (r16 s src).toNat
    fin (setR8 (setR16 s dst r.1) .F r.2)
  | .adc16 src =>
    let r := adc16 c.toNat (r16 s .HL).toNat (r16 s src).toNat
    fin (setR8 (setR16 s .HL r.1) .F r.2)
  | .sbc16 src =>
    let r := sbc16 c.toNat (r16 s .HL).toNat (r16 s src).toNat
    fin (setR8 (setR16 s .HL r.1) .F r.2)
  | .inc16 rp => fin (setR16 s rp ((r16 s rp + 1) % 65536))
  | .dec16 rp => fin (setR16 s rp ((r16 s rp - 1) % 65536))
  | .rot op l copy =>
    let r := rotSpec op c.toNat (rdLoc s pc sz l).toNat
    fin (setR8 (copyTo (wrLoc s s pc sz l r.1) copy r.1) .F r.2)
  | .bit n l =>
    let v := rdLoc s pc sz l
    match l with
    | .idx _ =>
      -- BIT n,(IX+d): bits 5/3 come from the high byte of the effective address
      fin (setR8 s .F (bitTestMem c.toNat n v.toNat (addrOf s pc sz l / 256).toNat))
    | _ =>
      -- register form; also used for BIT n,(HL), whose bits 5/3 really come from the internal
      -- MEMPTR register, which this state does not model
      fin (setR8 s .F (bitTest c.toNat n v.toNat))
  | .res n l copy =>
    let r : Int := resBit n (rdLoc s pc sz l).toNat
    fin (copyTo (wrLoc s s pc sz l r) copy r)
  | .set n l copy =>
    let r : Int := setBit n (rdLoc s pc sz l).toNat
    fin (copyTo (wrLoc s s pc sz l r) copy r)
  | .jp cc =>
    if ccHolds cc f then { s with pc := imm16 s pc sz, t := s.t + d.tAlt } else fin s
  | .jpReg rp => { s with pc := r16 s rp, t := s.t + d.t }
  | .jr cc =>
    if ccHolds cc f then { s with pc := (next + sgn8 (imm8 s pc sz)) % 65536, t := s.t + d.tAlt } else fin s
  | .djnz =>
    let b := (r8 s .B - 1) % 256
    let s1 := setR8 s .B b
    if b ≠ 0 then { s1 with pc := (next + sgn8 (imm8 s pc sz)) % 65536, t := s1.t + d.tAlt } else fin s1
  | .call cc =>
    if ccHolds cc f then
      let s1 := push s (next % 256) (next / 256)
      { s1 with pc := imm16 s pc sz, t := s1.t + d.tAlt }
    else fin s
  | .ret cc =>
    if ccHolds cc f then
      let a := sp s
      { setSP s ((a + 2) % 65536) with pc := rd s a + 256 * rd s ((a + 1) % 65536),
                                       t := s.t + d.tAlt }
    else fin s
  | .reti | .retn =>
    let a := sp s
    { setSP s ((a + 2) % 65536) with pc := rd s a + 256 * rd s ((a + 1) % 65536), t := s.t + d.t }
  | .rst addr =>
    let s1 := push s (next % 256) (next / 256)
    { s1 with pc := (addr : Int), t := s1.t + d.t }
  | .inA =>
    let r := portIn cfg.in_a_n_tracer 255 (imm8 s pc sz + 256 * a) s
    fin (setR8 r.2 .A r.1)
  | .outA => fin (portOut cfg.out_tracer (imm8 s pc sz + 256 * a) a s)
  | .inC r =>
    let p := portIn cfg.in_r_c_tracer 255 (r16 s .BC) s
    fin (setR8 (copyTo p.2 r p.1) .F (sz53pC p.1.toNat c.toNat))
  | .outC r =>
    let v := match r with
      | some r => r8 s r
      | none => 0
    fin (portOut cfg.out_tracer (r16 s .BC) v s)
  | .block kind dec rep =>
    let stepv : Int := if dec then -1 else 1
    let hl := r16 s .HL
    let hl' := (hl + stepv) % 65536
    let pch := (pc / 256).toNat
    -- a repeating instruction that repeats leaves PC on itself and takes `tAlt`
    let again (x : St μ) : St μ := { x with t := x.t + d.tAlt }
    match kind with
    | .LD =>
      let v := rd s hl
      let de := r16 s .DE
      let bc' := (r16 s .BC - 1) % 65536
      let s1 := wr s de v
      let s2 := setR16 (setR16 (setR16 s1 .HL hl') .DE ((de + stepv) % 65536)) .BC bc'
      if rep ∧ bc' ≠ 0 then again (setR8 s2 .F (ldirRepFlags f.toNat pch))
      else fin (setR8 s2 .F (ldiFlags f.toNat a.toNat v.toNat (bc' ≠ 0)))
    | .CP =>
      let v := rd s hl
      let bc' := (r16 s .BC - 1) % 65536
      let s2 := setR16 (setR16 s .HL hl') .BC bc'
      if rep ∧ bc' ≠ 0 ∧ a ≠ v then again (setR8 s2 .F (cpirRepFlags f.toNat a.toNat v.toNat pch))
      else fin (setR8 s2 .F (cpiFlags f.toNat a.toNat v.toNat (bc' ≠ 0)))
    | .IN =>
      let p := portIn cfg.ini_tracer 191 (r16 s .BC) s
      let v := p.1
      let b' := (r8 s .B - 1) % 256
      let k := v + (r8 s .C + stepv) % 256
      let s1 := wr p.2 hl v
      let s2 := setR8 (setR16 s1 .HL hl') .B b'
      if rep ∧ b' ≠ 0 then again (setR8 s2 .F (ioBlockRepFlags b'.toNat v.toNat k.toNat pch))
      else fin (setR8 s2 .F (ioBlockFlags b'.toNat v.toNat k.toNat))
    | .OUT =>
      let v := rd s hl
      let b' := (r8 s .B - 1) % 256
      -- B is decremented before it appears on the address bus
      let s1 := portOut cfg.out_tracer (r8 s .C + 256 * b') v s
      let k := hl' % 256 + v
      let s2 := setR8 (setR16 s1 .HL hl') .B b'
      if rep ∧ b' ≠ 0 then again (setR8 s2 .F (ioBlockRepFlags b'.toNat v.toNat k.toNat pch))
      else fin (setR8 s2 .F (ioBlockFlags b'.toNat v.toNat k.toNat))
  | .im m => fin { s with im := (m : Int) }
  | .di => fin { s with iff := 0 }
  | .ei => fin { s with iff := 1 }
  | .halt =>
    let t := s.t + d.t
    if intDue cfg s.iff t then { s with pc := next, t := t, halt := 0 } else { s with t := t, halt := 1 }
  | .rld =>
    let hl := r16 s .HL
    let r := rld a.toNat (rd s hl).toNat
    fin (setR8 (setR8 (wr s hl r.2) .A r.1) .F (sz53pC r.1 c.toNat))
  | .rrd =>
    let hl := r16 s .HL
    let r := rrd a.toNat (rd s hl).toNat
    fin (setR8 (setR8 (wr s hl r.2) .A r.1) .F (sz53pC r.1 c.toNat))

/-! ### fetch -/

/-- Prefix context and opcode byte of the instruction at PC: `CB`, `ED`, `DD`, `FD` select a page
by the next byte; `DD CB d op` / `FD CB d op` take the opcode from the fourth byte. -/
def fetch (s : St μ) : Pfx × Int :=
  let b0 := rd s s.pc
  let b1 := rd s ((s.pc + 1) % 65536)
  if b0 = 0xCB then (.CB, b1)
  else if b0 = 0xED then (.ED, b1)
  else if b0 = 0xDD then (if b1 = 0xCB then (.DDCB, rd s ((s.pc + 3) % 65536)) else (.DD, b1))
  else if b0 = 0xFD then (if b1 = 0xCB then (.FDCB, rd s ((s.pc + 3) % 65536)) else (.FD, b1))
  else (.MAIN, b0)

/-- one instruction -/
def step (cfg : Cfg) (s : St μ) : St μ :=
  let fo := fetch s
  exec cfg (Decoded.of (decode fo.1 fo.2.toNat)) s

end Spec
