/-
Independent specification of the PZX `PULS` block body, written from the PZX format
document (http://zxds.raxoft.cz/docs/pzx.txt), not from skoolkit's code:

  each pulse entry is: an optional repeat-count word (bit 15 set, bits 0-14 = count > 0;
  absent means count 1), then the duration: one word if it fits in 15 bits, otherwise
  two words: bit 15 set + bits 16-30 of the duration, then its low 16 bits.  The
  repeat count must be present when the duration does not fit in 16 bits (the word
  0x8000 alone is not a zero count but the prefix of a 16-bit duration).
  Words are little-endian.

No imports.
-/
namespace PzxSpec

def wordBytes (w : Nat) : List Nat := [w % 256, w / 256]

/-- The words of one `(count, duration)` entry. -/
def pulseWords (cd : Nat × Nat) : List Nat :=
  (if cd.1 ≠ 1 ∨ cd.2 ≥ 65536 then [0x8000 + cd.1] else []) ++
  (if cd.2 < 0x8000 then [cd.2] else [0x8000 + cd.2 / 65536, cd.2 % 65536])

/-- The body of a `PULS` block. -/
def encodePuls (ps : List (Nat × Nat)) : List Nat :=
  ps.flatMap fun cd => (pulseWords cd).flatMap wordBytes

/-- An entry that the format can represent. -/
def ValidPulse (cd : Nat × Nat) : Prop := 1 ≤ cd.1 ∧ cd.1 < 0x8000 ∧ cd.2 < 0x80000000

end PzxSpec
