/-
Independent specification of the PZX `PULS` block body, written from the PZX format
document (http://zxds.raxoft.cz/docs/pzx.txt), not from skoolkit's code:

  each pulse entry is: an optional repeat-count word (bit 15 set, bits 0-14 = count > 0;
  absent means count 1), then the duration: one word if it fits in 15 bits, otherwise
  two words: bit 15 set + bits 16-30 of the duration, then its low 16 bits.  The
  repeat count must be present when the duration does not fit in 16 bits (the word
  0x8000 alone is not a zero count but the prefix of a 16-bit duration).
  Words are little-endian.

No imports.
-/
namespace PzxSpec

def wordBytes (w : Nat) : List Nat := [w % 256, w / 256]

/-- The words of one `(count, duration)` entry. -/
def pulseWords (cd : Nat × Nat) : List Nat :=
  (if cd.1 ≠ 1 ∨ cd.2 ≥ 65536 then [0x8000 + cd.1] else []) ++
  (if cd.2 < 0x8000 then [cd.2] else [0x8000 + cd.2 / 65536, cd.2 % 65536])

/-- The body of a `PULS` block. -/
def encodePuls (ps : List (Nat × Nat)) : List Nat :=
  ps.flatMap fun cd => (pulseWords cd).flatMap wordBytes

/-- An entry that the format can represent. -/
def ValidPulse (cd : Nat × Nat) : Prop := 1 ≤ cd.1 ∧ cd.1 < 0x8000 ∧ cd.2 < 0x80000000

end PzxSpec

namespace PzxSpec

def dwordBytes (n : Nat) : List Nat := [n % 256, n / 256 % 256, n / 65536 % 256, n / 16777216 % 256]

/-- The body of a `DATA` block as the PZX document lays it out: bit count with the initial
level in bit 31, tail pulse, the two sequence lengths, the two pulse sequences, the bytes. -/
def encodeData (level nbits tail : Nat) (s0 s1 data : List Nat) : List Nat :=
  dwordBytes (level * 0x80000000 + nbits) ++ wordBytes tail ++ [s0.length, s1.length] ++
    s0.flatMap wordBytes ++ s1.flatMap wordBytes ++ data

/-- A `DATA` block the format can represent; the byte count is the bit count rounded up. -/
def ValidData (level nbits tail : Nat) (s0 s1 data : List Nat) : Prop :=
  level < 2 ∧ nbits < 0x80000000 ∧ tail < 65536 ∧ s0.length < 256 ∧ s1.length < 256 ∧
  (∀ x ∈ s0, x < 65536) ∧ (∀ x ∈ s1, x < 65536) ∧ data.length = (nbits + 7) / 8

end PzxSpec
