/-
Independent reading of a pulse train as sampled data (TZX "direct recording", block 0x15):
the level starts low, every pulse keeps the level for its duration and then toggles it;
sampling every `tps` T-states gives back the recorded bits.

No imports.
-/
namespace DirectRecSpec

/-- The samples seen when a pulse train is sampled every `tps` T-states, starting at
level `level`. -/
def samplePulses (tps : Nat) : Bool → List Nat → List Bool
  | _, [] => []
  | level, d :: rest => List.replicate (d / tps) level ++ samplePulses tps (!level) rest

def total (ds : List Nat) : Nat := ds.foldr (· + ·) 0

end DirectRecSpec
