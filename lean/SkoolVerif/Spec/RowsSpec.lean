import SkoolVerif.Model.AsmRows
/-!
Declarative description of what `print_instructions` must emit: the
instruction list is a sequence of *groups* (one commented instruction followed
by the instructions its comment spans); each group is laid out by zipping its
operations with the wrapped comment lines.  No loop variables, no `rows`/`lines`
state: the layout is defined by structural recursion on the two lists.
-/
namespace RowsSpec
open Wrap AsmRows

/-- A group: the instruction that carries the comment and the further
instructions covered by its rowspan. -/
structure Group where
  head : Instr
  tail : List Instr

def Group.instrs (g : Group) : List Instr := g.head :: g.tail

/-- The rowspan recorded on the head is the size of the group. -/
def Group.WF (g : Group) : Prop := g.head.rowspan = g.tail.length + 1

/-- Width of the operation field of a group. -/
def Group.iw (cfg : Cfg) (g : Group) : Int :=
  (g.instrs.map fun x => (x.op.length : Int)).foldl max cfg.instrWidth

/-- Width the comment of a group is wrapped to. -/
def Group.cw (cfg : Cfg) (g : Group) : Int :=
  max (cfg.lineWidth - 3 - g.iw cfg - cfg.indentWidth) cfg.minCommentWidth

/-- Comment lines left over after the last instruction of the group. -/
def restLines (cfg : Cfg) (iw : Nat) : List Str → List Ev
  | [] => []
  | l :: ls => emit cfg none l (render cfg [] iw true l) ++ restLines cfg iw ls

/-- Rows of a group: the `j`-th instruction next to the `j`-th comment line.
The `;` separator is omitted only for a one-instruction group without comment. -/
def zipRows (cfg : Cfg) (iw rowspan : Nat) : Nat → List Str → List Str → List Ev
  | _, [], ls => restLines cfg iw ls
  | i, op :: ops, [] =>
    .pfx i :: emit cfg (some i) [] (render cfg op iw (rowspan != 1) []) ++ zipRows cfg iw rowspan (i + 1) ops []
  | i, op :: ops, l :: ls =>
    .pfx i :: emit cfg (some i) l (render cfg op iw true l) ++ zipRows cfg iw rowspan (i + 1) ops ls

def groupEvents (cfg : Cfg) (i : Nat) (g : Group) : Except RowErr (List Ev) :=
  match fmt g.head.text (g.cw cfg) with
  | .error e => .error e
  | .ok ls => .ok (zipRows cfg (g.iw cfg).toNat g.head.rowspan i (g.instrs.map fun x => x.op) ls)

def specEvents (cfg : Cfg) : Nat → List Group → Except RowErr (List Ev)
  | _, [] => .ok []
  | i, g :: gs =>
    match groupEvents cfg i g with
    | .error e => .error e
    | .ok a =>
      match specEvents cfg (i + g.instrs.length) gs with
      | .error e => .error e
      | .ok b => .ok (a ++ b)

def flat (gs : List Group) : List Instr := gs.flatMap Group.instrs

end RowsSpec
