import SkoolVerif.Model.BinWriter
/-!
Declarative notions the C01 theorems are stated with (independent of how the code computes):
what it means for sub-blocks to tile an address range, for statements to cover a range with the
bytes of the snapshot, and which addresses are ignored.
-/
namespace C01Spec
open CtlTiling Stmts

/-- The sub-blocks, in order, are contiguous and non-empty and cover exactly `[lo, hi)`. -/
def Tiles : List Sub → Nat → Nat → Prop
  | [], lo, hi => lo = hi
  | s :: r, lo, hi => s.start = lo ∧ lo < s.end_ ∧ Tiles r s.end_ hi

/-- The blocks, in order, are contiguous and non-empty and cover exactly `[lo, hi)`. -/
def BlocksTile : List Block → Nat → Nat → Prop
  | [], lo, hi => lo = hi
  | b :: r, lo, hi => b.start = lo ∧ lo < b.end_ ∧ BlocksTile r b.end_ hi

/-- byte `k` of the snapshot seen through the 64K address space -/
def memAt (mem : List Nat) (a : Nat) : Option Nat := mem[a % 65536]?

/-- `Instruction.bytes` are the snapshot bytes at the statement's address (wrapping at 64K) -/
def BytesOk (mem : List Nat) (s : Stmt) : Prop :=
  ∀ k, k < s.bytes.length → s.bytes[k]? = memAt mem (s.addr + k)

/-- The statements, in order, have consecutive addresses from `a` to `b`, each holds at least one
byte, and the bytes are those of the snapshot. -/
def Chain (mem : List Nat) : List Stmt → Nat → Nat → Prop
  | [], a, b => a = b
  | s :: r, a, b => s.addr = a ∧ s.bytes ≠ [] ∧ BytesOk mem s ∧ Chain mem r (a + s.bytes.length) b

/-- `sub_block.ctl` values for which `_create_entries` emits the blank placeholder instruction -/
def isIgnored (s : Sub) : Bool := !(s.ctl == 'c' || "bgstuw".toList.contains s.ctl)

/-- address `a` lies in an ignored sub-block -/
def Ignored (subs : List Sub) (a : Nat) : Prop := ∃ s ∈ subs, isIgnored s = true ∧ s.start ≤ a ∧ a < s.end_

/-- no ignored sub-block is followed by a disassembled one (the `i-block-gap` finding is excluded) -/
def NoGap : List Sub → Prop
  | [] => True
  | s :: r => (isIgnored s = true → ∀ t ∈ r, isIgnored t = true) ∧ NoGap r

/-- The statements emitted for a sub-block form a chain that ends exactly at the sub-block's end:
"the sub-block boundary falls on a statement boundary". -/
def SubCovered (mem : List Nat) (cfg : Config) (dec : Dec) (s : Sub) : Prop :=
  ∃ l, emitSub mem cfg dec s = .ok l ∧ Chain mem l s.start s.end_

/-- a statement re-assembles to its bytes -/
def AsmOk (asm : Nat → List Nat) (s : Stmt) : Prop := s.op.assemble asm = s.bytes

/-- Side conditions under which a data sub-block (`b g s t u w`) is covered exactly and all its
statements re-assemble: a sublength list is present; `w`: explicit sublengths are even, and without
sublengths `DefwSize` > 0 and the length is even or the sub-block ends at the end of the snapshot;
`s`: an explicit size divides the length. -/
def DataWf (mem : List Nat) (cfg : Config) (s : Sub) : Prop :=
  s.sublengths ≠ [] ∧
  (s.ctl = 'w' →
    (firstSize s.sublengths ≠ 0 → ∀ q ∈ s.sublengths, q.1 % 2 = 0) ∧
    (firstSize s.sublengths = 0 → 0 < cfg.defwSize ∧ ((s.end_ - s.start) % 2 = 0 ∨ s.end_ = mem.length))) ∧
  (s.ctl = 's' → firstSize s.sublengths ≠ 0 → (s.end_ - s.start) % firstSize s.sublengths = 0)

end C01Spec
