import SkoolVerif.Gen.SimTables
import SkoolVerif.Spec.Z80Alu
/-!
Bool checkers relating the translated `simtables.py` tables (`Tbl.*`, over `Int`) to the
independent spec (`Z80Spec.*`, over `Nat`).  Each checker also asserts the byte range of the table
value.  They are evaluated by the kernel over the whole index space in `Proofs/Alu/*.lean`, and by
the interpreter in `Drivers/AluCheck.lean`.
-/
namespace AluCheck
open Z80Spec

@[inline] def okP (t : Int × Int) (s : Nat × Nat) : Bool :=
  t.1 == (s.1 : Int) && t.2 == (s.2 : Int) && decide (s.1 < 256) && decide (s.2 < 256)
@[inline] def okI (t : Int) (s : Nat) : Bool := t == (s : Int) && decide (s < 256)

def ckADC (c a n : Nat) : Bool := okP (Tbl.ADC c a n) (adc c a n)
def ckSBC (c a n : Nat) : Bool := okP (Tbl.SBC c a n) (sbc c a n)
def ckADD (a n : Nat) : Bool := okP (Tbl.ADD a n) (adc 0 a n)
def ckSUB (a n : Nat) : Bool := okP (Tbl.SUB a n) (sbc 0 a n)
def ckAND (a n : Nat) : Bool := okP (Tbl.AND a n) (and_ a n)
def ckOR (a n : Nat) : Bool := okP (Tbl.OR a n) (or_ a n)
def ckXOR (a n : Nat) : Bool := okP (Tbl.XOR a n) (xor_ a n)
def ckCP (a n : Nat) : Bool := okP (Tbl.CP a n) (cp a n)
def ckCPL (a f : Nat) : Bool := okP (Tbl.CPL a f) (cpl a f)
def ckDAA (a f : Nat) : Bool := okP (Tbl.DAA a f) (daa a f)
def ckRLA (a f : Nat) : Bool := okP (Tbl.RLA a f) (rla a f)
def ckRLCA (a f : Nat) : Bool := okP (Tbl.RLCA a f) (rlca a f)
def ckRRA (a f : Nat) : Bool := okP (Tbl.RRA a f) (rra a f)
def ckRRCA (a f : Nat) : Bool := okP (Tbl.RRCA a f) (rrca a f)
def ckCCF (f a : Nat) : Bool := okI (Tbl.CCF f a) (ccf f a)
def ckSCF (f a : Nat) : Bool := okI (Tbl.SCF f a) (scf f a)
def ckBIT (c b v : Nat) : Bool := okI (Tbl.BIT c b v) (bitTest c b v)
def ckADC_A_A (c a : Nat) : Bool := okP (Tbl.ADC_A_A c a) (adc c a a)
def ckSBC_A_A (c a : Nat) : Bool := okP (Tbl.SBC_A_A c a) (sbc c a a)
def ckINC (c v : Nat) : Bool := okP (Tbl.INC c v) (inc c v)
def ckDEC (c v : Nat) : Bool := okP (Tbl.DEC c v) (dec c v)
def ckRL (c v : Nat) : Bool := okP (Tbl.RL c v) (rl c v)
def ckRR (c v : Nat) : Bool := okP (Tbl.RR c v) (rr c v)
def ckRLC (v : Nat) : Bool := okP (Tbl.RLC v) (rlc v)
def ckRRC (v : Nat) : Bool := okP (Tbl.RRC v) (rrc v)
def ckSLA (v : Nat) : Bool := okP (Tbl.SLA v) (sla v)
def ckSLL (v : Nat) : Bool := okP (Tbl.SLL v) (sll v)
def ckSRA (v : Nat) : Bool := okP (Tbl.SRA v) (sra v)
def ckSRL (v : Nat) : Bool := okP (Tbl.SRL v) (srl v)
def ckNEG (v : Nat) : Bool := okP (Tbl.NEG v) (neg v)
def ckSZ53P (v : Nat) : Bool := okI (Tbl.SZ53P v) (sz53p v)
def ckPARITY (v : Nat) : Bool := okI (Tbl.PARITY v) (fl (parityEven v) 4)
def ckR1 (v : Nat) : Bool := okI (Tbl.R1 v) ((v / 128) * 128 + (v % 128 + 1) % 128)
def ckR2 (v : Nat) : Bool := okI (Tbl.R2 v) ((v / 128) * 128 + (v % 128 + 2) % 128)

/-- `p k` for all `k < n` (structural recursion: kernel-friendly). -/
def allLt : Nat → (Nat → Bool) → Bool
  | 0, _ => true
  | n + 1, p => allLt n p && p n

theorem allLt_spec {n : Nat} {p : Nat → Bool} (h : allLt n p = true) : ∀ k, k < n → p k = true := by
  induction n with
  | zero => intro k hk; omega
  | succ n ih =>
    simp only [allLt, Bool.and_eq_true] at h
    intro k hk
    by_cases hkn : k = n
    · subst hkn; exact h.2
    · exact ih h.1 k (by omega)

def count2 (n m : Nat) (p : Nat → Nat → Bool) : Nat := Id.run do
  let mut bad := 0
  for i in [0:n] do
    for j in [0:m] do
      if !p i j then bad := bad + 1
  return bad

def count3 (n m k : Nat) (p : Nat → Nat → Nat → Bool) : Nat := Id.run do
  let mut bad := 0
  for i in [0:n] do
    for j in [0:m] do
      for l in [0:k] do
        if !p i j l then bad := bad + 1
  return bad

def count1 (n : Nat) (p : Nat → Bool) : Nat := Id.run do
  let mut bad := 0
  for i in [0:n] do
    if !p i then bad := bad + 1
  return bad

end AluCheck

namespace AluCheck
/-- Reassemble a property checked in `S` slices of width `W`. -/
theorem sliced {S W : Nat} {p : Nat → Bool}
    (h : ∀ k, k < S → allLt W (fun a => p (W * k + a)) = true) : ∀ a, a < S * W → p a = true := by
  intro a ha
  have hW : 0 < W := by
    rcases Nat.eq_zero_or_pos W with h0 | h0
    · subst h0; simp at ha
    · exact h0
  have hk : a / W < S := by
    apply Nat.div_lt_of_lt_mul; rw [Nat.mul_comm]; exact ha
  have := allLt_spec (h (a / W) hk) (a % W) (Nat.mod_lt _ hW)
  simpa [Nat.div_add_mod] using this
end AluCheck
