import SkoolVerif.Spec.Z80Alu
/-!
Flag rules of the instructions whose flags are not an 8-bit-ALU table lookup: 16-bit
ADD/ADC/SBC, LD A,I / LD A,R, RLD/RRD and the sixteen block instructions (including the flags
seen when a repeating block instruction is about to repeat), stated over `Nat` with the same
vocabulary as `Spec/Z80Alu.lean` (S Z 5 H 3 P/V N C = bits 7..0 of F).

Sources: Z80 CPU User Manual; "The Undocumented Z80 Documented" (S. Young) §4 for bits 5/3 and the
block I/O flags; the 2018-2022 measurements of interrupted/repeating LDIR/CPIR/INIR/OTIR
(D. Banks, "Z80 undocumented flags"; the `block_io_interrupted_flags` rule adopted by MAME and
Fuse).  Not derived from skoolkit's formulas.  Core Lean only.
-/
namespace Z80Spec

/-- signed value of a 16-bit word -/
def sgn16 (v : Nat) : Int := if v < 32768 then (v : Int) else (v : Int) - 65536

/-- ADD HL,rp: S, Z, P/V unchanged; H = carry out of bit 11; N = 0; C = carry out of bit 15;
5 and 3 from the high byte of the result. -/
def add16 (f hl rr : Nat) : Nat × Nat :=
  let sum := hl + rr
  let r := sum % 65536
  (r, mkF (bit f 7) (bit f 6) (bit r 13) (hl % 4096 + rr % 4096 > 4095) (bit r 11) (bit f 2) false
        (sum > 65535))

/-- ADC HL,rp with carry-in `c`: all flags from the 16-bit result. -/
def adc16 (c hl rr : Nat) : Nat × Nat :=
  let sum := hl + rr + c
  let r := sum % 65536
  let s := sgn16 hl + sgn16 rr + (c : Int)
  (r, mkF (bit r 15) (r == 0) (bit r 13) (hl % 4096 + rr % 4096 + c > 4095) (bit r 11)
        (s < -32768 || s > 32767) false (sum > 65535))

/-- SBC HL,rp with borrow-in `c`. -/
def sbc16 (c hl rr : Nat) : Nat × Nat :=
  let r := (hl + 131072 - rr - c) % 65536
  let s := sgn16 hl - sgn16 rr - (c : Int)
  (r, mkF (bit r 15) (r == 0) (bit r 13) (hl % 4096 < rr % 4096 + c) (bit r 11)
        (s < -32768 || s > 32767) true (hl < rr + c))

/-- LD A,I / LD A,R: S Z 5 3 from the value, H = N = 0, P/V = `pv` (IFF2), C unchanged. -/
def ldAIRFlags (a f : Nat) (pv : Bool) : Nat :=
  mkF (bit a 7) (a == 0) (bit a 5) false (bit a 3) pv false (bit f 0)

/-- RLD: (new A, new (HL)) — the low nibble of A goes to the low nibble of (HL), whose nibbles
move up. -/
def rld (a v : Nat) : Nat × Nat := ((a / 16) * 16 + v / 16, (v % 16) * 16 + a % 16)
/-- RRD: (new A, new (HL)). -/
def rrd (a v : Nat) : Nat × Nat := ((a / 16) * 16 + v % 16, (a % 16) * 16 + v / 16)
/-- flags of RLD/RRD and of IN r,(C): S Z 5 3 P from the value, H = N = 0, C unchanged -/
def sz53pC (v c : Nat) : Nat := fromResult v false (parityEven v) false (c == 1)

/-- BIT b,(IX+d): as `bitTest`, but bits 5 and 3 come from the high byte `hi` of the effective
address -/
def bitTestMem (c b v hi : Nat) : Nat :=
  let t := bit v b
  mkF (b == 7 && t) (!t) (bit hi 5) true (bit hi 3) (!t) false (c == 1)

/-- RES b: clear bit `b` -/
def resBit (b v : Nat) : Nat := if bit v b then v - 2 ^ b else v
/-- SET b: set bit `b` -/
def setBit (b v : Nat) : Nat := if bit v b then v else v + 2 ^ b

/-! ### block instructions -/

/-- LDI/LDD (and LDIR/LDDR on the last iteration): H = N = 0, P/V = (BC ≠ 0 afterwards), S Z C
unchanged; bit 5 = bit 1 and bit 3 = bit 3 of (A + transferred byte). -/
def ldiFlags (f a v : Nat) (bcNZ : Bool) : Nat :=
  let n := a + v
  mkF (bit f 7) (bit f 6) (bit n 1) false (bit n 3) bcNZ false (bit f 0)

/-- LDIR/LDDR about to repeat: as `ldiFlags` with P/V = 1, but bits 5/3 = bits 13/11 of the
instruction's own address (PC has been wound back onto it). -/
def ldirRepFlags (f pch : Nat) : Nat :=
  mkF (bit f 7) (bit f 6) (bit pch 5) false (bit pch 3) true false (bit f 0)

/-- CPI/CPD: S Z H from A − (HL) (no carry), N = 1, C unchanged, P/V = (BC ≠ 0 afterwards);
bit 5 = bit 1 and bit 3 = bit 3 of (A − (HL) − H). -/
def cpiFlags (f a v : Nat) (bcNZ : Bool) : Nat :=
  let r := (a + 256 - v) % 256
  let h := a % 16 < v % 16
  let n := (r + 256 - (if h then 1 else 0)) % 256
  mkF (bit r 7) (r == 0) (bit n 1) h (bit n 3) bcNZ true (bit f 0)

/-- CPIR/CPDR about to repeat (BC ≠ 0 and no match): Z = 0, P/V = 1, bits 5/3 from the
instruction's address high byte. -/
def cpirRepFlags (f a v pch : Nat) : Nat :=
  let r := (a + 256 - v) % 256
  let h := a % 16 < v % 16
  mkF (bit r 7) false (bit pch 5) h (bit pch 3) true true (bit f 0)

/-- INI/IND/OUTI/OUTD (and the repeating forms on the last iteration).  `b` = B after the
decrement, `v` = the byte transferred, `k` = `v + ((C ± 1) mod 256)` for IN*, `v + L'` for OUT*
(L' = L after HL moved): S Z 5 3 from B; N = bit 7 of the byte; H = C = (k > 255);
P/V = parity of ((k mod 8) xor B). -/
def ioBlockFlags (b v k : Nat) : Nat :=
  mkF (bit b 7) (b == 0) (bit b 5) (k > 255) (bit b 3) (parityEven ((k % 8) ^^^ b)) (bit v 7) (k > 255)

/-- INIR/INDR/OTIR/OTDR about to repeat (B ≠ 0): S from B, Z = 0, N and C as in `ioBlockFlags`,
bits 5/3 from the instruction's address high byte, and H and P/V adjusted:
* C = 1, N = 1: H = (B mod 16 = 0),  P/V flipped iff (B−1) mod 8 has odd parity
* C = 1, N = 0: H = (B mod 16 = 15), P/V flipped iff (B+1) mod 8 has odd parity
* C = 0:        H = 0,               P/V flipped iff B mod 8 has odd parity. -/
def ioBlockRepFlags (b v k pch : Nat) : Nat :=
  let c := k > 255
  let n := bit v 7
  let pv0 := parityEven ((k % 8) ^^^ b)
  let x := if c then (if n then (b + 255) % 256 % 8 else (b + 1) % 8) else b % 8
  let h := c && (if n then b % 16 == 0 else b % 16 == 15)
  mkF (bit b 7) false (bit pch 5) h (bit pch 3) (pv0 == parityEven x) n c

end Z80Spec
