import SkoolVerif.Spec.Z80Sem
/-!
Bus-level timing of the Z80 in a ZX Spectrum: for every instruction (`Z80Isa.ZInstr`), the ordered
list of machine cycles it performs — which address is on the bus during each memory / internal
cycle and for how many T-states, and which port each I/O cycle addresses — and the wait states the
ULA inserts in front of each of them.

Written from the documented per-instruction contention breakdown of the 48K/128K Spectrum (the
comp.sys.sinclair FAQ / "Contended memory" table, in its notation `address:T-states`):

    NOP                 pc:4                       LD r,n        pc:4,pc+1:3
    LD A,(nn)           pc:4,pc+1:3,pc+2:3,nn:3    INC (HL)      pc:4,hl:3,hl:1,hl(write):3
    JR e                pc:4,pc+1:3,[pc+1:1 x5]    DJNZ e        pc:4,ir:1,pc+1:3,[pc+1:1 x5]
    PUSH rr             pc:4,ir:1,sp-1:3,sp-2:3    ADD HL,rr     pc:4,ir:1 x7
    LD A,I              pc:4,pc+1:4,ir:1           LDIR          pc:4,pc+1:4,hl:3,de:3,de:1 x2,[de:1 x5]
    IN A,(n)            pc:4,pc+1:3,I/O            OUTI          pc:4,pc+1:4,ir:1,hl:3,I/O,[bc:1 x5]
    LD r,(IX+d)         pc:4,pc+1:4,pc+2:3,pc+2:1 x5,ixd:3
    RLC (IX+d)          pc:4,pc+1:4,pc+2:3,pc+3:3,pc+3:1 x2,ixd:3,ixd:1,ixd(write):3   …

the documented wait pattern 6,5,4,3,2,1,0,0 of the two frame layouts (48K: first contended T-state
14335, 224 T-states per line; 128K: 14361, 228), and the four documented I/O cases (port high byte
in contended memory × low bit: `N:4`, `N:1,C:3`, `C:1,C:3`, `C:1 x4`).  Nothing here mentions
`cmiosimulator.py`, its closures or its timing tuples.  Core Lean only; everything is executable.

Layers: `shape` is pure data (symbolic addresses, decidable — `Props/C19` checks its T-state totals
against `Z80Isa.ZInstr.time` for all 1792 opcodes); `addrVal`/`portVal` evaluate the symbolic
addresses in the state *before* the instruction; `delayFrom` folds the wait pattern over the cycles.
-/
namespace Z80Bus
open Z80 Z80Isa Spec

/-! ### cycles, symbolically -/

/-- What is on the address bus during a memory or internal cycle, relative to the state before
the instruction. -/
inductive Addr where
  /-- byte `k` of the instruction: `(PC + k) mod 65536` -/
  | pc (k : Int)
  /-- contents of BC / DE / HL -/
  | rp (r : Reg16)
  /-- `(SP + k) mod 65536` -/
  | sp (k : Int)
  /-- the refresh address I:R, on the bus during internal cycles of instructions that have no other
  address to show; only I (bits 15-14) matters for contention -/
  | ir
  /-- effective address `IX+d` / `IY+d` -/
  | ea (i : Reg16)
  /-- the immediate word `nn` held in bytes `o`, `o+1` of the instruction -/
  | nn (o : Int)
  /-- `(nn + 1) mod 65536` -/
  | nn1 (o : Int)
  /-- BC as the block output instructions put it on the bus: B already decremented -/
  | bcOut
  deriving DecidableEq, Repr, Inhabited

inductive Port where
  /-- `IN A,(n)` / `OUT (n),A`: A on the high half, n on the low half -/
  | An
  /-- BC -/
  | BC
  /-- OUTI/OUTD/OTIR/OTDR: B is decremented before the port address is formed -/
  | BCout
  deriving DecidableEq, Repr, Inhabited

inductive Cycle where
  /-- memory access or internal cycle: `n` T-states with `a` on the address bus -/
  | m (a : Addr) (n : Int)
  /-- one I/O cycle (4 T-states) -/
  | io (p : Port)
  deriving DecidableEq, Repr, Inhabited

/-- Two readings of the five extra cycles of a repeating OTIR/OTDR (`[bc:1 x5]` in the table):
* `documented`: BC as it is on the bus at that point — after the decrement of B, the same value the
  I/O cycle just used (this is also what FUSE does: `B--` first, then `contend_read_no_mreq(BC,1)` x5);
* `skoolkit`: BC as it was before the instruction (what `cmiosimulator.py` and `csimulator.c` do).
The two differ only when B-1 and B lie in different contention classes (B = 0x40, 0x80, and on a
128K with an odd bank at 0xC000 also B = 0xC0, 0x00). -/
inductive Variant where
  | documented | skoolkit
  deriving DecidableEq, Repr, Inhabited

abbrev P (k : Int) (n : Int) : Cycle := .m (.pc k) n
def x2 (c : Cycle) : List Cycle := [c, c]
def x4 (c : Cycle) : List Cycle := [c, c, c, c]
def x5 (c : Cycle) : List Cycle := [c, c, c, c, c]
def x7 (c : Cycle) : List Cycle := [c, c, c, c, c, c, c]

/-- does the encoding start with a prefix byte (DD/FD, CB or ED)? -/
def prefixed (i : ZInstr) : Bool := i.indexed || i.cbGroup || i.edGroup

/-- opcode fetches: `pc:4`, preceded by the prefix fetch `pc:4` for prefixed encodings (then the
opcode itself is `pc+1:4`) -/
def fetches (i : ZInstr) : List Cycle := if prefixed i then [P 0 4, P 1 4] else [P 0 4]

/-- offset of the first operand byte (n, nn or e) of a non-displacement instruction -/
def opnd (i : ZInstr) : Int := if prefixed i then 2 else 1

/-- `pc:4,pc+1:4,pc+2:3,pc+2:1 x5`: fetches and displacement of the DD/FD (non-CB) `(IX+d)` forms;
the five internal cycles compute IX+d -/
def dispFetch : List Cycle := [P 0 4, P 1 4, P 2 3] ++ x5 (P 2 1)

/-- `pc:4,pc+1:4,pc+2:3,pc+3:3,pc+3:1 x2`: DD CB d op / FD CB d op, and `LD (IX+d),n` (whose `n`
is fetched while IX+d is being computed) -/
def dispFetch4 : List Cycle := [P 0 4, P 1 4, P 2 3, P 3 3] ++ x2 (P 3 1)

/-- read of an 8-bit memory operand, after the fetches -/
def readLoc (i : ZInstr) (l : Loc8) : List Cycle :=
  match l with
  | .reg _ => fetches i
  | .imm => fetches i ++ [P (opnd i) 3]
  | .ind rp => [P 0 4, .m (.rp rp) 3]
  | .idx x => dispFetch ++ [.m (.ea x) 3]
  | .abs => [P 0 4, P 1 3, P 2 3, .m (.nn 1) 3]

/-- read-modify-write of an 8-bit operand in the main page (INC/DEC): `…:3, …:1, …(write):3` -/
def rmwLoc (i : ZInstr) (l : Loc8) : List Cycle :=
  match l with
  | .ind rp => [P 0 4, .m (.rp rp) 3, .m (.rp rp) 1, .m (.rp rp) 3]
  | .idx x => dispFetch ++ [.m (.ea x) 3, .m (.ea x) 1, .m (.ea x) 3]
  | _ => fetches i

/-- CB page: rotate/shift, BIT (`write = false`), RES, SET -/
def cbLoc (l : Loc8) (write : Bool) : List Cycle :=
  match l with
  | .ind rp => [P 0 4, P 1 4, .m (.rp rp) 3, .m (.rp rp) 1] ++ (if write then [.m (.rp rp) 3] else [])
  | .idx x => dispFetch4 ++ [.m (.ea x) 3, .m (.ea x) 1] ++ (if write then [.m (.ea x) 3] else [])
  | _ => [P 0 4, P 1 4]

def ld8Shape (i : ZInstr) (d s : Loc8) : List Cycle :=
  match d, s with
  | .reg a, .reg b => fetches i ++ (if a.isIR || b.isIR then [.m .ir 1] else [])
  | .reg _, s => readLoc i s
  | .ind rp, .reg _ => [P 0 4, .m (.rp rp) 3]
  | .ind rp, .imm => [P 0 4, P 1 3, .m (.rp rp) 3]
  | .idx x, .reg _ => dispFetch ++ [.m (.ea x) 3]
  | .idx x, .imm => dispFetch4 ++ [.m (.ea x) 3]
  | .abs, .reg _ => [P 0 4, P 1 3, P 2 3, .m (.nn 1) 3]
  | _, _ => fetches i

/-- The machine cycles of instruction `i`.  `taken`: the condition of a conditional jump / call /
return holds (unconditional ones: always), DJNZ jumps, a repeating block instruction repeats; for
HALT: the CPU is already halted. -/
def shape (v : Variant) (i : ZInstr) (taken : Bool) : List Cycle :=
  let f := fetches i
  let o := opnd i
  match i with
  | .nop | .prefixNop | .edNop => f
  | .ld8 d s => ld8Shape i d s
  | .ldAIR _ => f ++ [.m .ir 1]
  | .ld16imm _ => f ++ [P o 3, P (o + 1) 3]
  | .ld16load _ _ | .ld16store _ _ => f ++ [P o 3, P (o + 1) 3, .m (.nn o) 3, .m (.nn1 o) 3]
  | .ldSP _ | .inc16 _ | .dec16 _ => f ++ x2 (.m .ir 1)
  | .push _ => f ++ [.m .ir 1, .m (.sp (-1)) 3, .m (.sp (-2)) 3]
  | .pop _ => f ++ [.m (.sp 0) 3, .m (.sp 1) 3]
  | .exAF | .exx | .exDEHL | .acc _ | .di | .ei | .jpReg _ | .neg | .im _ => f
  | .exSP _ => f ++ [.m (.sp 0) 3, .m (.sp 1) 3, .m (.sp 1) 1, .m (.sp 1) 3, .m (.sp 0) 3] ++ x2 (.m (.sp 0) 1)
  | .alu8 _ src => readLoc i src
  | .inc8 l | .dec8 l => rmwLoc i l
  | .add16 _ _ | .adc16 _ | .sbc16 _ => f ++ x7 (.m .ir 1)
  | .rot _ l _ | .res _ l _ | .set _ l _ => cbLoc l true
  | .bit _ l => cbLoc l false
  | .jp _ => [P 0 4, P 1 3, P 2 3]
  | .jr _ => [P 0 4, P 1 3] ++ (if taken then x5 (P 1 1) else [])
  | .djnz => [P 0 4, .m .ir 1, P 1 3] ++ (if taken then x5 (P 1 1) else [])
  | .call _ => [P 0 4, P 1 3, P 2 3] ++ (if taken then [P 2 1, .m (.sp (-1)) 3, .m (.sp (-2)) 3] else [])
  | .ret none => [P 0 4, .m (.sp 0) 3, .m (.sp 1) 3]
  | .ret (some _) => [P 0 4, .m .ir 1] ++ (if taken then [.m (.sp 0) 3, .m (.sp 1) 3] else [])
  | .reti | .retn => f ++ [.m (.sp 0) 3, .m (.sp 1) 3]
  | .rst _ => [P 0 4, .m .ir 1, .m (.sp (-1)) 3, .m (.sp (-2)) 3]
  | .inA | .outA => [P 0 4, P 1 3, .io .An]
  | .inC _ | .outC _ => f ++ [.io .BC]
  | .block .LD _ _ => f ++ [.m (.rp .HL) 3, .m (.rp .DE) 3] ++ x2 (.m (.rp .DE) 1) ++ (if taken then x5 (.m (.rp .DE) 1) else [])
  | .block .CP _ _ => f ++ [.m (.rp .HL) 3] ++ x5 (.m (.rp .HL) 1) ++ (if taken then x5 (.m (.rp .HL) 1) else [])
  | .block .IN _ _ =>
    -- the port is read with B as it was; the byte is then written to (HL)
    f ++ [.m .ir 1, .io .BC, .m (.rp .HL) 3] ++ (if taken then x5 (.m (.rp .HL) 1) else [])
  | .block .OUT _ _ =>
    -- B is decremented before it appears on the address bus for the I/O cycle
    f ++ [.m .ir 1, .m (.rp .HL) 3, .io .BCout] ++
      (if taken then x5 (.m (match v with | .documented => .bcOut | .skoolkit => .rp .BC) 1) else [])
  | .halt =>
    -- Once halted the CPU executes NOPs, re-fetching (and ignoring) the byte that follows the HALT
    -- opcode.  Modelled as SkoolKit does: PC stays on the HALT opcode while halted and each 4 T-state
    -- step of the halted CPU shows PC+1 on the bus; the step that enters the halted state fetches
    -- the HALT opcode itself at PC.  (The contention tables do not list HALT separately; emulators
    -- differ in whether halted cycles are contended at PC, at PC+1, or not at all.)
    if taken then [P 1 4] else [P 0 4]
  | .rld | .rrd => f ++ [.m (.rp .HL) 3] ++ x4 (.m (.rp .HL) 1) ++ [.m (.rp .HL) 3]

/-- T-states of a list of cycles without any wait -/
def cyclesLen : List Cycle → Int
  | [] => 0
  | .m _ n :: l => n + cyclesLen l
  | .io _ :: l => 4 + cyclesLen l

/-! ### evaluation in a machine state -/

variable {μ : Type} [MemLike μ]

/-- which of the two shapes applies in state `s` -/
def branch (s : St μ) (i : ZInstr) : Bool :=
  match i with
  | .jp cc | .jr cc | .call cc | .ret cc => ccHolds cc (r8 s .F)
  | .djnz => decide ((r8 s .B - 1) % 256 ≠ 0)
  | .block k _ rep =>
    rep && (match k with
      | .LD => decide ((r16 s .BC - 1) % 65536 ≠ 0)
      | .CP => decide ((r16 s .BC - 1) % 65536 ≠ 0) && decide (r8 s .A ≠ rd s (r16 s .HL))
      | .IN | .OUT => decide ((r8 s .B - 1) % 256 ≠ 0))
  | .halt => decide (s.halt ≠ 0)
  | _ => false

/-- the combinations of instruction and `taken` that can occur -/
def branchPossible (i : ZInstr) (b : Bool) : Bool :=
  match i with
  | .jp none | .jr none | .call none | .ret none => b
  | .jp _ | .jr _ | .call _ | .ret _ | .djnz | .halt => true
  | .block _ _ rep => rep || !b
  | _ => !b

def addrVal (s : St μ) : Addr → Int
  | .pc k => (s.pc + k) % 65536
  | .rp r => r16 s r
  | .sp k => (sp s + k) % 65536
  | .ir => r8 s .R + 256 * r8 s .I
  | .ea x => (r16 s x + sgn8 (dispByte s s.pc)) % 65536
  | .nn o => rd s ((s.pc + o) % 65536) + 256 * rd s ((s.pc + (o + 1)) % 65536)
  | .nn1 o => (rd s ((s.pc + o) % 65536) + 256 * rd s ((s.pc + (o + 1)) % 65536) + 1) % 65536
  | .bcOut => r8 s .C + 256 * ((r8 s .B - 1) % 256)

def portVal (s : St μ) : Port → Int
  | .An => rd s ((s.pc + 1) % 65536) + 256 * r8 s .A
  | .BC => r16 s .BC
  | .BCout => r8 s .C + 256 * ((r8 s .B - 1) % 256)

/-- the cycles instruction `i` performs when started in state `s` -/
def busCycles (v : Variant) (s : St μ) (i : ZInstr) : List Cycle := shape v i (branch s i)

/-! ### contention -/

/-- the wait pattern within each group of 8 T-states -/
def pattern (k : Int) : Int :=
  if k = 0 then 6 else if k = 1 then 5 else if k = 2 then 4 else if k = 3 then 3
  else if k = 4 then 2 else if k = 5 then 1 else 0

/-- Wait inserted before a contended access that starts at frame position `t`: during the 128
T-states of each of the 192 display lines in which the ULA fetches screen data, `pattern` repeats
every 8 T-states, starting at T-state `first` of the frame; lines are `line` T-states apart. -/
def ulaWait (first line frame t : Int) : Int :=
  let k := t - first
  if 0 ≤ k ∧ k < 192 * line ∧ k % line < 128 ∧ t < frame then pattern ((k % line) % 8) else 0

/-- 48K: 14335, 224 T-states per line, 69888 per frame; 128K: 14361, 228, 70908 -/
def wait (m : μ) (t : Int) : Int :=
  if MemLike.is128 m then ulaWait 14361 228 70908 t else ulaWait 14335 224 69888 t

/-- Memory the ULA shares with the CPU: 0x4000-0x7FFF, and on a 128K machine 0xC000-0xFFFF while an
odd RAM bank (1, 3, 5, 7) is paged in there. -/
def contended (m : μ) (a : Int) : Bool :=
  (decide (0x4000 ≤ a) && decide (a < 0x8000)) ||
    (MemLike.is128 m && decide (MemLike.o7ffd m % 2 ≠ 0) && decide (0xC000 ≤ a))

/-- The four documented I/O cases, as (contended?, T-states) pieces:

    high byte contended?  low bit   pattern
    no                    reset     N:1, C:3
    no                    set       N:4
    yes                   reset     C:1, C:3
    yes                   set       C:1, C:1, C:1, C:1 -/
def ioPieces (hiContended lowBitSet : Bool) : List (Bool × Int) :=
  match hiContended, lowBitSet with
  | false, false => [(false, 1), (true, 3)]
  | false, true => [(false, 4)]
  | true, false => [(true, 1), (true, 3)]
  | true, true => [(true, 1), (true, 1), (true, 1), (true, 1)]

/-- cycles → (contended?, T-states) pieces, in order -/
def pieces (s : St μ) : List Cycle → List (Bool × Int)
  | [] => []
  | .m a n :: l => (contended s.mem (addrVal s a), n) :: pieces s l
  | .io p :: l => ioPieces (contended s.mem (portVal s p)) (portVal s p % 2 != 0) ++ pieces s l

/-- sum of the waits, each taken at the frame position at which its piece begins -/
def delayFrom (m : μ) : Int → List (Bool × Int) → Int
  | _, [] => 0
  | t, (c, n) :: l =>
    let w := if c then wait m t else 0
    w + delayFrom m (t + w + n) l

/-- **Extra T-states the ULA imposes on instruction `i` started in state `s`.** -/
def busDelay (v : Variant) (cfg : Cfg) (s : St μ) (i : ZInstr) : Int :=
  delayFrom s.mem (s.t % cfg.frame_duration) (pieces s (busCycles v s i))

/-- is any address (or port) the instruction puts on the bus contended? -/
def anyContended (v : Variant) (s : St μ) (i : ZInstr) : Bool :=
  (pieces s (busCycles v s i)).any (fun p => p.1)

end Z80Bus
