import SkoolVerif.Model.OpText
/-!
Independent specifications C02's models are proved against (written from the
Z80 manual / the documented behaviour, not from the code).
-/
namespace OperandSpec
open OpText

/-- Quote-aware splitting, one pass over the characters: `q` = inside a
double-quoted string, `esc` = the previous character was a backslash inside
quotes (so this one is taken literally), `cur` = the element being built.  A
separator splits only outside quotes. -/
def splitCL (sep : Nat) : Bool → Bool → Txt → Txt → List Txt
  | _, _, cur, [] => [cur]
  | q, esc, cur, c :: rest =>
    if c = sep then
      if q then splitCL sep q false (cur ++ [c]) rest
      else cur :: splitCL sep false false [] rest
    else if esc then splitCL sep q false (cur ++ [c]) rest
    else if c = 34 then splitCL sep (!q) false (cur ++ [c]) rest
    else if c = 92 ∧ q then splitCL sep q true (cur ++ [c]) rest
    else splitCL sep q false (cur ++ [c]) rest

/-- Scanner state after an item; `none` if the item contains a separator
outside quotes. -/
def itemEnd (sep : Nat) : Bool → Bool → Txt → Option (Bool × Bool)
  | q, esc, [] => some (q, esc)
  | q, esc, c :: rest =>
    if c = sep then (if q then itemEnd sep q false rest else none)
    else if esc then itemEnd sep q false rest
    else if c = 34 then itemEnd sep (!q) false rest
    else if c = 92 ∧ q then itemEnd sep q true rest
    else itemEnd sep q false rest

/-- An item that can be separator-joined and split again: no separator outside
quotes, quotes balanced (escapes honoured). -/
def SafeItem (sep : Nat) (it : Txt) : Prop := itemEnd sep false false it = some (false, false)

/-- Z80: a relative jump `JR/DJNZ e` at address `a` with displacement byte `b`
continues at `a + 2 + signed(b)` modulo 64K. -/
def relTarget (a b : Nat) : Nat := (a + 2 + (if b < 128 then b else b + 65536 - 256)) % 65536

/-- Z80: the effective displacement of `(IX+d)` is the signed value of the byte. -/
def signedByte (b : Nat) : Int := if b < 128 then (b : Int) else (b : Int) - 256

end OperandSpec
