/-
Independent specification side of C11: what a tape *means*, written from the
TAP/TZX/PZX format documents and not from skoolkit's code.

* a tape signal is a list of edge times; the pulses are the distances between
  consecutive edges (`diffs`);
* a data block with bit-pulse sequences `zero`/`one` carries the bits of its
  bytes most significant first, the last byte contributing only `usedBits`
  bits (`dataBits`), each bit being sent as its whole pulse sequence
  (`bitPulses`);
* a loader recovers the bits by measuring the pulses and classifying them
  against the two sequences (`decodeBits`);
* the level of the signal at time `t` is the parity of the number of edges
  that have happened (`level`).

No imports.
-/
namespace EdgeSpec

/-- Running sums: the edge times produced by pulses `ds` starting at time `t`. -/
def cumsum (t : Int) : List Nat → List Int
  | [] => []
  | d :: ds => (t + d) :: cumsum (t + d) ds

/-- Distances between consecutive edges. -/
def diffs : List Int → List Int
  | a :: b :: rest => (b - a) :: diffs (b :: rest)
  | _ => []

/-- Bit `7 - j` of a byte, for `j = 0 … n-1` (most significant first). -/
def msbBits (b : Nat) (n : Nat) : List Bool :=
  (List.range n).map fun j => b.testBit (7 - j)

/-- The bits carried by a data block: 8 per byte, `usedBits` of the last. -/
def dataBits (ub : Nat) : List Nat → List Bool
  | [] => []
  | [b] => msbBits b (min ub 8)
  | b :: rest => msbBits b 8 ++ dataBits ub rest

/-- The pulses that encode a bit string. -/
def bitPulses (zero one : List Nat) (bits : List Bool) : List Nat :=
  bits.flatMap fun b => if b then one else zero

/-- `pre` is a prefix of `l` (Boolean, by recursion). -/
def startsWith : List Int → List Nat → Bool
  | _, [] => true
  | [], _ :: _ => false
  | x :: xs, p :: ps => x == (p : Int) && startsWith xs ps

/-- Classify measured pulse lengths against the `zero` / `one` sequences,
greedily, `zero` first.  `none` = the pulses are not a bit stream. -/
def decodeFuel (zero one : List Nat) : Nat → List Int → Option (List Bool)
  | _, [] => some []
  | 0, _ :: _ => none
  | fuel + 1, ds =>
    if startsWith ds zero then (decodeFuel zero one fuel (ds.drop zero.length)).map (false :: ·)
    else if startsWith ds one then (decodeFuel zero one fuel (ds.drop one.length)).map (true :: ·)
    else none

def decodeBits (zero one : List Nat) (ds : List Int) : Option (List Bool) :=
  decodeFuel zero one ds.length ds

/-- Neither bit sequence is a prefix of the other (in particular both are
non-empty and they differ): the condition under which a pulse train can be
decoded at all. -/
def PrefixFree (zero one : List Nat) : Prop := ¬ zero <+: one ∧ ¬ one <+: zero

/-- Signal level at time `t`: parity of the number of edges at or before `t`. -/
def level (edges : List Int) (t : Int) : Nat := (edges.countP (· ≤ t)) % 2

/-- `(count, duration)` pairs to individual pulses. -/
def tonePulses (pulses : List (Nat × Nat)) : List Nat :=
  pulses.flatMap fun cd => List.replicate cd.1 cd.2

end EdgeSpec

namespace EdgeSpec

/-- What a tape *is*, format-independently: pulses (each ends with an edge) and gaps
(silence: time passes, no edge). -/
inductive Ev
  | pulse (d : Nat)
  | gap (d : Nat)
  deriving DecidableEq, Repr

/-- The edge times of a sequence of events played from time `t`. -/
def playEvents (t : Int) : List Ev → List Int
  | [] => []
  | .pulse d :: r => (t + d) :: playEvents (t + d) r
  | .gap d :: r => playEvents (t + d) r

/-- Total duration of a sequence of events. -/
def evTotal : List Ev → Int
  | [] => 0
  | .pulse d :: r => d + evTotal r
  | .gap d :: r => d + evTotal r

end EdgeSpec
