/-!
Independent bit-level specification of the Z80's 8-bit ALU, rotate/shift, BIT, DAA and
accumulator/flag instructions, written from the Z80 CPU User Manual and "The Undocumented Z80
Documented" (S Z 5 H 3 P/V N C = bits 7..0 of F) — not from skoolkit's formulas.
Everything is over `Nat` bytes.  Core Lean only.
-/
namespace Z80Spec

def bit (v k : Nat) : Bool := v.testBit k
def fl (b : Bool) (mask : Nat) : Nat := if b then mask else 0

/-- signed value of a byte -/
def sgn (v : Nat) : Int := if v < 128 then (v : Int) else (v : Int) - 256

/-- even parity of the 8 low bits -/
def parityEven (v : Nat) : Bool :=
  !(bit v 0 ^^ bit v 1 ^^ bit v 2 ^^ bit v 3 ^^ bit v 4 ^^ bit v 5 ^^ bit v 6 ^^ bit v 7)

/-- assemble F from its eight bits -/
def mkF (s z f5 h f3 pv n c : Bool) : Nat :=
  fl s 0x80 + fl z 0x40 + fl f5 0x20 + fl h 0x10 + fl f3 0x08 + fl pv 0x04 + fl n 0x02 + fl c 0x01

/-- S, Z, 5, 3 from a result byte; caller supplies H, P/V, N, C -/
def fromResult (r : Nat) (h pv n c : Bool) : Nat :=
  mkF (bit r 7) (r == 0) (bit r 5) h (bit r 3) pv n c

/-- ADD/ADC A,n with carry-in `c` (0/1) -/
def adc (c a n : Nat) : Nat × Nat :=
  let sum := a + n + c
  let r := sum % 256
  let h := a % 16 + n % 16 + c > 15
  let s := sgn a + sgn n + (c : Int)
  let ov := s < -128 || s > 127
  (r, fromResult r h ov false (sum > 255))

/-- SUB/SBC A,n with borrow-in `c` -/
def sbc (c a n : Nat) : Nat × Nat :=
  let r := (a + 512 - n - c) % 256
  let h := a % 16 < n % 16 + c
  let s := sgn a - sgn n - (c : Int)
  let ov := s < -128 || s > 127
  (r, fromResult r h ov true (a < n + c))

/-- CP n: flags of SUB, but bits 5 and 3 come from the operand; A unchanged -/
def cp (a n : Nat) : Nat × Nat :=
  let r := (a + 256 - n) % 256
  let h := a % 16 < n % 16
  let s := sgn a - sgn n
  let ov := s < -128 || s > 127
  (a, mkF (bit r 7) (r == 0) (bit n 5) h (bit n 3) ov true (a < n))

def and_ (a n : Nat) : Nat × Nat := let r := a &&& n; (r, fromResult r true (parityEven r) false false)
def or_ (a n : Nat) : Nat × Nat := let r := a ||| n; (r, fromResult r false (parityEven r) false false)
def xor_ (a n : Nat) : Nat × Nat := let r := a ^^^ n; (r, fromResult r false (parityEven r) false false)

/-- INC r (carry flag `c` preserved) -/
def inc (c v : Nat) : Nat × Nat :=
  let r := (v + 1) % 256
  (r, fromResult r (v % 16 == 15) (v == 0x7F) false (c == 1))

/-- DEC r -/
def dec (c v : Nat) : Nat × Nat :=
  let r := (v + 255) % 256
  (r, fromResult r (v % 16 == 0) (v == 0x80) true (c == 1))

/-- NEG = 0 - A -/
def neg (a : Nat) : Nat × Nat := sbc 0 0 a

/-- flags of the CB rotates/shifts: S Z 5 3 P from result, H = N = 0, C = bit shifted out -/
def shiftFlags (r : Nat) (cout : Bool) : Nat := fromResult r false (parityEven r) false cout

def rlc (v : Nat) : Nat × Nat := let r := (v * 2) % 256 + v / 128; (r, shiftFlags r (bit v 7))
def rrc (v : Nat) : Nat × Nat := let r := v / 2 + (v % 2) * 128; (r, shiftFlags r (bit v 0))
def rl (c v : Nat) : Nat × Nat := let r := (v * 2) % 256 + c; (r, shiftFlags r (bit v 7))
def rr (c v : Nat) : Nat × Nat := let r := v / 2 + c * 128; (r, shiftFlags r (bit v 0))
def sla (v : Nat) : Nat × Nat := let r := (v * 2) % 256; (r, shiftFlags r (bit v 7))
def sll (v : Nat) : Nat × Nat := let r := (v * 2) % 256 + 1; (r, shiftFlags r (bit v 7))
def sra (v : Nat) : Nat × Nat := let r := v / 2 + (v / 128) * 128; (r, shiftFlags r (bit v 0))
def srl (v : Nat) : Nat × Nat := let r := v / 2; (r, shiftFlags r (bit v 0))

/-- flags of RLCA/RRCA/RLA/RRA: S Z P/V preserved, 5 3 from the new A, H = N = 0 -/
def accRotFlags (f r : Nat) (cout : Bool) : Nat :=
  mkF (bit f 7) (bit f 6) (bit r 5) false (bit r 3) (bit f 2) false cout

def rlca (a f : Nat) : Nat × Nat := let r := (rlc a).1; (r, accRotFlags f r (bit a 7))
def rrca (a f : Nat) : Nat × Nat := let r := (rrc a).1; (r, accRotFlags f r (bit a 0))
def rla (a f : Nat) : Nat × Nat := let r := (rl (f % 2) a).1; (r, accRotFlags f r (bit a 7))
def rra (a f : Nat) : Nat × Nat := let r := (rr (f % 2) a).1; (r, accRotFlags f r (bit a 0))

/-- CPL: A := ~A; H = N = 1; 5 3 from the new A; S Z P/V C preserved -/
def cpl (a f : Nat) : Nat × Nat :=
  let r := 255 - a
  (r, mkF (bit f 7) (bit f 6) (bit r 5) true (bit r 3) (bit f 2) true (bit f 0))

/-- SCF: C = 1, H = N = 0, 5 3 from A -/
def scf (f a : Nat) : Nat := mkF (bit f 7) (bit f 6) (bit a 5) false (bit a 3) (bit f 2) false true
/-- CCF: C inverted, H = old C, N = 0, 5 3 from A -/
def ccf (f a : Nat) : Nat := mkF (bit f 7) (bit f 6) (bit a 5) (bit f 0) (bit a 3) (bit f 2) false (!bit f 0)

/-- DAA, by the documented correction rules (N = f.1, H = f.4, C = f.0). -/
def daa (a f : Nat) : Nat × Nat :=
  let n := bit f 1; let h := bit f 4; let c := bit f 0
  let lo := a % 16
  let corrLo : Nat := if h || lo > 9 then 6 else 0
  let corrHi : Nat := if c || a > 0x99 then 0x60 else 0
  let corr := corrLo + corrHi
  let r := if n then (a + 256 - corr) % 256 else (a + corr) % 256
  let cout := c || a > 0x99
  let hout := if n then h && lo < 6 else lo > 9
  (r, fromResult r hout (parityEven r) n cout)

/-- BIT b,r (register form): Z = P/V = complement of the bit, S = the bit if b = 7, H = 1, N = 0,
5 3 from the operand, C preserved -/
def bitTest (c b v : Nat) : Nat :=
  let t := bit v b
  mkF (b == 7 && t) (!t) (bit v 5) true (bit v 3) (!t) false (c == 1)

/-- S Z 5 3 P of a value (IN r,(C), RLD/RRD ...) -/
def sz53p (v : Nat) : Nat := fromResult v false (parityEven v) false false

end Z80Spec
