/-!
ISA-level vocabulary of the Z80: registers, operand addressing modes, conditions and an
instruction AST `ZInstr`, together with each instruction's length in bytes, its T-state count(s)
and its number of opcode-fetch (M1) cycles — written from the Z80 CPU User Manual instruction
tables and "The Undocumented Z80 Documented" (IXh/IXl/IYh/IYl forms, SLL, DDCB/FDCB register
copies, ED duplicates, `OUT (C),0`, `IN (C)`), **not** from skoolkit's closures.

Nothing here mentions the implementation's closure names, argument conventions or tables.
Core Lean only.
-/
namespace Z80Isa

/-- 8-bit registers an instruction can name.  `F` only occurs in `IN F,(C)` (flags only) and in
`PUSH/POP AF`; `I`, `R` only in `LD A,I` &c. -/
inductive Reg8 where
  | A | F | B | C | D | E | H | L | IXh | IXl | IYh | IYl | I | R
  deriving DecidableEq, Repr, Inhabited

/-- 16-bit register pairs. -/
inductive Reg16 where
  | BC | DE | HL | SP | IX | IY | AF
  deriving DecidableEq, Repr, Inhabited

/-- Where an 8-bit operand lives. -/
inductive Loc8 where
  /-- a register -/
  | reg (r : Reg8)
  /-- `(BC)`, `(DE)`, `(HL)` -/
  | ind (rp : Reg16)
  /-- `(IX+d)` / `(IY+d)`; `d` is the signed byte at offset 2 of the instruction -/
  | idx (rp : Reg16)
  /-- `n`: the last byte of the instruction -/
  | imm
  /-- `(nn)`: `nn` = the last two bytes of the instruction -/
  | abs
  deriving DecidableEq, Repr, Inhabited

inductive AluOp where
  | ADD | ADC | SUB | SBC | AND | XOR | OR | CP
  deriving DecidableEq, Repr, Inhabited

inductive RotOp where
  | RLC | RRC | RL | RR | SLA | SRA | SLL | SRL
  deriving DecidableEq, Repr, Inhabited

/-- the eight one-byte accumulator/flag operations of column `x=0, z=7` -/
inductive AccOp where
  | RLCA | RRCA | RLA | RRA | DAA | CPL | SCF | CCF
  deriving DecidableEq, Repr, Inhabited

inductive Cond where
  | NZ | Z | NC | C | PO | PE | P | M
  deriving DecidableEq, Repr, Inhabited

inductive BlockKind where
  | LD | CP | IN | OUT
  deriving DecidableEq, Repr, Inhabited

/-- One Z80 instruction (operands as addressing modes, immediates left in memory). -/
inductive ZInstr where
  | nop
  /-- `DD`/`FD` in front of an opcode that does not use HL/H/L/(HL) (or in front of another
  `DD`/`ED`/`FD`): behaves as a one-byte, 4 T-state NOP; the following opcode is then executed as
  an instruction of its own. -/
  | prefixNop
  /-- an `ED xx` pair with no function: two-byte, 8 T-state NOP -/
  | edNop
  | ld8 (dst src : Loc8)
  /-- `LD A,I` / `LD A,R` (these, unlike `ld8`, affect the flags) -/
  | ldAIR (r : Reg8)
  /-- `LD rp,nn` -/
  | ld16imm (rp : Reg16)
  /-- `LD rp,(nn)`; `ed` = the four-byte `ED`-prefixed encoding -/
  | ld16load (rp : Reg16) (ed : Bool)
  /-- `LD (nn),rp` -/
  | ld16store (rp : Reg16) (ed : Bool)
  /-- `LD SP,HL/IX/IY` -/
  | ldSP (rp : Reg16)
  | push (rp : Reg16)
  | pop (rp : Reg16)
  | exAF
  | exx
  | exDEHL
  /-- `EX (SP),HL/IX/IY` -/
  | exSP (rp : Reg16)
  | alu8 (op : AluOp) (src : Loc8)
  | inc8 (loc : Loc8)
  | dec8 (loc : Loc8)
  | acc (op : AccOp)
  | neg
  /-- `ADD HL/IX/IY,rp` -/
  | add16 (dst src : Reg16)
  | adc16 (src : Reg16)
  | sbc16 (src : Reg16)
  | inc16 (rp : Reg16)
  | dec16 (rp : Reg16)
  /-- CB-group rotate/shift; `copy` = the undocumented `LD r,<op> (IX+d)` register copy -/
  | rot (op : RotOp) (loc : Loc8) (copy : Option Reg8)
  | bit (n : Nat) (loc : Loc8)
  | res (n : Nat) (loc : Loc8) (copy : Option Reg8)
  | set (n : Nat) (loc : Loc8) (copy : Option Reg8)
  | jp (cc : Option Cond)
  /-- `JP (HL)/(IX)/(IY)` -/
  | jpReg (rp : Reg16)
  | jr (cc : Option Cond)
  | djnz
  | call (cc : Option Cond)
  | ret (cc : Option Cond)
  | reti
  | retn
  | rst (addr : Nat)
  /-- `IN A,(n)` -/
  | inA
  /-- `OUT (n),A` -/
  | outA
  /-- `IN r,(C)`; `none` = `IN (C)` / `IN F,(C)`: flags only -/
  | inC (r : Option Reg8)
  /-- `OUT (C),r`; `none` = `OUT (C),0` -/
  | outC (r : Option Reg8)
  /-- LDI/LDD/LDIR/LDDR, CPI/…, INI/…, OUTI/… -/
  | block (kind : BlockKind) (dec : Bool) (rep : Bool)
  | im (mode : Nat)
  | di
  | ei
  | halt
  | rld
  | rrd
  deriving DecidableEq, Repr, Inhabited

/-! ### operand classification -/

def Reg8.isIdxHalf : Reg8 → Bool
  | .IXh | .IXl | .IYh | .IYl => true
  | _ => false

def Reg8.isIR : Reg8 → Bool
  | .I | .R => true
  | _ => false

def Reg16.isIdx : Reg16 → Bool
  | .IX | .IY => true
  | _ => false

def Loc8.usesIdx : Loc8 → Bool
  | .reg r => r.isIdxHalf
  | .idx _ => true
  | _ => false

def Loc8.isDisp : Loc8 → Bool
  | .idx _ => true
  | _ => false

def optIdxHalf : Option Reg8 → Bool
  | some r => r.isIdxHalf
  | none => false

/-- Is the instruction encoded with a `DD`/`FD` prefix? (it names IX/IY, a half of them, or
`(IX+d)`/`(IY+d)`) -/
def ZInstr.indexed : ZInstr → Bool
  | .ld8 d s => d.usesIdx || s.usesIdx
  | .ld16imm rp | .ld16load rp _ | .ld16store rp _ | .ldSP rp | .push rp | .pop rp | .exSP rp
  | .inc16 rp | .dec16 rp | .jpReg rp => rp.isIdx
  | .alu8 _ l | .inc8 l | .dec8 l => l.usesIdx
  | .add16 d _ => d.isIdx
  | .rot _ l _ | .bit _ l | .res _ l _ | .set _ l _ => l.usesIdx
  | _ => false

/-- Does the instruction carry a displacement byte `d`? -/
def ZInstr.hasDisp : ZInstr → Bool
  | .ld8 d s => d.isDisp || s.isDisp
  | .alu8 _ l | .inc8 l | .dec8 l | .rot _ l _ | .bit _ l | .res _ l _ | .set _ l _ => l.isDisp
  | _ => false

/-- Instructions of the `CB` page. -/
def ZInstr.cbGroup : ZInstr → Bool
  | .rot .. | .bit .. | .res .. | .set .. => true
  | _ => false

/-- Instructions of the `ED` page. -/
def ZInstr.edGroup : ZInstr → Bool
  | .edNop | .ldAIR _ | .neg | .adc16 _ | .sbc16 _ | .reti | .retn | .inC _ | .outC _ | .block ..
  | .im _ | .rld | .rrd => true
  | .ld16load _ ed | .ld16store _ ed => ed
  | .ld8 (.reg d) (.reg s) => d.isIR || s.isIR
  | _ => false

/-! ### length -/

/-- number of immediate operand bytes (n, nn, e) — the displacement `d` is counted separately -/
def ZInstr.immBytes : ZInstr → Nat
  | .ld8 d s => (if d = .imm || s = .imm then 1 else 0) + (if d = .abs || s = .abs then 2 else 0)
  | .alu8 _ l => if l = .imm then 1 else 0
  | .ld16imm _ | .ld16load .. | .ld16store .. => 2
  | .jp _ | .call _ => 2
  | .jr _ | .djnz | .inA | .outA => 1
  | _ => 0

/-- Length in bytes: prefix bytes + opcode + displacement + immediates. -/
def ZInstr.size (i : ZInstr) : Nat :=
  1 + (if i.indexed then 1 else 0) + (if i.cbGroup || i.edGroup then 1 else 0)
    + (if i.hasDisp then 1 else 0) + i.immBytes

/-- Number of M1 (opcode fetch) cycles = how many times R is incremented.  Every prefix byte and
the opcode are fetched with M1, except the final opcode byte of `DD CB d op` / `FD CB d op`, which
is read by a normal memory read. -/
def ZInstr.m1 (i : ZInstr) : Nat :=
  if i.indexed || i.cbGroup || i.edGroup then 2 else 1

/-! ### T-states

`time i = (t, t')`: `t` when a conditional instruction's condition is false / a repeating
instruction terminates / the instruction is unconditional; `t'` when the condition is true /
the block instruction repeats.  Totals as printed in the Z80 CPU User Manual; the undocumented
forms cost what their documented counterparts cost (+4 for the prefix fetch). -/

def timeLd8 (d s : Loc8) : Nat :=
  match d, s with
  | .reg r, .reg r' => if r.isIR || r'.isIR then 9 else if r.isIdxHalf || r'.isIdxHalf then 8 else 4
  | .reg r, .imm => if r.isIdxHalf then 11 else 7
  | .reg _, .ind _ => 7
  | .ind _, .reg _ => 7
  | .ind _, .imm => 10
  | .reg _, .idx _ => 19
  | .idx _, .reg _ => 19
  | .idx _, .imm => 19
  | .reg _, .abs => 13
  | .abs, .reg _ => 13
  | _, _ => 0

/-- ALU A,operand -/
def timeAlu (l : Loc8) : Nat :=
  match l with
  | .reg r => if r.isIdxHalf then 8 else 4
  | .ind _ => 7
  | .imm => 7
  | .idx _ => 19
  | .abs => 0

/-- INC/DEC operand -/
def timeIncDec (l : Loc8) : Nat :=
  match l with
  | .reg r => if r.isIdxHalf then 8 else 4
  | .ind _ => 11
  | .idx _ => 23
  | _ => 0

/-- rotate/shift, RES, SET (read-modify-write) -/
def timeRmw (l : Loc8) : Nat :=
  match l with
  | .reg _ => 8
  | .ind _ => 15
  | .idx _ => 23
  | _ => 0

def timeBit (l : Loc8) : Nat :=
  match l with
  | .reg _ => 8
  | .ind _ => 12
  | .idx _ => 20
  | _ => 0

def ix (rp : Reg16) (plain indexed : Nat) : Nat := if rp.isIdx then indexed else plain

def ZInstr.time : ZInstr → Nat × Nat
  | .nop => (4, 4)
  | .prefixNop => (4, 4)
  | .edNop => (8, 8)
  | .ld8 d s => (timeLd8 d s, timeLd8 d s)
  | .ldAIR _ => (9, 9)
  | .ld16imm rp => (ix rp 10 14, ix rp 10 14)
  | .ld16load rp ed => let t := if ed then 20 else ix rp 16 20; (t, t)
  | .ld16store rp ed => let t := if ed then 20 else ix rp 16 20; (t, t)
  | .ldSP rp => (ix rp 6 10, ix rp 6 10)
  | .push rp => (ix rp 11 15, ix rp 11 15)
  | .pop rp => (ix rp 10 14, ix rp 10 14)
  | .exAF => (4, 4)
  | .exx => (4, 4)
  | .exDEHL => (4, 4)
  | .exSP rp => (ix rp 19 23, ix rp 19 23)
  | .alu8 _ l => (timeAlu l, timeAlu l)
  | .inc8 l => (timeIncDec l, timeIncDec l)
  | .dec8 l => (timeIncDec l, timeIncDec l)
  | .acc _ => (4, 4)
  | .neg => (8, 8)
  | .add16 d _ => (ix d 11 15, ix d 11 15)
  | .adc16 _ => (15, 15)
  | .sbc16 _ => (15, 15)
  | .inc16 rp => (ix rp 6 10, ix rp 6 10)
  | .dec16 rp => (ix rp 6 10, ix rp 6 10)
  | .rot _ l _ => (timeRmw l, timeRmw l)
  | .bit _ l => (timeBit l, timeBit l)
  | .res _ l _ => (timeRmw l, timeRmw l)
  | .set _ l _ => (timeRmw l, timeRmw l)
  | .jp _ => (10, 10)
  | .jpReg rp => (ix rp 4 8, ix rp 4 8)
  | .jr none => (12, 12)
  | .jr (some _) => (7, 12)
  | .djnz => (8, 13)
  | .call none => (17, 17)
  | .call (some _) => (10, 17)
  | .ret none => (10, 10)
  | .ret (some _) => (5, 11)
  | .reti => (14, 14)
  | .retn => (14, 14)
  | .rst _ => (11, 11)
  | .inA => (11, 11)
  | .outA => (11, 11)
  | .inC _ => (12, 12)
  | .outC _ => (12, 12)
  | .block _ _ rep => (16, if rep then 21 else 16)
  | .im _ => (8, 8)
  | .di => (4, 4)
  | .ei => (4, 4)
  | .halt => (4, 4)
  | .rld => (18, 18)
  | .rrd => (18, 18)

/-! ### mnemonics (for messages only) -/

def Reg8.name : Reg8 → String
  | .A => "A" | .F => "F" | .B => "B" | .C => "C" | .D => "D" | .E => "E" | .H => "H" | .L => "L"
  | .IXh => "IXh" | .IXl => "IXl" | .IYh => "IYh" | .IYl => "IYl" | .I => "I" | .R => "R"

def Reg16.name : Reg16 → String
  | .BC => "BC" | .DE => "DE" | .HL => "HL" | .SP => "SP" | .IX => "IX" | .IY => "IY" | .AF => "AF"

def Loc8.name : Loc8 → String
  | .reg r => r.name
  | .ind rp => s!"({rp.name})"
  | .idx rp => s!"({rp.name}+d)"
  | .imm => "n"
  | .abs => "(nn)"

def Cond.name : Cond → String
  | .NZ => "NZ" | .Z => "Z" | .NC => "NC" | .C => "C" | .PO => "PO" | .PE => "PE" | .P => "P" | .M => "M"

def ccName : Option Cond → String
  | none => ""
  | some c => c.name ++ ","

def copyName : Option Reg8 → String
  | none => ""
  | some r => "," ++ r.name

def AluOp.name : AluOp → String
  | .ADD => "ADD A," | .ADC => "ADC A," | .SUB => "SUB " | .SBC => "SBC A," | .AND => "AND "
  | .XOR => "XOR " | .OR => "OR " | .CP => "CP "

def RotOp.name : RotOp → String
  | .RLC => "RLC" | .RRC => "RRC" | .RL => "RL" | .RR => "RR" | .SLA => "SLA" | .SRA => "SRA"
  | .SLL => "SLL" | .SRL => "SRL"

def AccOp.name : AccOp → String
  | .RLCA => "RLCA" | .RRCA => "RRCA" | .RLA => "RLA" | .RRA => "RRA" | .DAA => "DAA" | .CPL => "CPL"
  | .SCF => "SCF" | .CCF => "CCF"

def blockName (k : BlockKind) (dec rep : Bool) : String :=
  match k, dec, rep with
  | .LD, false, false => "LDI" | .LD, true, false => "LDD" | .LD, false, true => "LDIR" | .LD, true, true => "LDDR"
  | .CP, false, false => "CPI" | .CP, true, false => "CPD" | .CP, false, true => "CPIR" | .CP, true, true => "CPDR"
  | .IN, false, false => "INI" | .IN, true, false => "IND" | .IN, false, true => "INIR" | .IN, true, true => "INDR"
  | .OUT, false, false => "OUTI" | .OUT, true, false => "OUTD" | .OUT, false, true => "OTIR" | .OUT, true, true => "OTDR"

def ZInstr.mnemonic : ZInstr → String
  | .nop => "NOP"
  | .prefixNop => "[prefix]"
  | .edNop => "NOP*"
  | .ld8 d s => s!"LD {d.name},{s.name}"
  | .ldAIR r => s!"LD A,{r.name}"
  | .ld16imm rp => s!"LD {rp.name},nn"
  | .ld16load rp _ => s!"LD {rp.name},(nn)"
  | .ld16store rp _ => s!"LD (nn),{rp.name}"
  | .ldSP rp => s!"LD SP,{rp.name}"
  | .push rp => s!"PUSH {rp.name}"
  | .pop rp => s!"POP {rp.name}"
  | .exAF => "EX AF,AF'"
  | .exx => "EXX"
  | .exDEHL => "EX DE,HL"
  | .exSP rp => s!"EX (SP),{rp.name}"
  | .alu8 op l => op.name ++ l.name
  | .inc8 l => s!"INC {l.name}"
  | .dec8 l => s!"DEC {l.name}"
  | .acc op => op.name
  | .neg => "NEG"
  | .add16 d s => s!"ADD {d.name},{s.name}"
  | .adc16 s => s!"ADC HL,{s.name}"
  | .sbc16 s => s!"SBC HL,{s.name}"
  | .inc16 rp => s!"INC {rp.name}"
  | .dec16 rp => s!"DEC {rp.name}"
  | .rot op l c => s!"{op.name} {l.name}{copyName c}"
  | .bit n l => s!"BIT {n},{l.name}"
  | .res n l c => s!"RES {n},{l.name}{copyName c}"
  | .set n l c => s!"SET {n},{l.name}{copyName c}"
  | .jp cc => s!"JP {ccName cc}nn"
  | .jpReg rp => s!"JP ({rp.name})"
  | .jr cc => s!"JR {ccName cc}e"
  | .djnz => "DJNZ e"
  | .call cc => s!"CALL {ccName cc}nn"
  | .ret none => "RET"
  | .ret (some c) => s!"RET {c.name}"
  | .reti => "RETI"
  | .retn => "RETN"
  | .rst a => s!"RST {a}"
  | .inA => "IN A,(n)"
  | .outA => "OUT (n),A"
  | .inC none => "IN F,(C)"
  | .inC (some r) => s!"IN {r.name},(C)"
  | .outC none => "OUT (C),0"
  | .outC (some r) => s!"OUT (C),{r.name}"
  | .block k d r => blockName k d r
  | .im m => s!"IM {m}"
  | .di => "DI"
  | .ei => "EI"
  | .halt => "HALT"
  | .rld => "RLD"
  | .rrd => "RRD"

end Z80Isa
