/-
Independent specification of the PNG container, written from the PNG
specification (ISO/IEC 15948:2003 §5 "Datastream structure", annex D "Sample
CRC code" and §5.5: CRC-32 with polynomial x^32+x^26+...+1, register
initialised to all ones, message bits fed least-significant first, final ones'
complement) -- not from skoolkit.  Core Lean only.
-/
namespace PngSpec

/-- Feed ONE message bit into the (reflected) CRC-32 register. -/
def crcBit (crc : Nat) (bit : Bool) : Nat :=
  if (crc % 2 == 1) != bit then (crc / 2) ^^^ 0xEDB88320 else crc / 2

/-- Feed the low `k` bits of `b`, least significant first. -/
def feedBits : Nat → Nat → Nat → Nat
  | 0, crc, _ => crc
  | k + 1, crc, b => feedBits k (crcBit crc (b % 2 == 1)) (b / 2)

/-- Register after feeding all bytes of the message, one bit at a time. -/
def crcRegister (msg : List Nat) : Nat := msg.foldl (fun c b => feedBits 8 c b) 0xFFFFFFFF

/-- CRC-32 of a message. -/
def crc32 (msg : List Nat) : Nat := crcRegister msg ^^^ 0xFFFFFFFF

/-- Big-endian value of a byte list. -/
def beVal (l : List Nat) : Nat := l.foldl (fun a b => a * 256 + b) 0

/-- A decoded chunk: four type bytes and the payload. -/
structure Chunk where
  type : List Nat
  payload : List Nat
  deriving DecidableEq, Repr

/-- Reads one chunk (length, type, payload, CRC over type+payload) from the
front of the input; `none` on truncation, a length that does not fit, or a CRC
mismatch.  Returns the chunk and the remaining input. -/
def parseOne (inp : List Nat) : Option (Chunk × List Nat) :=
  if inp.length < 12 then none else
  let len := beVal (inp.take 4)
  if inp.length < 12 + len then none else
  let type := (inp.drop 4).take 4
  let payload := (inp.drop 8).take len
  let crc := beVal ((inp.drop (8 + len)).take 4)
  if crc ≠ crc32 (type ++ payload) then none else
  some ({ type, payload }, inp.drop (12 + len))

/-- Reads chunks until the input is exhausted.  `fuel` bounds the number of
chunks. -/
def parseChunks : Nat → List Nat → Option (List Chunk)
  | _, [] => some []
  | 0, _ :: _ => none
  | fuel + 1, b :: t =>
    match parseOne (b :: t) with
    | none => none
    | some (c, rest) => (parseChunks fuel rest).map (c :: ·)

def SIGNATURE : List Nat := [0x89, 0x50, 0x4E, 0x47, 0x0D, 0x0A, 0x1A, 0x0A]

/-- A PNG datastream = signature followed by well-formed chunks. -/
def parsePng (file : List Nat) : Option (List Chunk) :=
  if file.take 8 = SIGNATURE then parseChunks file.length (file.drop 8) else none

/-! ### Structure of a palette PNG / APNG datastream (PNG §5.6 chunk ordering,
APNG specification: acTL before IDAT, one fcTL per frame, sequence numbers of
fcTL and fdAT chunks count up from 0 without gaps). -/

def tIHDR : List Nat := [73, 72, 68, 82]
def tPLTE : List Nat := [80, 76, 84, 69]
def tTRNS : List Nat := [116, 82, 78, 83]
def tACTL : List Nat := [97, 99, 84, 76]
def tFCTL : List Nat := [102, 99, 84, 76]
def tIDAT : List Nat := [73, 68, 65, 84]
def tFDAT : List Nat := [102, 100, 65, 84]
def tIEND : List Nat := [73, 69, 78, 68]

/-- `(fcTL fdAT)* IEND` with an empty IEND. -/
def pairsThenEnd : List Chunk → Bool
  | [c] => c.type == tIEND && c.payload.isEmpty
  | a :: b :: rest =>
    a.type == tFCTL && a.payload.length == 26 && b.type == tFDAT && 4 ≤ b.payload.length && pairsThenEnd rest
  | [] => false

/-- Drop one leading chunk of type `t` with `n` payload bytes, if present. -/
def skipOpt (t : List Nat) (n : Nat) : List Chunk → List Chunk
  | c :: r => if c.type == t && c.payload.length == n then r else c :: r
  | [] => []

/-- Chunk order of the files skoolkit writes:
`IHDR PLTE [tRNS] [acTL] [fcTL] IDAT (fcTL fdAT)* IEND`, which is a legal order
for an indexed-colour PNG (PLTE before tRNS before IDAT) and APNG (acTL and the
first fcTL before IDAT). -/
def orderOk : List Chunk → Bool
  | ihdr :: plte :: rest =>
    ihdr.type == tIHDR && ihdr.payload.length == 13 && plte.type == tPLTE &&
    match skipOpt tFCTL 26 (skipOpt tACTL 8 (skipOpt tTRNS 1 rest)) with
    | idat :: r => idat.type == tIDAT && pairsThenEnd r
    | [] => false
  | _ => false

/-- Sequence numbers carried by the fcTL / fdAT chunks, in stream order. -/
def seqNums (cs : List Chunk) : List Nat :=
  cs.filterMap (fun c => if c.type = tFCTL ∨ c.type = tFDAT then some (beVal (c.payload.take 4)) else none)

def countType (t : List Nat) (cs : List Chunk) : Nat := (cs.filter (fun c => c.type == t)).length

/-- APNG bookkeeping: without acTL there are no animation chunks; with acTL its
`num_frames` is the number of fcTL chunks, and the sequence numbers are
`0, 1, 2, ...`. -/
def apngOk (cs : List Chunk) : Bool :=
  match cs.find? (fun c => c.type == tACTL) with
  | none => countType tFCTL cs == 0 && countType tFDAT cs == 0
  | some a =>
    beVal (a.payload.take 4) == countType tFCTL cs && 0 < countType tFCTL cs
      && seqNums cs == List.range (seqNums cs).length

/-- Decoded IHDR: `(width, height, bit depth, colour type, compression, filter, interlace)`. -/
def ihdrFields (c : Chunk) : Nat × Nat × List Nat :=
  (beVal (c.payload.take 4), beVal ((c.payload.drop 4).take 4), c.payload.drop 8)

end PngSpec
