import SkoolVerif.Prelude.Proto
import SkoolVerif.Model.SnapResume
import SkoolVerif.Gen.SimHandlers
import SkoolVerif.Gen.CmioHandlers
/-!
Line protocol for C10.

* `resume <szx|z80> <is128> <o7ffd> ; <24 regs> ; <pc t iff im halt memptr> ; <border outfe outfffd ay0..ay15>`
    → `<24 regs> ; <pc t iff im halt memptr> ; <border outfe outfffd ay0..ay15> ; <o7ffd>` (state the next run starts in)
* `accept <cmio> <is128> <o7ffd> <prevpc> ; regs ; fields ; a:v ...`
    → `<accepted> ; regs ; fields ; writes`
* `run <py|c> <plain|cmio> <interrupts> <n> <is128> <o7ffd> ; regs ; fields ; tracer ; k:a:v ...`
    (memory cells as `r<i>:off:v` ROM i, `b<i>:off:v` RAM bank i; 48K: `b0:addr:v` with the full address)
    → `regs ; fields ; tracer ; <o7ffd> ; <nextInt|-> ; changed cells`
-/
open Proto Z80 TraceLoop SnapResume

/-- Banked sparse memory: initial cells + write log, physical cell = (isRom, index, offset). -/
structure BMem where
  is128 : Bool
  o7ffd : Int
  trOut7ffd : Int
  base : List ((Bool × Nat × Nat) × Int)
  writes : List ((Bool × Nat × Nat) × Int)

namespace BMem
def key (m : BMem) (a : Int) : Bool × Nat × Nat :=
  if m.is128 then
    let m128 : Mem128 := { roms := #[], banks := #[], o7ffd := m.o7ffd, trOut7ffd := m.trOut7ffd }
    let (isRom, i) := m128.slot a
    (isRom, i, (a % 16384).toNat)
  else (false, 0, a.toNat)

def lookup (l : List ((Bool × Nat × Nat) × Int)) (k : Bool × Nat × Nat) : Option Int :=
  match l with
  | [] => none
  | (k', v) :: rest => if k' = k then some v else lookup rest k

def get (m : BMem) (a : Int) : Int :=
  let k := m.key a
  match lookup m.writes k with
  | some v => v
  | none => (lookup m.base k).getD 0
end BMem

instance : MemLike BMem where
  get := BMem.get
  set m a v := { m with writes := (m.key a, v) :: m.writes }
  portOut m port value :=
    if m.is128 ∧ PyInt.land port 0x8002 = 0 ∧ PyInt.land m.trOut7ffd 32 = 0 then
      { m with o7ffd := value, trOut7ffd := value }
    else m
  o7ffd m := m.o7ffd
  is128 m := m.is128

instance : SnapMem BMem where
  rebuild _ m o := if m.is128 then { m with o7ffd := o, trOut7ffd := o } else m

def semi (line : String) : List (List String) := (line.splitOn ";").map words

def showTr (tr : Tr) : String := s!"{tr.border} {tr.outfe} {tr.outfffd} {showInts tr.ay.toList}"

def showSt {μ : Type} (s : St μ) : String :=
  s!"{showInts s.reg.toList} ; {s.pc} {s.t} {s.iff} {s.im} {s.halt} {s.memptr}"

def parseCell (w : String) : Option ((Bool × Nat × Nat) × Int) :=
  match w.splitOn ":" with
  | [k, off, v] =>
    let isRom := k.startsWith "r"
    match (k.drop 1).toNat?, off.toNat?, v.toInt? with
    | some i, some o, some v => some ((isRom, i, o), v)
    | _, _, _ => none
  | _ => none

def showCell (c : (Bool × Nat × Nat) × Int) : String :=
  let ((isRom, i, off), v) := c
  s!"{if isRom then "r" else "b"}{i}:{off}:{v}"

def keyLt (a b : Bool × Nat × Nat) : Bool :=
  let ka := (if a.1 then 0 else 1, a.2.1, a.2.2)
  let kb := (if b.1 then 0 else 1, b.2.1, b.2.2)
  ka.1 < kb.1 || (ka.1 == kb.1 && (ka.2.1 < kb.2.1 || (ka.2.1 == kb.2.1 && ka.2.2 < kb.2.2)))

/-- cells whose final value differs from the initial image, sorted -/
def changed (m : BMem) : List ((Bool × Nat × Nat) × Int) :=
  let keys := m.writes.foldl (fun acc (k, _) => if acc.contains k then acc else k :: acc) []
  let cells := keys.filterMap fun k =>
    let v := (BMem.lookup m.writes k).getD 0
    if v = (BMem.lookup m.base k).getD 0 then none else some (k, v)
  (cells.toArray.qsort (fun a b => keyLt a.1 b.1)).toList

def mkState (regs fields trv : List Int) (mem : BMem) : Option (TS BMem) :=
  match fields, trv with
  | [pc, t, iff, im, halt, memptr], border :: outfe :: outfffd :: ay =>
    if regs.length ≠ 24 ∨ ay.length ≠ 16 then none else
    some { s := { reg := regs.toArray, mem := mem, pc := pc, t := t, iff := iff, im := im, halt := halt,
                  memptr := memptr, ins := [], outs := [], inLog := [] },
           tr := { border := border, outfe := outfe, outfffd := outfffd, ay := ay.toArray } }
  | _, _ => none

def cfgOf (is128 : Bool) : Cfg :=
  if is128 then { frame_duration := 70908, int_active := 36, t0 := 14361 - 23, t1 := 58035,
                  in_a_n_tracer := true, in_r_c_tracer := true, ini_tracer := true, out_tracer := true }
  else { frame_duration := 69888, int_active := 32, t0 := 14335 - 23, t1 := 57245,
         in_a_n_tracer := true, in_r_c_tracer := true, ini_tracer := true, out_tracer := true }

def handle (line : String) : String :=
  match semi line with
  | [["resume", fmt, is128, o7], r, f, t] =>
    match fmt, is128.toInt?, o7.toInt?, ints? r, ints? f, ints? t with
    | fmt, some is128, some o7, some regs, some fields, some trv =>
      let fmt? := if fmt = "szx" then some Fmt.szx else if fmt = "z80" then some Fmt.z80 else none
      let mem : BMem := { is128 := is128 ≠ 0, o7ffd := o7, trOut7ffd := o7, base := [], writes := [] }
      match fmt?, mkState regs fields trv mem with
      | some fmt, some ts =>
        let ts' := resume #[] fmt ts
        s!"{showSt ts'.s} ; {showTr ts'.tr} ; {ts'.s.mem.o7ffd}"
      | _, _ => "bad-op state"
    | _, _, _, _, _, _ => "bad-op parse"
  | [["accept", cmio, is128, o7, prevpc], r, f, m] =>
    match cmio.toInt?, is128.toInt?, o7.toInt?, prevpc.toInt?, ints? r, ints? f, m.mapM parseCell with
    | some cmio, some is128, some o7, some prevpc, some regs, some fields, some cells =>
      let mem : BMem := { is128 := is128 ≠ 0, o7ffd := o7, trOut7ffd := o7, base := cells, writes := [] }
      match mkState regs fields (List.replicate 19 0) mem with
      | some ts =>
        let (s', acc) := acceptInterrupt (cmio ≠ 0) ts.s prevpc
        s!"{if acc then 1 else 0} ; {showSt s'} ; {" ".intercalate (s'.mem.writes.reverse.map showCell)}"
      | none => "bad-op state"
    | _, _, _, _, _, _, _ => "bad-op parse"
  | [["run", loop, sim, intr, n, is128, o7], r, f, t, m] =>
    match intr.toInt?, n.toNat?, is128.toInt?, o7.toInt?, ints? r, ints? f, ints? t, m.mapM parseCell with
    | some intr, some n, some is128, some o7, some regs, some fields, some trv, some cells =>
      let mem : BMem := { is128 := is128 ≠ 0, o7ffd := o7, trOut7ffd := o7, base := cells, writes := [] }
      match mkState regs fields trv mem with
      | some ts =>
        let cfg := cfgOf (is128 ≠ 0)
        let cmio := sim = "cmio"
        let mode : Mode BMem := { step := if cmio then (fun c s => Cmio.step c s) else (fun c s => Sim.step c s),
                                  cmio := cmio, interrupts := intr ≠ 0 }
        if loop = "py" then
          let l := pyLoop mode cfg n (pyStart cfg ts)
          s!"{showSt l.ts.s} ; {showTr l.ts.tr} ; {l.ts.s.mem.o7ffd} ; {l.nextInt} ; {" ".intercalate ((changed l.ts.s.mem).map showCell)}"
        else if loop = "c" then
          let ts' := cRun mode cfg n ts
          s!"{showSt ts'.s} ; {showTr ts'.tr} ; {ts'.s.mem.o7ffd} ; - ; {" ".intercalate ((changed ts'.s.mem).map showCell)}"
        else "bad-op loop"
      | none => "bad-op state"
    | _, _, _, _, _, _, _, _ => "bad-op parse"
  | _ => "bad-op shape"

def main : IO Unit := loop handle
