import SkoolVerif.Prelude.Proto
import SkoolVerif.Prelude.Machine
open Proto Z80

/-- `hist <o7ffd0> p:v p:v ...` -> final o7ffd; `slot <o7ffd> <addr>` -> `rom i off` | `bank i off` -/
def handle (line : String) : String :=
  match words line with
  | "hist" :: o :: rest =>
    match o.toInt?, rest.mapM (fun w => match w.splitOn ":" with
        | [a, b] => do let a ← a.toInt?; let b ← b.toInt?; pure (a, b)
        | _ => none) with
    | some o0, some ws =>
      let m0 : Mem128 := { roms := #[], banks := #[], o7ffd := o0, trOut7ffd := o0 }
      let m := ws.foldl (fun m w => m.portOut w.1 w.2) m0
      s!"{m.o7ffd} {m.trOut7ffd}"
    | _, _ => "bad-op"
  | ["slot", o, a] =>
    match o.toInt?, a.toInt? with
    | some o, some a =>
      let m : Mem128 := { roms := #[], banks := #[], o7ffd := o, trOut7ffd := o }
      let (isRom, i) := m.slot a
      s!"{if isRom then "rom" else "bank"} {i} {(a % 16384).toNat}"
    | _, _ => "bad-op"
  | _ => "bad-op"

def main : IO Unit := loop handle
