import SkoolVerif.Prelude.SimProto
import SkoolVerif.Gen.SimHandlers
import SkoolVerif.Model.Bin2Tap
import SkoolVerif.Model.FastLoad
import SkoolVerif.Model.RomEpilogue
open Proto SimProto Z80 Bin2Tap

/-! Line protocol for C12.  Fields are separated by `;`, numbers by spaces.

* `block <header 0/1> ; <data>`                                   → `ok <bytes>`
* `header <code|basic> <length> <param> ; <title>`                → `ok <bytes>`
* `basic <clear|-1> <start> <scr 0/1> <banks 0/1> ; <title>`      → `ok <block> | <block>`
* `dloader <org> <length> <start> <stack> ; <title> ; <scr>`      → `ok <block> | <block>` / `err value`
* `bloader <address> <start> <out7ffd> ; <title> ; <banks>`       → `ok <block> | <block>`
* `prefill <org> <start> <stack> ; <ram>`                         → `ok <bytes>`
* `run <clear|-1> <org> <start> <stack> <out7ffd> <loader> <hasbanks 0/1> ; <name> ; <scr> ; <ram> ; <bank b> <data> ; …`
                                                                  → `ok <tape file bytes>` / `err value`
* `romepilogue`                                                   → the ROM bytes the theorems assume
* `exec <n> ; <SimProto state line>`                              → `n` steps of the generated simulator model
* `fastload ; <block> ; <SimProto state line>`                    → the `fast_load` model
-/

def natsOf (ws : List String) : Option (List Nat) := nats? ws

def showBlocks (bs : List (List Nat)) : String := " | ".intercalate (bs.map showNats)

def optOf (i : Int) : Option Nat := if i < 0 then none else some i.toNat

def runNSteps (cfg : Cfg) : Nat → St MemLog → St MemLog
  | 0, s => s
  | n + 1, s => runNSteps cfg n (Sim.step cfg s)

def rejoin (fs : List (List String)) : String := " ; ".intercalate (fs.map (" ".intercalate ·))

def parseBanks : List (List String) → Option (List (Nat × List Nat))
  | [] => some []
  | f :: rest => do
    let ns ← nats? f
    match ns with
    | b :: d => do
      let r ← parseBanks rest
      pure ((b, d) :: r)
    | [] => none

def handle (line : String) : String :=
  match splitOnSemi line with
  | ["block", h] :: [d] =>
    match natsOf d with
    | some d => "ok " ++ showNats (makeBlock d (h != "0"))
    | none => "bad-op"
  | ["header", kind, len, param] :: [title] =>
    match len.toNat?, param.toNat?, natsOf title with
    | some len, some param, some title =>
      if kind == "code" then "ok " ++ showNats (getHeader title len (.code param))
      else if kind == "basic" then "ok " ++ showNats (getHeader title len (.basic param))
      else "bad-op"
    | _, _, _ => "bad-op"
  | ["basic", clear, start, scr, banks] :: [title] =>
    match clear.toInt?, start.toNat?, natsOf title with
    | some clear, some start, some title =>
      "ok " ++ showBlocks (basicLoader title (optOf clear) start (scr != "0") (banks != "0"))
    | _, _, _ => "bad-op"
  | ["dloader", org, len, start, stack] :: [title, scr] =>
    match org.toNat?, len.toNat?, start.toNat?, stack.toNat?, natsOf title, natsOf scr with
    | some org, some len, some start, some stack, some title, some scr =>
      match dataLoader title org len start stack scr with
      | some bs => "ok " ++ showBlocks bs
      | none => "err value"
    | _, _, _, _, _, _ => "bad-op"
  | ["bloader", address, start, o7] :: [title, banks] =>
    match address.toNat?, start.toNat?, o7.toNat?, natsOf title, natsOf banks with
    | some address, some start, some o7, some title, some banks =>
      "ok " ++ showBlocks (bankLoader title address start banks o7)
    | _, _, _, _, _ => "bad-op"
  | ["prefill", org, start, stack] :: [ram] =>
    match org.toNat?, start.toNat?, stack.toNat?, natsOf ram with
    | some org, some start, some stack, some ram => "ok " ++ showNats (prefill ram org start stack)
    | _, _, _, _ => "bad-op"
  | ["run", clear, org, start, stack, o7, loader, hasBanks] :: name :: scr :: ram :: banks =>
    match clear.toInt?, org.toNat?, start.toNat?, stack.toNat?, o7.toNat?, loader.toNat?,
          natsOf name, natsOf scr, natsOf ram, parseBanks banks with
    | some clear, some org, some start, some stack, some o7, some loader, some name, some scr, some ram, some banks =>
      let a : Args := { ram := ram, clear := optOf clear, org := org, start := start, stack := stack,
                        name := name, scr := scr, banks := if hasBanks != "0" then some banks else none,
                        out7ffd := o7, loaderAddr := loader }
      match run a with
      | .ok r => "ok " ++ showNats r
      | .error _ => "err value"
    | _, _, _, _, _, _, _, _, _, _ => "bad-op"
  | [["romepilogue"]] =>
    s!"ok {RomEpilogue.ldBytesRetAddr} {RomEpilogue.ldBytesRet} | {RomEpilogue.saLdRetAddr} {showNats RomEpilogue.saLdRet}"
  | ["exec", n] :: rest =>
    match n.toNat? with
    | some n => runLine (fun cfg s => runNSteps cfg n s) (rejoin rest)
    | none => "bad-op"
  | ["fastload"] :: block :: rest =>
    match natsOf block with
    | some block => runLine (fun _ s => FastLoad.fastLoad block s) (rejoin rest)
    | none => "bad-op"
  | _ => "bad-op"

def main : IO Unit := loop handle
