import SkoolVerif.Prelude.Proto
import SkoolVerif.Model.AsmModes
import SkoolVerif.Model.AsmLayout
import SkoolVerif.Spec.AsmLayout
import SkoolVerif.Model.ReplaceNums
import SkoolVerif.Model.ConvertCase
open Proto

/-!
Line protocol for C04.

  modes <asm> <fix>            -> weights / coupling / selection tables of the mode model
  acouple <asm> <fix>          -> skool2asm.main's coupling of its options
  applied <asm> <fix> <d>...   -> which pending directive classes win (indices into the list)
  bin <tokens>                 -> BinWriter layout:  ok a:s.i ... | m k=v ...   or  err <kind>
  asm <tokens>                 -> skool2asm output assembled sequentially: ok a:s.i ...  or  err <kind>
  spec <tokens>                -> reference layout (Spec/AsmLayout.lean): ok ... | m ...  or  none
  pos <tokens>                 -> label locations of the addressed instructions: ok addr=loc ...  or  err <kind>
  pokes <tokens>               -> what the parser assembles into the #PEEK snapshot: ok a:s.i ...  or  err <kind>
  par <tokens>                 -> parser entries: ok E addr/op/org ... E ...  or  err <kind>

  ccase <lower 0/1> <char codes...>  -> Assembler.convert_case: ok <char codes...>
  rnum <n|2u|2l|4u|4l> <skip_bit> <prefix code|-> <char codes...>  -> _replace_nums: ok <char codes...>

Layout tokens:  B  (new block)   O- / O<n>  (@org)   R<lo>-<hi>  (@isub=!lo-hi)
  L<sa|->  (instruction line) followed by  o<size>.<id> | o-  (operation)  and any number of
  S<flags>:<size>.<id> | S<flags>:-   (directive; flags ⊆ ">/|+", "_" = none)
An operation is the pair (size, id); its size is its first component.
-/

namespace C04Driver
open AsmModes AsmLayout

abbrev Op := Nat × Nat
def size (o : Op) : Nat := o.1

def dirOf? : String → Option Dir
  | "isub" => some .isub | "ssub" => some .ssub | "rsub" => some .rsub
  | "ofix" => some .ofix | "bfix" => some .bfix | "rfix" => some .rfix
  | _ => none

def showW (w : Weight) : String := s!"{w.1},{w.2}"
def showB (b : Bool) : String := if b then "1" else "0"
def showP (p : Nat × Nat) : String := s!"{p.1},{p.2}"

def modesLine (asm fix : Nat) : String :=
  let pw := Dir.all.map (fun d => showW (parserWeight asm fix d))
  let bc := binCouple asm fix
  let bw := Dir.all.map (fun d => showW (binWeight bc.1 bc.2 d))
  let ps := Dir.all.map (fun d => showB (parserSelects asm fix d))
  let bs := Dir.all.map (fun d => showB (binSelects bc.1 bc.2 d))
  let bp := Dir.all.map (fun d => showB (blockPlus asm fix d))
  s!"pw {" ".intercalate pw} bc {showP bc} bw {" ".intercalate bw} ps {"".intercalate ps} bs {"".intercalate bs} bp {"".intercalate bp}"

/-- `applied`: the pending directives are numbered 0.. in file order; prints the indices applied by
the parser (`p`) and by BinWriter (`b`). -/
def appliedLine (asm fix : Nat) (ds : List Dir) : String :=
  let pending := (ds.zip (List.range ds.length))
  let p := applied (parserWeight asm fix) (parserSelects asm fix) pending
  let bc := binCouple asm fix
  let b := applied (binWeight bc.1 bc.2) (binSelects bc.1 bc.2) pending
  s!"p {showNats p} b {showNats b}"

-- token parsing -------------------------------------------------------------------------------

def op? (s : String) : Option (Option Op) :=
  if s == "-" then some none else
  match s.splitOn "." with
  | [a, b] => match a.toNat?, b.toNat? with
    | some x, some y => some (some (x, y))
    | _, _ => none
  | _ => none

def flags? (s : String) : Option Flags :=
  if s == "_" then some ⟨false, false, false, false⟩
  else if s.toList.all (fun c => c == '>' || c == '/' || c == '|' || c == '+') then
    some ⟨s.contains '>', s.contains '/', s.contains '|', s.contains '+'⟩
  else none

def sub? (s : String) : Option (SubDir Op) :=
  match s.splitOn ":" with
  | [f, o] => match flags? f, op? o with
    | some fl, some op => some ⟨fl, op⟩
    | _, _ => none
  | _ => none

def addr? (s : String) : Option (Option Nat) :=
  if s == "-" then some none else s.toNat?.map some

/-- Parser state: finished blocks (reversed), current block (reversed), pending line. -/
structure PS where
  blocks : List (Block Op)
  cur : Option (List (Item Op))
  line : Option (Line Op)

def flushLine (p : PS) : PS :=
  match p.line with
  | none => p
  | some l => { p with cur := some ((p.cur.getD []) ++ [Item.line l]), line := none }

def flushBlock (p : PS) : PS :=
  let p := flushLine p
  match p.cur with
  | none => p
  | some b => { p with blocks := p.blocks ++ [b], cur := none }

def addItem (p : PS) (i : Item Op) : PS :=
  let p := flushLine p
  { p with cur := some ((p.cur.getD []) ++ [i]) }

def step (p : PS) (tok : String) : Option PS :=
  if tok == "B" then some { flushBlock p with cur := some [] }
  else
    let rest := (tok.drop 1).toString
    match tok.front with
    | 'O' => (addr? rest).map (fun v => addItem p (.org v))
    | 'R' => match rest.splitOn "-" with
      | [a, b] => match a.toNat?, b.toNat? with
        | some lo, some hi => some (addItem p (.remove lo hi))
        | _, _ => none
      | _ => none
    | 'L' => (addr? rest).map (fun sa => { flushLine p with line := some ⟨sa, none, []⟩ })
    | 'o' => match p.line, op? rest with
      | some l, some o => some { p with line := some { l with op := o } }
      | _, _ => none
    | 'S' => match p.line, sub? rest with
      | some l, some s => some { p with line := some { l with subs := l.subs ++ [s] } }
      | _, _ => none
    | _ => none

def blocks? (toks : List String) : Option (List (Block Op)) :=
  (toks.foldlM step (⟨[], none, none⟩ : PS)).map (fun p => (flushBlock p).blocks)

-- output --------------------------------------------------------------------------------------

def showErr : Err → String
  | .assemble => "assemble" | .noAddress => "noAddress" | .cannotDetermine => "cannotDetermine"
  | .indexError => "indexError" | .typeError => "typeError" | .noOrg => "noOrg" | .badOrg => "badOrg"

def showOp (o : Op) : String := s!"{o.1}.{o.2}"
def showOut (out : List (Nat × Op)) : String := " ".intercalate (out.map (fun p => s!"{p.1}:{showOp p.2}"))

def showPIns (i : PIns Op) : String :=
  let a := match i.addr with | some a => toString a | none => "-"
  let o := match i.op with | some o => showOp o | none => "-"
  let g := match i.org with | none => "n" | some none => "x" | some (some v) => toString v
  s!"{a}/{o}/{g}"

def binLine' (bs : List (Block Op)) : String :=
  match binBlocks size (binInit Op) bs with
  | .error e => "err " ++ showErr e
  | .ok st => ("ok " ++ showOut st.out ++ " | m " ++ " ".intercalate (st.amap.map (fun p => s!"{p.1}={p.2}"))).trimAscii.toString

def asmLine (bs : List (Block Op)) : String :=
  match asmLayout size bs with
  | .error e => "err " ++ showErr e
  | .ok out => ("ok " ++ showOut out).trimAscii.toString

def parLine' (bs : List (Block Op)) : String :=
  match parBlocks size .unset bs with
  | .error e => "err " ++ showErr e
  | .ok es =>
    let es := es.filter (fun e => !e.isEmpty)
    ("ok " ++ " ".intercalate (es.map (fun e => "E " ++ " ".intercalate (e.map showPIns)))).trimAscii.toString

def specLine' (bs : List (Block Op)) : String :=
  match Spec.specBlocks size (Spec.init Op) bs with
  | none => "none"
  | some st => ("ok " ++ showOut st.out ++ " | m " ++ " ".intercalate (st.amap.map (fun p => s!"{p.1}={p.2}"))).trimAscii.toString

def fmt? : String → Option (Option ReplaceNums.HexFmt)
  | "n" => some none
  | "2u" => some (some ⟨2, false⟩) | "2l" => some (some ⟨2, true⟩)
  | "4u" => some (some ⟨4, false⟩) | "4l" => some (some ⟨4, true⟩)
  | _ => none

def rnumLine (fmt : Option ReplaceNums.HexFmt) (skip : Bool) (pre : Option Char) (codes : List Nat) : String :=
  let s := codes.map Char.ofNat
  ("ok " ++ showNats ((ReplaceNums.replaceNums fmt skip pre s).map Char.toNat)).trimAscii.toString

def posLine (bs : List (Block Op)) : String :=
  match asmLayout size bs with
  | .error e => "err " ++ showErr e
  | .ok _ => ("ok " ++ " ".intercalate ((asmLabelPos size bs).map (fun p => s!"{p.1}={p.2}"))).trimAscii.toString

def pokesLine (bs : List (Block Op)) : String :=
  match parPokes size bs with
  | .error e => "err " ++ showErr e
  | .ok out => ("ok " ++ showOut out).trimAscii.toString

def handle (line : String) : String :=
  match words line with
  | ["modes", a, f] => match a.toNat?, f.toNat? with
    | some a, some f => modesLine a f
    | _, _ => "bad-op"
  | ["acouple", a, f] => match a.toNat?, f.toNat? with
    | some a, some f => s!"ac {showP (asmCouple a f)}"
    | _, _ => "bad-op"
  | "applied" :: a :: f :: ds => match a.toNat?, f.toNat?, ds.mapM dirOf? with
    | some a, some f, some ds => appliedLine a f ds
    | _, _, _ => "bad-op"
  | "bin" :: toks => match blocks? toks with
    | some bs => binLine' bs
    | none => "bad-op"
  | "asm" :: toks => match blocks? toks with
    | some bs => asmLine bs
    | none => "bad-op"
  | "ccase" :: lw :: codes => match lw.toNat?, nats? codes with
    | some lw, some codes =>
      ("ok " ++ showNats ((ConvertCase.convertCase (lw != 0) (codes.map Char.ofNat)).map Char.toNat)).trimAscii.toString
    | _, _ => "bad-op"
  | "rnum" :: f :: sk :: pre :: codes =>
    match fmt? f, sk.toNat?, (if pre == "-" then some none else pre.toNat?.map some), nats? codes with
    | some f, some sk, some pre, some codes => rnumLine f (sk != 0) (pre.map Char.ofNat) codes
    | _, _, _, _ => "bad-op"
  | "spec" :: toks => match blocks? toks with
    | some bs => specLine' bs
    | none => "bad-op"
  | "pos" :: toks => match blocks? toks with
    | some bs => posLine bs
    | none => "bad-op"
  | "pokes" :: toks => match blocks? toks with
    | some bs => pokesLine bs
    | none => "bad-op"
  | "par" :: toks => match blocks? toks with
    | some bs => parLine' bs
    | none => "bad-op"
  | _ => "bad-op"

end C04Driver

def main : IO Unit := loop C04Driver.handle
