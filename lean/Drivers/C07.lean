import SkoolVerif.Prelude.Proto
import SkoolVerif.Model.InstrDecode
import SkoolVerif.Gen.C07Tables
import SkoolVerif.Gen.C07SimFacts
/-!
Line protocol for C07.  Memory is all zero except for the given bytes, stored from address `a`
upwards (wrapping at 64K).

  dis <opts> <lower> <wrap> <fmt> <a> <b0> <b1> ...   ->  ok <variant> <bytes,> | <operation>      | err <kind>
  tr <fmt> <a> <b0> <b1> ...                          ->  ok <size> | <operation>                        | err <kind>
  dec <a> <b0> <b1> ...                               ->  ok <size> <isDefb>                             | err key
  tm <isDef> <b0> <b1> ...                            ->  none | one t | two t1 t2 | err key | err index
  sim <table 0..6> <opcode>                           ->  t <sorted T-states> ; size <k|none> ; falls <0|1>

fmt (dis): 0 = decimal, 1 = `$%02X`/`$%04X`, 2 = `$%02x`/`$%04x`;  fmt (tr): 0 = `$`,`02X`,`04X`; 1 = ``,``,``
-/
open Proto InstrDec

def memOf (a : Nat) (bs : List Nat) : Mem := fun x =>
  let k := (x + 65536 - a % 65536) % 65536
  bs.getD k 0

def cps (s : String) : List Nat := s.toList.map Char.toNat
def str (cs : List Nat) : String := String.ofList (cs.map Char.ofNat)

def hexDigits (upper : Bool) (width n : Nat) : List Nat :=
  let ds := (Nat.toDigits 16 n).map (fun c => if upper then c.toUpper.toNat else c.toNat)
  List.replicate (width - ds.length) 48 ++ ds

def fmtByte (fmt : Nat) (v : Nat) : List Nat :=
  if fmt = 0 then cps (toString v)
  else if v > 255 then 36 :: hexDigits (fmt = 1) 4 v
  else 36 :: hexDigits (fmt = 1) 2 v
def fmtWord (fmt : Nat) (v : Nat) : List Nat :=
  if fmt = 0 then cps (toString v) else 36 :: hexDigits (fmt = 1) 4 v

def showDErr : DErr → String
  | .key => "err key" | .format => "err format" | .type => "err type"
def showTErr : TErr → String
  | .index => "err index" | .key => "err key" | .type => "err type"

def simTbl : Nat → Option Sim.OpTbl
  | 0 => some .MAIN | 1 => some .CB | 2 => some .ED | 3 => some .DD | 4 => some .FD | 5 => some .DDCB | 6 => some .FDCB
  | _ => none

def insertSorted (x : Int) : List Int → List Int
  | [] => [x]
  | y :: r => if x < y then x :: y :: r else if x = y then y :: r else y :: insertSorted x r

def handle (line : String) : String :=
  match words line with
  | "dis" :: rest => match nats? rest with
    | some (opts :: lower :: wrap :: fmt :: a :: bs) =>
      let c : DCfg := { opts := opts, lower := lower != 0, wrap := wrap != 0 }
      match disasm C07Gen.disTables c (memOf a bs) a with
      | .ok r => s!"ok {r.variant} {",".intercalate (r.bytes.map toString)} | {str (render (fmtByte fmt) (fmtWord fmt) r.op)}"
      | .error e => showDErr e
    | _ => "bad-op"
  | "tr" :: rest => match nats? rest with
    | some (fmt :: a :: bs) =>
      match traceDis C07Gen.trTables (memOf a bs) a with
      | .ok (ps, size) =>
        let text := if fmt = 0 then renderT [36] (hexDigits true 2) (hexDigits true 4) ps
                    else renderT [] (fun v => cps (toString v)) (fun v => cps (toString v)) ps
        s!"ok {size} | {str text}"
      | .error e => showTErr e
    | _ => "bad-op"
  | "dec" :: rest => match nats? rest with
    | some (a :: bs) =>
      match decodeStep C07Gen.decTables (memOf a bs) a with
      | some r => s!"ok {r.size} {if r.isDefb then 1 else 0}"
      | none => "err key"
    | _ => "bad-op"
  | "tm" :: rest => match nats? rest with
    | some (isDef :: bs) =>
      match getTiming C07Gen.tmTables (isDef != 0) bs with
      | .none_ => "none"
      | .timing (.one t) => s!"one {t}"
      | .timing (.two a b) => s!"two {a} {b}"
      | .keyError => "err key"
      | .indexError => "err index"
    | _ => "bad-op"
  | "sim" :: rest => match nats? rest with
    | some [t, op] => match simTbl t with
      | some tbl =>
        let i := tbl.get op
        let ts := (Sim.instrTstates i).foldr insertSorted []
        let sz := match Sim.instrSize i with
          | some k => toString k
          | none => "none"
        s!"t {showInts ts} ; size {sz} ; falls {if Sim.instrFalls i then 1 else 0}"
      | none => "bad-op"
    | _ => "bad-op"
  | _ => "bad-op"

def main : IO Unit := loop handle
