import SkoolVerif.Prelude.Proto
import SkoolVerif.Model.PngCrc
import SkoolVerif.Model.ZxTile
import SkoolVerif.Model.PngScan
open Proto PngCrc ZxTile PngScan

/-! Line protocol for C15.  Every op is `name int int ...`; variable-length
parts are length-prefixed.  A tile is `attr d0..d7 flag [m0..m7]` with flag
0 = no mask (`None`), 1 = eight mask bytes follow, 2 = empty list. An array
is `nrows (ncols tile*)*`. -/

abbrev P := StateT (List Int) Option

def tok : P Int := do
  match (← get) with
  | [] => failure
  | t :: ts => set ts; pure t

def nat : P Nat := do
  let t ← tok
  if t < 0 then failure else pure t.toNat

def optNat : P (Option Nat) := do
  let t ← tok
  pure (if t < 0 then none else some t.toNat)

def many {α : Type} (p : P α) : Nat → P (List α)
  | 0 => pure []
  | n + 1 => do
    let a ← p
    let r ← many p n
    pure (a :: r)

def counted {α : Type} (p : P α) : P (List α) := do
  let n ← nat
  many p n

def byte : P Nat := do
  let v ← nat
  if v < 256 then pure v else failure

def udgP : P Udg := do
  let attr ← byte
  let data ← many byte 8
  let flag ← nat
  match flag with
  | 0 => pure { attr, data, mask := none }
  | 1 => do
    let m ← many byte 8
    pure { attr, data, mask := some m }
  | 2 => pure { attr, data, mask := some [] }
  | _ => failure

def arrP : P (List (List Udg)) := counted (counted udgP)

def maskP : P MaskKind := do
  let k ← nat
  match MaskKind.ofNat? k with
  | some m => pure m
  | none => failure

def attrsP : P (Nat → Option (Nat × Nat)) := do
  let l ← counted (do
    let a ← nat
    let p ← nat
    let i ← nat
    pure (a, p, i))
  pure (fun a => (l.find? (fun e => e.1 == a)).map (fun e => e.2))

def eof : P Unit := do
  match (← get) with
  | [] => pure ()
  | _ => failure

def showUdg (u : Udg) : String :=
  let m := match u.mask with
    | none => "0"
    | some [] => "2"
    | some l => "1 " ++ showNats l
  s!"{u.attr} {showNats u.data} {m}"

def showArr (a : List (List Udg)) : String :=
  s!"{a.length}" ++ String.join (a.map (fun row => s!" {row.length}" ++ String.join (row.map (fun u => " " ++ showUdg u))))

def showLines (r : Except BuildErr (List (List Nat))) : String :=
  match r with
  | .ok ls => "ok " ++ showNats ls.flatten
  | .error .keyError => "err keyError"

def methodOf : Nat → Option Method
  | 0 => some .any | 1 => some .bd0 | 2 => some .bd1nt | 3 => some .bd1at
  | 4 => some .bd2nt | 5 => some .bd2at | 6 => some .bd4nt | _ => none

def methodNum : Method → Nat
  | .any => 0 | .bd0 => 1 | .bd1nt => 2 | .bd1at => 3 | .bd2nt => 4 | .bd2at => 5 | .bd4nt => 6

def frameInfoP : P FrameInfo := do
  let width ← nat
  let height ← nat
  let delay ← nat
  let xOff ← nat
  let yOff ← nat
  let data ← counted byte
  pure { width, height, delay, xOff, yOff, data }

def run (op : String) : P String :=
  match op with
  | "crc" => do
    let d ← counted byte; eof
    pure ("ok " ++ showNats (getCrc d))
  | "crctab" => do
    let i ← byte; eof
    pure s!"ok {crcTable[i]!}"
  | "chunk" => do
    let d ← counted byte; eof
    if d.length < 4 then failure else pure ("ok " ++ showNats (chunk d))
  | "bitdepth" => do
    let n ← nat; eof
    let r := getBitDepth (List.replicate n 0)
    pure s!"ok {r.1} {r.2}"
  | "mask" => do
    let k ← maskP
    let u ← udgP
    let row ← nat
    let paper ← nat; let ink ← nat; let trans ← nat; eof
    if row ≥ 8 then failure else
    pure ("ok " ++ showNats (applyMask k u row paper ink trans))
  | "colours" => do
    let k ← maskP
    let paper ← nat; let ink ← nat; let trans ← nat; eof
    if k == .noMask then pure "err attributeError" else
    pure ("ok " ++ showNats (maskColours k paper ink trans))
  | "attridx" => do
    let a ← byte; eof
    let r := attrIndex a
    pure s!"ok {r.1} {r.2}"
  | "swapattr" => do
    let a ← byte; eof
    pure s!"ok {swapAttr a}"
  | "flipbyte" => do
    let b ← byte; eof
    pure s!"ok {flipByte b}"
  | "udgflip" => do
    let f ← nat; let u ← udgP; eof
    pure ("ok " ++ showUdg (u.flip f))
  | "udgrot" => do
    let r ← nat; let u ← udgP; eof
    pure ("ok " ++ showUdg (u.rotate r))
  | "fliparr" => do
    let f ← nat; let a ← arrP; eof
    pure ("ok " ++ showArr (flipUdgs a f))
  | "rotarr" => do
    let r ← nat; let a ← arrP; eof
    if a.isEmpty then failure else
    pure ("ok " ++ showArr (rotateUdgs a r))
  | "getbytes" => do
    let depth ← nat; let scale ← nat; let v ← byte; eof
    if (depth ≠ 1 ∧ depth ≠ 2 ∧ depth ≠ 4) ∨ scale = 0 then failure else
    pure ("ok " ++ showNats (getBytes depth scale v))
  | "bits4" => do
    let n ← nat; eof
    if n ≥ 16 then failure else pure ("ok " ++ showNats (bits4 n))
  | "bitpairs" => do
    let n ← byte; eof
    pure ("ok " ++ showNats (bitPairs n))
  | "dispatch" => do
    let bd ← nat; let fs ← nat; let m ← nat; eof
    if (bd ≠ 0 ∧ bd ≠ 1 ∧ bd ≠ 2 ∧ bd ≠ 4) ∨ fs > 1 ∨ m > 1 then failure else
    pure s!"ok {methodNum (methodFor bd (fs == 1) (m == 1))}"
  | "geom" => do
    let scale ← nat; let x ← nat; let y ← nat; let w ← optNat; let h ← optNat
    let a ← arrP; eof
    let f : Frame := { udgs := a, scale, x, y, width := w, height := h }
    if a.isEmpty ∨ scale = 0 ∨ x ≥ f.fullWidth ∨ y ≥ f.fullHeight then failure else
    pure s!"ok {f.fullWidth} {f.fullHeight} {f.w} {f.h} {if f.cropped then 1 else 0}"
  | "swapcol" => do
    let scale ← nat; let x ← nat; let y ← nat; let w ← optNat; let h ← optNat
    let sx ← nat; let sy ← nat; let sw ← nat; let sh ← nat
    let a ← arrP; eof
    let f : Frame := { udgs := a, scale, x, y, width := w, height := h }
    if a.isEmpty ∨ scale = 0 ∨ x ≥ f.fullWidth ∨ y ≥ f.fullHeight then failure else
    let g := f.swapColours sx sy sw sh
    let o (v : Option Nat) : String := match v with | none => "-1" | some n => toString n
    pure s!"ok {g.x} {g.y} {o g.width} {o g.height} {showArr g.udgs}"
  | "build" => do
    let m ← nat
    let scale ← nat; let bitDepth ← nat
    let x0 ← nat; let y0 ← nat; let width ← nat; let height ← nat
    let mask ← maskP
    let attrs ← attrsP
    let a ← arrP; eof
    match methodOf m with
    | none => failure
    | some meth =>
      -- domain: what ImageWriter can produce (valid crop, indices fit the bit depth)
      let fw := 8 * (a.headD []).length * scale
      let fh := 8 * a.length * scale
      if scale = 0 ∨ width = 0 ∨ height = 0 ∨ x0 + width > fw ∨ y0 + height > fh
          ∨ (bitDepth ≠ 1 ∧ bitDepth ≠ 2 ∧ bitDepth ≠ 4) then failure else
      let c : Ctx := { scale, bitDepth, x0, y0, width, height, mask, attrs }
      pure (showLines (runMethod meth c a))
  | "imgdata" => do
    let scale ← nat; let x ← nat; let y ← nat; let w ← optNat; let h ← optNat
    let maskType ← nat; let hasMasks ← nat; let paletteSize ← nat; let bitDepth ← nat
    let attrs ← attrsP
    let fl ← nat
    let flash ← (if fl = 0 then pure none else do
      let fx ← nat; let fy ← nat; let fw ← nat; let fh ← nat
      pure (some (fx, fy, fw, fh)) : P (Option (Nat × Nat × Nat × Nat)))
    let a ← arrP; eof
    let f : Frame := { udgs := a, scale, mask := maskType, x, y, width := w, height := h }
    if a.isEmpty ∨ scale = 0 ∨ maskType > 2 ∨ x ≥ f.fullWidth ∨ y ≥ f.fullHeight
        ∨ (bitDepth ≠ 1 ∧ bitDepth ≠ 2 ∧ bitDepth ≠ 4) then failure else
    match buildImageData f (hasMasks ≠ 0) paletteSize bitDepth attrs flash with
    | .error .keyError => pure "err keyError"
    | .ok (f1, none) => pure ("ok " ++ showNats f1.flatten ++ " | none")
    | .ok (f1, some f2) => pure ("ok " ++ showNats f1.flatten ++ " | " ++ showNats f2.flatten)
  | "frame2attrs" => do
    let l ← counted (do
      let a ← byte
      let p ← nat
      let i ← nat
      pure (a, p, i))
    eof
    let attrs : Nat → Option (Nat × Nat) := fun a => (l.find? (fun e => e.1 == a)).map (fun e => e.2)
    let out := (List.range 256).filterMap (fun a => (frame2Attrs attrs a).map (fun v => [a, v.1, v.2]))
    pure ("ok " ++ showNats out.flatten)
  | "flashrect" => do
    let mask ← maskP
    let scale ← nat; let x0 ← nat; let y0 ← nat; let width ← nat; let height ← nat
    let uf ← nat
    let a ← arrP; eof
    if scale = 0 ∨ width = 0 ∨ height = 0 then failure else
    match flashRect mask a scale x0 y0 width height (uf ≠ 0) with
    | none => pure "ok none"
    | some (x, y, w, h) => pure s!"ok {x} {y} {w} {h}"
  | "file" => do
    let f1 ← frameInfoP
    let rest ← counted frameInfoP
    let palette ← counted byte
    let hasTrans ← nat
    let alpha1 ← optNat
    let walpha ← byte
    let fl ← nat
    let flash ← (if fl = 0 then pure none else do
      let fx ← nat; let fy ← nat; let fw ← nat; let fh ← nat
      let d ← counted byte
      pure (some (fx, fy, fw, fh, d)) : P (Option (Nat × Nat × Nat × Nat × List Nat)))
    eof
    if rest.length > 254 then failure else
    pure ("ok " ++ showNats (writeImage f1 rest palette (hasTrans ≠ 0) alpha1 walpha flash))
  | _ => failure

def handle (line : String) : String :=
  match words line with
  | op :: rest =>
    match ints? rest with
    | some toks =>
      match (run op).run toks with
      | some (s, _) => s
      | none => "bad-op"
    | none => "bad-op"
  | [] => "bad-op"

def main : IO Unit := loop handle
