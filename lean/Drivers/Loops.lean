import SkoolVerif.Prelude.SimProto
import SkoolVerif.Gen.PyLoops
import SkoolVerif.Gen.CLoops.run
import SkoolVerif.Gen.CCmioLoops.run
import SkoolVerif.Gen.CLoops.trace
import SkoolVerif.Gen.CCmioLoops.trace
import SkoolVerif.Gen.CLoops.exec_frame
import SkoolVerif.Gen.CCmioLoops.exec_frame
import SkoolVerif.Gen.PyLoopCores
/-! Driver for the translated run loops (`translate/pyloop2lean.py` -> `Gen/PyLoops.lean`, `translate/cloop2lean.py` ->
`Gen/CLoops/run.lean`, `Gen/CCmioLoops/run.lean`).  Line: `<sel> <fuel> <start|-> <stop|-> <interrupts|-> <op line of Drivers/Sim.lean>`
with `sel` = `pr` (`Simulator.run`), `pc` (`CMIOSimulator.run`), `cr` (`CSimulator_run`, plain build), `cc` (`-DCONTENTION` build);
`-` = argument omitted (`None`).  Output: the state line of `SimProto.runLine`; the "finished" flag travels as a last pseudo
port write `-1:<0|1>`.
`tr`/`tc <fuel> <start|-> <stop|-> <max_operations> <max_time> <interrupts> <exec_map 0|1> <disassemble+trace 0|1> <op>`: `CSimulator_trace`
(plain / contended build, no `draw`); `fr`/`fc <fuel> <fetch_count> <exec_map 0|1> <trace 0|1> <op>`: `CSimulator_exec_frame`.  Pseudo port writes
after the real ones: `-1:<finished>`, `-2:<return value 1>`, `-3:<return value 2>`, then the callback log, oldest call first: `-(10+tag):<first argument>`
followed by `-9:<argument>` for each further argument.
`pt`/`pu <fuel> <start> <stop|-> <max_operations> <max_time> <interrupts> <exec_map 0|1> <trace_line 0|1> <op>`: the Python loop of `Tracer.run`
over `Simulator` / `CMIOSimulator` (no `draw`): `-2:<stop_cond>`, `-3:<operations>`; `pf`/`pg <fuel> <fetch_counter> <pc> <exec_map 0|1> <tracefile 0|1> <op>`:
the Python frame loop of `process_block`: `-2:<pc>`, `-3:<fetch_counter>`; `bp`/`bq <flags> <pc> <next fetch counter> <op>`: its end-of-frame code
(`-3:<fetch_counter>`). -/
open Z80

def optInt (w : String) : Option (Option Int) :=
  if w = "-" then some none else (w.toInt?).map some

def withFlag (r : St SimProto.MemLog × Bool) : St SimProto.MemLog :=
  { r.1 with outs := (-1, if r.2 then 1 else 0) :: r.1.outs }

def logPairs (log : List (List Int)) : List (Int × Int) :=
  log.reverse.flatMap fun e => match e with
    | tag :: a :: rest => (-(10 + tag), a) :: rest.map fun x => (-9, x)
    | _ => []

/-- pseudo port writes (most recent first, like `outs`) -/
def withRet (st : St SimProto.MemLog) (done : Bool) (r1 r2 : Int) (log : List (List Int)) : St SimProto.MemLog :=
  { st with outs := (logPairs log).reverse ++ [(-3, r2), (-2, r1), (-1, if done then 1 else 0)] ++ st.outs }

def obj (b : Bool) : PyObj := if b then PyObj.other else PyObj.none
def objI (o : Option Int) : PyObj := match o with | some v => PyObj.int v | none => PyObj.none

def runTraceLine (cmio : Bool) (ws : List String) : String :=
  match ws with
  | fuelW :: startW :: stopW :: moW :: mtW :: intsW :: emW :: disW :: rest =>
    match fuelW.toNat?, optInt startW, optInt stopW, moW.toInt?, mtW.toInt?, intsW.toInt?, emW.toInt?, disW.toInt? with
    | some fuel, some start, some stop, some mo, some mt, some ints, some em, some dis =>
      let op := " ".intercalate rest
      -- the log of the loop is not part of the function's result: run the loop through the translated function for the state and the
      -- return value, and once more through the translated loop (same arguments as `trace` passes) for the log
      SimProto.runLine (fun cfg s =>
        if cmio then
          let r := CCmioH.Loop.trace cfg fuel (objI start) (objI stop) mo mt (ints ≠ 0) PyObj.none (obj (em ≠ 0)) PyObj.none (obj (dis ≠ 0)) (obj (dis ≠ 0)) [] [] s
          let s0 : St SimProto.MemLog := match start with | some v => { s with pc := v } | none => s
          let l := CCmioH.Loop.trace_loop1 cfg (objI start) (objI stop) PyObj.none (obj (em ≠ 0)) PyObj.none (obj (dis ≠ 0)) (obj (dis ≠ 0)) fuel s0
            ⟨mo, mt, if ints ≠ 0 then 1 else 0, (start.getD 65536), (stop.getD 65536), if dis ≠ 0 then 1 else 0, cfg.frame_duration, cfg.int_active, 0, [], []⟩
          withRet r.1.1 r.2 r.1.2.1 r.1.2.2 l.1.2.cblog
        else
          let r := CSimH.Loop.trace cfg fuel (objI start) (objI stop) mo mt (ints ≠ 0) PyObj.none (obj (em ≠ 0)) PyObj.none (obj (dis ≠ 0)) (obj (dis ≠ 0)) [] [] s
          let s0 : St SimProto.MemLog := match start with | some v => { s with pc := v } | none => s
          let l := CSimH.Loop.trace_loop1 cfg (objI start) (objI stop) PyObj.none (obj (em ≠ 0)) PyObj.none (obj (dis ≠ 0)) (obj (dis ≠ 0)) fuel s0
            ⟨mo, mt, if ints ≠ 0 then 1 else 0, (start.getD 65536), (stop.getD 65536), if dis ≠ 0 then 1 else 0, cfg.frame_duration, cfg.int_active, 0, [], []⟩
          withRet r.1.1 r.2 r.1.2.1 r.1.2.2 l.1.2.cblog) op
    | _, _, _, _, _, _, _, _ => "bad-op args"
  | _ => "bad-op shape"

def runFrameLine (cmio : Bool) (ws : List String) : String :=
  match ws with
  | fuelW :: fcW :: emW :: trW :: rest =>
    match fuelW.toNat?, fcW.toInt?, emW.toInt?, trW.toInt? with
    | some fuel, some fc, some em, some tr =>
      let op := " ".intercalate rest
      SimProto.runLine (fun cfg s =>
        if cmio then
          let r := CCmioH.Loop.exec_frame cfg fuel fc (obj (em ≠ 0)) (obj (tr ≠ 0)) [] s
          let l := CCmioH.Loop.exec_frame_loop1 cfg (obj (em ≠ 0)) (obj (tr ≠ 0)) fuel s ⟨CInt.i32 fc, 0, []⟩
          withRet r.1.1 r.2 r.1.2 0 l.1.2.cblog
        else
          let r := CSimH.Loop.exec_frame cfg fuel fc (obj (em ≠ 0)) (obj (tr ≠ 0)) [] s
          let l := CSimH.Loop.exec_frame_loop1 cfg (obj (em ≠ 0)) (obj (tr ≠ 0)) fuel s ⟨CInt.i32 fc, 0, []⟩
          withRet r.1.1 r.2 r.1.2 0 l.1.2.cblog) op
    | _, _, _, _ => "bad-op args"
  | _ => "bad-op shape"

def runPyTraceLine (cmio : Bool) (ws : List String) : String :=
  match ws with
  | fuelW :: startW :: stopW :: moW :: mtW :: intsW :: emW :: tlW :: rest =>
    match fuelW.toNat?, startW.toInt?, optInt stopW, moW.toInt?, mtW.toInt?, intsW.toInt?, emW.toInt?, tlW.toInt? with
    | some fuel, some start, some stop, some mo, some mt, some ints, some em, some tl =>
      SimProto.runLine (fun cfg s =>
        if cmio then
          let r := PyLoop.Cmio.trace_run cfg fuel start stop mo mt (ints ≠ 0) false (em ≠ 0) (tl ≠ 0) s.t false [] [] s
          withRet r.1.1 r.2 r.1.2.stop_cond r.1.2.operations r.1.2.cblog
        else
          let r := PyLoop.Sim.trace_run cfg fuel start stop mo mt (ints ≠ 0) false (em ≠ 0) (tl ≠ 0) s.t false [] [] s
          withRet r.1.1 r.2 r.1.2.stop_cond r.1.2.operations r.1.2.cblog) (" ".intercalate rest)
    | _, _, _, _, _, _, _, _ => "bad-op args"
  | _ => "bad-op shape"

def runPyFrameLine (cmio : Bool) (ws : List String) : String :=
  match ws with
  | fuelW :: fcW :: pcW :: emW :: tfW :: rest =>
    match fuelW.toNat?, fcW.toInt?, pcW.toInt?, emW.toInt?, tfW.toInt? with
    | some fuel, some fc, some pc0, some em, some tf =>
      SimProto.runLine (fun cfg s =>
        if cmio then
          let r := PyLoop.Cmio.frame_loop cfg fuel (em ≠ 0) (tf ≠ 0) fc pc0 [] s
          withRet r.1.1 r.2 r.1.2.pc r.1.2.fetch_counter r.1.2.cblog
        else
          let r := PyLoop.Sim.frame_loop cfg fuel (em ≠ 0) (tf ≠ 0) fc pc0 [] s
          withRet r.1.1 r.2 r.1.2.pc r.1.2.fetch_counter r.1.2.cblog) (" ".intercalate rest)
    | _, _, _, _, _ => "bad-op args"
  | _ => "bad-op shape"

def runBoundaryLine (cmio : Bool) (ws : List String) : String :=
  match ws with
  | flW :: pcW :: nfW :: rest =>
    match flW.toInt?, pcW.toInt?, nfW.toInt? with
    | some fl, some pc, some nf =>
      SimProto.runLine (fun cfg s =>
        if cmio then
          let r := PyLoop.Cmio.frame_boundary cfg (PyInt.land fl 1) (PyInt.land fl 2) pc nf s
          withRet r.1 true 0 r.2.fetch_counter []
        else
          let r := PyLoop.Sim.frame_boundary cfg (PyInt.land fl 1) (PyInt.land fl 2) pc nf s
          withRet r.1 true 0 r.2.fetch_counter []) (" ".intercalate rest)
    | _, _, _ => "bad-op args"
  | _ => "bad-op shape"

def runLoopLine (line : String) : String :=
  match (line.splitOn " ").filter (· ≠ "") with
  | "bp" :: ws => runBoundaryLine false ws
  | "bq" :: ws => runBoundaryLine true ws
  | "pt" :: ws => runPyTraceLine false ws
  | "pu" :: ws => runPyTraceLine true ws
  | "pf" :: ws => runPyFrameLine false ws
  | "pg" :: ws => runPyFrameLine true ws
  | "tr" :: ws => runTraceLine false ws
  | "tc" :: ws => runTraceLine true ws
  | "fr" :: ws => runFrameLine false ws
  | "fc" :: ws => runFrameLine true ws
  | sel :: fuelW :: startW :: stopW :: intsW :: rest =>
    match fuelW.toNat?, optInt startW, optInt stopW, optInt intsW with
    | some fuel, some start, some stop, some ints =>
      let op := " ".intercalate rest
      let ib : Bool := match ints with | some v => v ≠ 0 | none => false
      let cb : Option Bool := ints.map (· ≠ 0)
      if sel = "pr" then SimProto.runLine (fun cfg s => withFlag (PyLoop.Sim.run cfg fuel start stop ib s)) op
      else if sel = "pc" then SimProto.runLine (fun cfg s => withFlag (PyLoop.Cmio.run cfg fuel start stop ib s)) op
      else if sel = "cr" then SimProto.runLine (fun cfg s => withFlag (CSimH.Loop.run cfg fuel start stop cb s)) op
      else if sel = "cc" then SimProto.runLine (fun cfg s => withFlag (CCmioH.Loop.run cfg fuel start stop cb s)) op
      else "bad-op sel"
    | _, _, _, _ => "bad-op args"
  | _ => "bad-op shape"

def main : IO Unit := Proto.loop runLoopLine
