import SkoolVerif.Prelude.Proto
import SkoolVerif.Model.PathAlg
import SkoolVerif.Model.HtmlSite
open Proto PathAlg HtmlSite

/-! Line protocol for C16.  A path argument is written `=<string>` (so that the empty string is
a token); a path string is mapped to the model by splitting on '/'. -/

def parseSeg (s : String) : Seg String :=
  if s = "" then .empty else if s = "." then .cur else if s = ".." then .up else .name s

def parsePath (s : String) : Path String := (s.splitOn "/").map parseSeg

def showSeg : Seg String → String
  | .empty => ""
  | .cur => "."
  | .up => ".."
  | .name a => a

def showPath (p : Path String) : String := "=" ++ "/".intercalate (p.map showSeg)

def pathArg? (w : String) : Option (Path String) :=
  if w.startsWith "=" then some (parsePath (w.drop 1).toString) else none

/-- `/b0/b1` ↦ `["b0","b1"]` (names only). -/
def baseArg? (w : String) : Option (List String) :=
  if w.startsWith "=" then some (((w.drop 1).toString.splitOn "/").filter (· ≠ "")) else none

def handlePath (line : String) : String :=
  match words line with
  | ["normpath", p] => match pathArg? p with
    | some p => "ok " ++ showPath (normpath p)
    | none => "bad-op"
  | "join" :: ps => match ps.mapM pathArg? with
    | some ps => "ok " ++ showPath (join ps)
    | none => "bad-op"
  | ["pjoin", a, b] => match pathArg? a, pathArg? b with
    | some a, some b => "ok " ++ showPath (posixJoin a b)
    | _, _ => "bad-op"
  | ["dirname", p] => match pathArg? p with
    | some p => "ok " ++ showPath (dirname p)
    | none => "bad-op"
  | ["basename", p] => match pathArg? p with
    | some p => "ok " ++ showPath (basename p)
    | none => "bad-op"
  | ["abspath", b, p] => match baseArg? b, pathArg? p with
    | some b, some p => "ok " ++ showPath (abspath b p)
    | _, _ => "bad-op"
  | ["relpath", b, p, s] => match baseArg? b, pathArg? p, pathArg? s with
    | some b, some p, some s => match relpath b p s with
      | .ok r => "ok " ++ showPath r
      | .error .noPath => "err noPath"
    | _, _, _ => "bad-op"
  | ["rfc", d, r] => match pathArg? d, pathArg? r with
    | some d, some r => "ok " ++ showPath (rfcResolve d r)
    | _, _ => "bad-op"
  | _ => "bad-op"


/-! ### Site ops (stateful): the site is described line by line, then queried. -/

abbrev C := Code String String
abbrev S := Site String String String

structure St where
  single : Bool := false
  base : List String := []
  mainId : String := "main"
  linkInternal : Bool := false
  lioMin : Nat := 0
  linkOps : List OpKind := []
  codes : List C := []
  fmts : List (Nat × String × String) := []

def opKind? : String → Option OpKind
  | "call" => some .call | "defw" => some .defw | "djnz" => some .djnz | "jp" => some .jp
  | "jr" => some .jr | "ld" => some .ld | "rst" => some .rst | _ => none

def emptyCode : C := ⟨"", [], [], [], [], [], [], []⟩

def mkSite (st : St) : S :=
  { base := st.base, single := st.single, mainId := st.mainId, lower := String.toLower,
    fileOf := fun a => match st.fmts.find? (·.1 == a) with | some (_, f, _) => f | none => "?",
    anchorOf := fun a => match st.fmts.find? (·.1 == a) with | some (_, _, x) => x | none => "?",
    linkOps := st.linkOps, linkInternal := st.linkInternal, lioMin := st.lioMin,
    main := st.codes.headD emptyCode, others := st.codes.tail }

def modLast (st : St) (f : C → C) : St :=
  match st.codes.reverse with
  | [] => st
  | c :: rest => { st with codes := (f c :: rest).reverse }

def instr? (w : String) : Option Instr :=
  match w.splitOn ":" with
  | [a] => a.toNat?.map (⟨·, none⟩)
  | [a, k, t] => match a.toNat?, opKind? k, t.toNat? with
    | some a, some k, some t => some ⟨a, some (k, t)⟩
    | _, _, _ => none
  | _ => none

def showFrag : Frag String → String
  | .fmt b => b
  | .raw n => toString n

def showHref (h : Href String String) : String :=
  "/".intercalate (h.path.map showSeg) ++ (match h.frag with | some f => "#" ++ showFrag f | none => "")

def showRes : Except HrefErr (Href String String) → String
  | .ok h => "ok " ++ showHref h
  | .error .notFound => "err notFound"
  | .error .noCode => "err noCode"
  | .error .keyError => "err keyError"
  | .error .relErr => "err relErr"

def optId (w : String) : Option String := if w = "-" then none else some w

def showPage (p : Page String String) : String :=
  "/".intercalate (p.path.map showSeg) ++ "|" ++ ",".intercalate p.anchors

def showKind : LinkKind → String
  | .prev => "prev" | .next => "next" | .up => "up" | .operand => "operand" | .mapEntry => "mapEntry"

def showLink (l : Link String String) : String :=
  "/".intercalate (l.page.map showSeg) ++ "|" ++ showKind l.kind ++ "|" ++
    (match l.href with | .ok h => showHref h | .error _ => "!error")

def bool? : String → Option Bool
  | "0" => some false | "1" => some true | _ => none

def query (st : St) (ws : List String) : String :=
  let s := mkSite st
  let code? (w : String) : Option C := w.toNat?.bind (fun i => s.codes[i]?)
  match ws with
  | ["asmrel", ci, cwd, a, cid] => match code? ci, pathArg? cwd, a.toNat? with
    | some c, some cwd, some a => showRes (asmRelpath s c cwd a (optId cid))
    | _, _, _ => "bad-op"
  | ["r", ci, cwd, a, cid, anc] => match code? ci, pathArg? cwd, a.toNat? with
    | some c, some cwd, some a =>
      if anc = "-" then showRes (rHref s c cwd a (optId cid) none)
      else match anc.toNat? with
        | some n => showRes (rHref s c cwd a (optId cid) (some n))
        | none => "bad-op"
    | _, _, _ => "bad-op"
  | ["ref", ci, k, t] => match code? ci, opKind? k, t.toNat? with
    | some c, some k, some t => match resolveRef c k t with
      | some r => s!"ok {r.entryAddr} {r.asmId.getD "-"} {r.addr}"
      | none => "none"
    | _, _, _ => "bad-op"
  | ["op", ci, cwd, ea, ia, k, t] => match code? ci, pathArg? cwd, ea.toNat?, ia.toNat?, opKind? k, t.toNat? with
    | some c, some cwd, some ea, some ia, some k, some t =>
      match c.entries.find? (·.addr == ea) with
      | some e => match operandHref s c cwd e ia k t with
        | some r => showRes r
        | none => "none"
      | none => "bad-op"
    | _, _, _, _, _, _ => "bad-op"
  | ["entryhref", ci, cwd, ea] => match code? ci, pathArg? cwd, ea.toNat? with
    | some c, some cwd, some ea => match c.entries.find? (·.addr == ea) with
      | some e => showRes (entryHref s c cwd e)
      | none => "bad-op"
    | _, _, _ => "bad-op"
  | ["maphref", ci, cwd, ea] => match code? ci, pathArg? cwd, ea.toNat? with
    | some c, some cwd, some ea => match c.entries.find? (·.addr == ea) with
      | some e => showRes (mapHref s c cwd e)
      | none => "bad-op"
    | _, _, _ => "bad-op"
  | ["asmcwd", ci] => match code? ci with
    | some c => "ok " ++ showPath (asmCwd s c)
    | none => "bad-op"
  | ["wf"] => if wfCheck s then "ok true" else "ok false"
  | ["links", ci] => match code? ci with
    | some c => "ok " ++ ";".intercalate ((asmLinks s c ++ mapLinks s c).map showLink)
    | none => "bad-op"
  | ["pages", ci] => match code? ci with
    | some c => "ok " ++ ";".intercalate ((codePages s c).map showPage)
    | none => "bad-op"
  | _ => "bad-op"

def step (st : St) (line : String) : St × String :=
  match words line with
  | ["site", single, base, mainId, li, lio, ops] =>
    match bool? single, baseArg? base, bool? li, lio.toNat?, ((ops.splitOn ",").filter (· ≠ "-")).mapM opKind? with
    | some single, some base, some li, some lio, some ops =>
      ({ single, base, mainId, linkInternal := li, lioMin := lio, linkOps := ops }, "ok")
    | _, _, _, _, _ => (st, "bad-op")
  | ["code", id, cp, sp, mp] => match pathArg? cp, pathArg? sp, pathArg? mp with
    | some cp, some sp, some mp =>
      ({ st with codes := st.codes ++ [{ emptyCode with id, codePath := cp, singlePath := sp, mapPath := mp }] }, "ok")
    | _, _, _ => (st, "bad-op")
  | "entry" :: ctl :: a :: is => match ctl.toNat?, a.toNat?, is.mapM instr? with
    | some ctl, some a, some is => (modLast st (fun c => { c with entries := c.entries ++ [⟨a, ctl, is⟩] }), "ok")
    | _, _, _ => (st, "bad-op")
  | "remote" :: id :: a :: as => match a.toNat?, nats? as with
    | some a, some as => (modLast st (fun c => { c with remotes := c.remotes ++ [⟨id, a, as⟩] }), "ok")
    | _, _ => (st, "bad-op")
  | "label" :: as => match nats? as with
    | some as => (modLast st (fun c => { c with labels := c.labels ++ as }), "ok")
    | none => (st, "bad-op")
  | "map" :: p :: types :: force :: write :: incl => match pathArg? p, bool? force, bool? write, nats? incl with
    | some p, some force, some write, some incl =>
      let ts := if types = "-" then [] else types.toList.map Char.toNat
      (modLast st (fun c => { c with maps := c.maps ++ [⟨p, ts, incl, write, force⟩] }), "ok")
    | _, _, _, _ => (st, "bad-op")
  | ["fmt", a, f, x] => match a.toNat? with
    | some a => ({ st with fmts := (a, f, x) :: st.fmts }, "ok")
    | none => (st, "bad-op")
  | "q" :: ws => (st, query st ws)
  | _ => (st, handlePath line)

def main : IO Unit := loopSt ({} : St) step
