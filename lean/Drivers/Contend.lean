import SkoolVerif.Prelude.SimProto
import SkoolVerif.Model.Contend
open Proto Contend SimProto

def mem (is128 : Bool) (o : Int) : MemLog := { base := [], writes := [], o7ffd := o, trOut7ffd := o, is128 := is128 }

/-- `d48 start count` / `d128 start count` -> delay table slice; `contend is128 o7ffd t a:n ...`; `ioc is128 o7ffd port` -/
def handle (line : String) : String :=
  match words line with
  | ["d48", a, n] => match a.toNat?, n.toNat? with
    | some a, some n => showInts ((List.range n).map fun k => delays48 ((a + k : Nat) : Int))
    | _, _ => "bad-op"
  | ["d128", a, n] => match a.toNat?, n.toNat? with
    | some a, some n => showInts ((List.range n).map fun k => delays128 ((a + k : Nat) : Int))
    | _, _ => "bad-op"
  | "contend" :: i :: o :: t :: rest => match i.toInt?, o.toInt?, t.toInt?, parsePairs rest with
    | some i, some o, some t, some l => toString (contend {} (mem (i ≠ 0) o) t l)
    | _, _, _, _ => "bad-op"
  | ["ioc", i, o, p] => match i.toInt?, o.toInt?, p.toInt? with
    | some i, some o, some p => showPairs (io_contention {} (mem (i ≠ 0) o) p)
    | _, _, _ => "bad-op"
  | ["cfg", i] => match i.toInt? with
    | some i => let c := cfgFor (i ≠ 0); s!"{c.frame_duration} {c.int_active} {c.t0} {c.t1}"
    | none => "bad-op"
  | _ => "bad-op"

def main : IO Unit := loop handle
