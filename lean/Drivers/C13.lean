import SkoolVerif.Prelude.SimProto
import SkoolVerif.Gen.SimHandlers
import SkoolVerif.Gen.Accelerators
import SkoolVerif.Model.AccelWalk
import SkoolVerif.Gen.PyLoad
import SkoolVerif.Gen.CLoad.read_port
/-!
Line-protocol driver for C13 (LOAD speed-ups).  Ops:

* `dec <c>` / `inc0`                       rows of the `loadtracer.DEC[c]` / `INC0` tables
* `walk <name>`                            static walk of an `ACCELERATORS` signature
* `deca <jr> <jp> ; regs ; pc t iff ; mem` the `dec_a` hook on one state
* `lstep <impl> ; run cfg ; tape cfg ; ts ; regs ; pc t iff im halt memptr ; edges ; blocks ; accelerators ; mem`
     one iteration of the `LoadTracer.run` / `CSimulator.load` loop (instruction incl. port read
     through the modelled `_read_port`, frame bookkeeping, tape advance, stop conditions); when an accelerator matched, the
     fast-forward translated from the implementation's own source (`PyLoad.read_port_ffwd` / `CSimH.Load.read_port_ffwd`) is run
     on the same inputs and a disagreement with the hand model is reported in the message field
-/
open Proto SimProto Z80 LoadAccel LoadTape AccelWalk

def showPairsI (l : List (Int × Int)) : String := " ".intercalate (l.map fun (a, v) => s!"{a}:{v}")

def findAcc (n : String) : Option Accel := accelerators.find? (fun a => a.name == n)

def showTS (ts : TS) : String :=
  showInts [ts.nextEdge, ts.index, ts.ended, ts.blockEnd, ts.running, ts.custom, ts.endTime, ts.announce, ts.nextInt,
            ts.lastFrame, ts.blockIndex, ts.blockDataIndex, if ts.hasKeys then 1 else 0]

def parseTS (l : List Int) : Option TS :=
  match l with
  | [a, b, c, d, e, f, g, h, i, j, k, m, n] =>
    some { nextEdge := a, index := b, ended := c, blockEnd := d, running := e, custom := f, endTime := g, announce := h,
           nextInt := i, lastFrame := j, blockIndex := k, blockDataIndex := m, hasKeys := n ≠ 0 }
  | _ => none

def parseBlocks (ws : List String) : Option (List Block) :=
  ws.mapM fun w => match (w.splitOn ":").mapM String.toInt? with
    | some [a, b, c, d, e] => some { start := a, stop := b, dataLen := c, fastLoad := d ≠ 0, hasKeys := e ≠ 0 }
    | _ => none

def mkState (regs : List Int) (pc t iff im halt memptr : Int) (mem : List (Int × Int)) : St MemLog :=
  { reg := regs.toArray, mem := { base := mem, writes := [], o7ffd := 0, trOut7ffd := 0, is128 := false },
    pc := pc, t := t, iff := iff, im := im, halt := halt, memptr := memptr, ins := [], outs := [], inLog := [] }

def kindName : DecAKind → String
  | .jr => "jr" | .jp => "jp" | .miss => "miss" | .plain => "plain"

def doDecA (line : String) : String :=
  match splitOnSemi line with
  | [c, r, f, m] =>
    match c, ints? r, ints? f, parsePairs m with
    | [_, jr, jp], some regs, some [pc, t, iff], some mem =>
      if regs.length ≠ 24 then "bad-op regs" else
      let s := mkState regs pc t iff 0 0 0 mem
      let k := decAKind (jr ≠ "0") (jp ≠ "0") s
      let s' := decAHook (jr ≠ "0") (jp ≠ "0") s
      s!"{showInts s'.reg.toList} ; {s'.pc} {s'.t} ; {kindName k}"
    | _, _, _, _ => "bad-op parse"
  | _ => "bad-op shape"

/-- one iteration of the load loop; see the module doc of `Model/LoadTape.lean` -/
def doLStep (line : String) : String :=
  match splitOnSemi line with
  | [hd, rc, tc, tsw, r, f, ew, bw, aw, m] =>
    match hd, ints? rc, ints? tc, (ints? tsw).bind parseTS, ints? r, ints? f, ints? ew, parseBlocks bw, aw.mapM findAcc, parsePairs m with
    | [_, impl], some [accelDecA, fastLoad, finishTape, timeout, stop, inRC], some [pause, inMinAddr, fd, ia, out7ffd, outfffd],
      some ts, some regs, some [pc, t, iff, im, halt, memptr], some edges, some blocks, some accs, some mem =>
      if regs.length ≠ 24 then "bad-op regs" else
      let tcfg : TapeCfg := { edges := edges.toArray, blocks := blocks.toArray, pause := pause ≠ 0, inMinAddr := inMinAddr,
                              frameDuration := fd, intActive := ia, out7ffd := out7ffd, outfffd := outfffd, ay := (List.replicate 16 0).toArray }
      let cfg : Cfg := { frame_duration := fd, int_active := ia, in_a_n_tracer := true, in_r_c_tracer := inRC ≠ 0,
                         ini_tracer := false, out_tracer := true }
      let s := mkState regs pc t iff im halt memptr mem
      -- `run`: `self.keys = None`, and state[8] is initialised before the loop
      let ts := { ts with nextInt := ((t + fd - ia) / fd) * fd, hasKeys := false }
      let sigMatch := if impl = "c" then sigMatchC (fun a => mget s.mem a) else sigMatchPy (fun a => mget s.mem a)
      -- the instruction
      let leaf : Sim.Instr := match Sim.OpTbl.get .MAIN (mget s.mem s.pc) with
        | .prefix_ tbl => tbl.get (mget s.mem ((s.pc + 1) % 65536))
        | i => i
      let opcode := mget s.mem s.pc
      let res : Option (St MemLog × TS × List String × String) :=
        if opcode = 0x3D ∧ accelDecA ≠ 0 then
          let j := PyInt.land accelDecA 1 ≠ 0
          let p := PyInt.land accelDecA 2 ≠ 0
          some (decAHook j p s, ts, [], "deca-" ++ kindName (decAKind j p s))
        else
          let port : Option Int := match leaf with
            | .in_a => some (mget s.mem ((s.pc + 1) % 65536) + 256 * rget s.reg 0)
            | .in_c _ _ => if inRC ≠ 0 then some (rget s.reg 3 + 256 * rget s.reg 2) else none
            | _ => none
          match port with
          | none => some (Sim.step cfg s, ts, [], "plain")
          | some p =>
            match readPort tcfg accs sigMatch ts s.reg s.pc s.t s.iff p with
            | none => none
            | some pr =>
              let s1 := { s with reg := pr.regs, t := pr.t, ins := [pr.value] }
              -- the fast-forward as TRANSLATED from the source of this implementation (Gen/PyLoad.lean: `_read_port.func`,
              -- Gen/CLoad/read_port.lean: `read_port`) on the same inputs: it must be what the hand model `accelerate` computed
              -- (registers, clock, iterations skipped, parity of the edge index = the value returned)
              let derivedOk : Bool := match pr.hit.bind findAcc with
                | none => true
                | some a =>
                  if impl = "c" then
                    let r := CSimH.Load.read_port_ffwd cfg a ts s.pc { index := ts.index, loops := 0, tsl_miss := 1, hits := 0 } s
                    r.1.reg == pr.regs && r.1.t == pr.t && r.2.loops == pr.loops && ((r.2.index % 2 == 0) == (pr.value == 191))
                      && r.2.tsl_miss == 0 && r.2.hits == 1
                  else
                    match PyLoad.read_port_ffwd cfg a ts ts.index 0 0 s with
                    | none => false
                    | some r => r.1.reg == pr.regs && r.1.t == pr.t && r.2.loops == pr.loops && ((r.2.index % 2 == 0) == (pr.value == 191))
                                  && r.2.hits == 1
              some (Sim.step cfg s1, pr.ts, pr.msgs ++ (if derivedOk then [] else ["DERIVED-FAST-FORWARD-DIFFERS-FROM-MODEL"]),
                    s!"in loops={pr.loops} hit={pr.hit.getD "-"} miss={if pr.miss then 1 else 0}")
      match res with
      | none => "err index"
      | some (s', ts, msgs, tag) =>
        let tst := s'.t
        let (ts, intNow) := frameAdvance tcfg ts tst
        if intNow ∧ s'.iff ≠ 0 then "unmodelled interrupt" else
        match tapeAdvance tcfg ts tst with
        | none => "err index"
        | some (ts, msgs2, keysStop) =>
          let pc' := s'.pc
          let stopO : Option Int := if stop < 0 then none else some stop
          let sc : String :=
            if keysStop then "5"
            else if pc' = 0x0556 ∧ PyInt.land out7ffd 0x10 ≠ 0 ∧ fastLoad ≠ 0 ∧ ¬ (some pc' = stopO ∧ (ts.ended ≠ 0 ∨ finishTape = 0)) then "fastload"
            else match stopCond ts stopO (finishTape ≠ 0) timeout pc' tst with
              | some n => toString n
              | none => "run"
          s!"{showInts s'.reg.toList} ; {s'.pc} {s'.t} {s'.iff} {s'.im} {s'.halt} ; {showTS ts} ; {"|".intercalate (msgs ++ msgs2)} ; {sc} ; {tag} ; {showPairsI s'.mem.writes.reverse}"
    | _, _, _, _, _, _, _, _, _, _ => "bad-op parse"
  | _ => "bad-op shape"

def showWalk (a : Accel) : String :=
  match walk a with
  | none => "none"
  | some w =>
    let ops := " ".intercalate (w.counterOps.map fun (r, i) => s!"{r}:{if i then 1 else 0}")
    s!"t={w.t} m1={w.m1} ops={ops} setsR={if w.setsR then 1 else 0} inputs={w.inputs} steps={w.steps} ok={if checkAccel a then 1 else 0}"

def handle (line : String) : String :=
  match words line with
  | ["dec", c] => match c.toInt? with
    | some c => showPairsI ((List.range 256).map fun (a : Nat) => ltDEC c (a : Int))
    | none => "bad-op"
  | ["inc0"] => showPairsI ((List.range 256).map fun (a : Nat) => ltINC0 (a : Int))
  | ["dec0"] => showPairsI ((List.range 256).map fun (a : Nat) => ltDEC0 (a : Int))
  | ["walk", n] => match findAcc n with
    | some a => showWalk a
    | none => "unknown"
  | ["acc", n] => match findAcc n with
    | some a =>
      let code := " ".intercalate (a.code.map fun | none => "?" | some b => toString b)
      s!"{code} ; {a.c0} {a.c1} {a.counter} {a.inc} {a.loopTime} {a.loopRInc} {a.ear} {a.earMask} {a.polarity}"
    | none => "unknown"
  | ["names"] => " ".intercalate (accelerators.map (·.name))
  | "deca" :: _ => doDecA line
  | "lstep" :: _ => doLStep line
  | _ => "bad-op"

def main : IO Unit := loop handle
