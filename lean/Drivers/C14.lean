import SkoolVerif.Prelude.Proto
import SkoolVerif.Model.SnaCtl
open Proto SnaCtl

/-!
Line protocol for the C14 correspondence check. Sections are separated by `|`.

* `nomap S E minCode minData | textchars | words | mem | dec`
* `map   S E minCode minData | textchars | words | mem | dec0 | dec | dis | addresses`
  (`dec0` = decode table without the RST handler, used by `read_map`)
* `ft    S E ctl from | dict | dec`          (`ctl` = `-`, `c` or `U`)
* `cb    S E | dec | addresses`
* `text  S E minLen | textchars | words | mem`

`mem` = the bytes at S..E-1; `dec` = `size max_count op_id` per address S..E-1 (from the real
`opcodes.decode`); `dis` = `size ref jump` per address (`-1` = None) from the real Disassembler;
`words` = byte strings separated by `,`; `dict` = `addr:letter` items.
-/

def sections (line : String) : List (List String) := (line.splitOn "|").map words

def parseCtl? : String → Option Ctl
  | "b" => some .b | "c" => some .c | "i" => some .i | "s" => some .s | "t" => some .t | "U" => some .U
  | _ => none

def showDict (d : Dict) : String :=
  " ".intercalate (d.map (fun kv => toString kv.1 ++ ":" ++ kv.2.letter))

def showPairs (l : List (Nat × Nat)) : String :=
  " ".intercalate (l.map (fun kv => toString kv.1 ++ ":" ++ toString kv.2))

def parseDict? (ws : List String) : Option Dict :=
  ws.mapM (fun w => match w.splitOn ":" with
    | [k, v] => do
      let k ← k.toNat?
      let v ← parseCtl? v
      pure (k, v)
    | _ => none)

def mkMem (s : Nat) (l : List Nat) : Mem :=
  let a := l.toArray
  fun x => if s ≤ x then a.getD (x - s) 0 else 0

/-- `size max op` triples -/
def mkDec? (s : Nat) (l : List Nat) : Option Dec :=
  if l.length % 3 ≠ 0 then none else
  let a := l.toArray
  some (fun x =>
    if s ≤ x ∧ 3 * (x - s) + 2 < a.size then
      { size := a.getD (3 * (x - s)) 1, maxCount := a.getD (3 * (x - s) + 1) 0, opId := a.getD (3 * (x - s) + 2) 0 }
    else { size := 1, maxCount := 0, opId := 0 })

def optOfInt (i : Int) : Option Nat := if i < 0 then none else some i.toNat

def mkDis? (s : Nat) (l : List Int) : Option Dis :=
  if l.length % 3 ≠ 0 then none else
  let a := l.toArray
  some (fun x =>
    if s ≤ x ∧ 3 * (x - s) + 2 < a.size then
      { size := (a.getD (3 * (x - s)) 1).toNat, ref := optOfInt (a.getD (3 * (x - s) + 1) (-1)),
        jump := optOfInt (a.getD (3 * (x - s) + 2) (-1)) }
    else { size := 1, ref := none, jump := none })

def splitWords (ws : List String) : Option (List (List Nat)) :=
  let groups := ws.foldr (fun w acc => match acc with
    | [] => [[w]]
    | g :: gs => if w = "," then [] :: g :: gs else (w :: g) :: gs) [[]]
  (groups.filter (· ≠ [])).mapM nats?

def mkCfg? (minCode minData : Nat) (tc wordsSec : List String) : Option Cfg := do
  let tcs ← nats? tc
  let ws ← splitWords wordsSec
  pure { isText := fun b => tcs.contains b, minCode := minCode, minData := minData, words := ws }

def showRes : Except FtErr Dict → String
  | .ok d => "ok " ++ showDict d
  | .error .fuel => "err fuel"

def handle (line : String) : String :=
  match sections line with
  | ["nomap", s, e, mc, md] :: tc :: ws :: mem :: dec :: [] =>
    (do
      let s ← s.toNat?; let e ← e.toNat?; let mc ← mc.toNat?; let md ← md.toNat?
      let cfg ← mkCfg? mc md tc ws
      let mem ← nats? mem
      let dec ← nats? dec >>= mkDec? s
      pure ("ok " ++ showDict (genNoMap dec (mkMem s mem) cfg s e))).getD "bad-op"
  | ["map", s, e, mc, md] :: tc :: ws :: mem :: dec0 :: dec :: dis :: addrs :: [] =>
    (do
      let s ← s.toNat?; let e ← e.toNat?; let mc ← mc.toNat?; let md ← md.toNat?
      let cfg ← mkCfg? mc md tc ws
      let mem ← nats? mem
      let dec0 ← nats? dec0 >>= mkDec? s
      let dec ← nats? dec >>= mkDec? s
      let dis ← ints? dis >>= mkDis? s
      let addrs ← nats? addrs
      pure (showRes (genMap dec0 dec dis (mkMem s mem) cfg s e addrs))).getD "bad-op"
  | ["ft", s, e, ctl, from_] :: d :: dec :: [] =>
    (do
      let s ← s.toNat?; let e ← e.toNat?; let from_ ← from_.toNat?
      let ctl ← if ctl = "-" then some none else (parseCtl? ctl).map some
      let d ← parseDict? d
      let dec ← nats? dec >>= mkDec? s
      pure (match findTerminal dec e ctl d from_ with
        | .ok (d', a) => "ok " ++ toString a ++ " | " ++ showDict d'
        | .error .fuel => "err fuel")).getD "bad-op"
  | ["cb", s, _e] :: dec :: addrs :: [] =>
    (do
      let s ← s.toNat?
      let dec ← nats? dec >>= mkDec? s
      let addrs ← nats? addrs
      pure ("ok " ++ showPairs (codeBlocks dec addrs))).getD "bad-op"
  | ["text", s, e, ml] :: tc :: ws :: mem :: [] =>
    (do
      let s ← s.toNat?; let e ← e.toNat?; let ml ← ml.toNat?
      let cfg ← mkCfg? ml ml tc ws
      let mem ← nats? mem
      pure ("ok " ++ showPairs (textBlocks cfg (mkMem s mem) ml s e))).getD "bad-op"
  | _ => "bad-op"

def main : IO Unit := loop handle
