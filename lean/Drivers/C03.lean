import SkoolVerif.Prelude.Proto
import SkoolVerif.Model.CtlLengths
import SkoolVerif.Model.CtlCompose
import SkoolVerif.Model.CtlText
import SkoolVerif.Model.CtlComments
open Proto CtlLengths CtlCompose CtlText CtlComments

/-! Line protocol for the C03 models.  Strings travel as space-separated character codes. -/

def codes (t : Str) : String := " ".intercalate (t.map (fun c => toString c.toNat))
def ofCodes (ws : List String) : Option Str := (nats? ws).map (·.map Char.ofNat)

def splitBar (ws : List String) : List (List String) :=
  let rec go (cur : List String) : List String → List (List String)
    | [] => [cur.reverse]
    | w :: r => if w = "|" then cur.reverse :: go [] r else go (w :: cur) r
  go [] ws

def pair? (sep : Char) (w : String) : Option (Nat × Nat) :=
  match w.splitOn (String.singleton sep) with
  | [a, b] => do let x ← a.toNat?; let y ← b.toNat?; pure (x, y)
  | _ => none

def baseOfName (w : String) : Option Base :=
  match w with
  | "b" => some .b | "c" => some .c | "d" => some .d | "h" => some .h | "m" => some .m | "n" => some .n
  | _ => none

def sl? (ws : List String) : Option (List (Nat × Base)) :=
  ws.mapM (fun w => match w.splitOn ":" with
    | [a, b] => do let x ← a.toNat?; let y ← baseOfName b; pure (x, y)
    | _ => none)

def kind? (w : String) : Option Kind := if w = "B" then some .B else if w = "T" then some .T else none

def showPairs (sep : String) (l : List (Nat × Nat)) : String :=
  " ".intercalate (l.map (fun p => toString p.1 ++ sep ++ toString p.2))

def optId (o : Option Nat) : Nat := match o with | some a => a + 1 | none => 0
def idOpt (n : Nat) : Option Nat := if n = 0 then none else some (n - 1)

def showGroups (gs : List (List Nat)) : String :=
  " | ".intercalate (gs.map showNats)

def handle (line : String) : String :=
  match words line with
  | "abbrev" :: rest => match nats? rest with
    | some xs => "ok " ++ showPairs "*" (getLengths xs)
    | none => "bad-op"
  | "expand" :: rest => match rest.mapM (pair? '*') with
    | some gs => "ok " ++ showNats (expand gs)
    | none => "bad-op"
  | "trim" :: rest => match nats? rest with
    | some xs => "ok " ++ showNats (trimTail xs)
    | none => "bad-op"
  | "trimabbrev" :: rest => match nats? rest with
    | some xs => "ok " ++ showPairs "*" (getLengths (trimTail xs))
    | none => "bad-op"
  | "layout" :: t :: rest => match t.toNat?, nats? rest with
    | some total, some xs => "ok " ++ showNats (layout (fun n : Nat => n) total xs)
    | _, _ => "bad-op"
  | "cmerge" :: tr :: rest => match rest.mapM (pair? ':') with
    | some ps =>
      let m := cMerge (ps.map (fun p => (idOpt p.1, p.2)))
      let (off, m2) := if tr = "1" then cTrim m else (0, m)
      "ok " ++ toString off ++ " " ++ showPairs ":" (m2.map (fun p => (optId p.1, p.2)))
    | none => "bad-op"
  | "defb" :: hx :: lw :: k :: rest =>
    match kind? k, splitBar rest with
    | some kind, [d, slw] => match nats? d, sl? slw with
      | some data, some sl =>
        let cfg : Cfg := ⟨hx = "1"⟩
        match defbItems cfg data sl with
        | some toks => "ok " ++ codes (showStatement cfg (lw = "1") kind toks)
        | none => "err index"
      | _, _ => "bad-op"
    | _, _ => "bad-op"
  | "compose" :: pb :: rest => match ofCodes rest with
    | some op => match composeText (pb = "1") op with
      | .ok (c, len, sub) => "ok " ++ toString c ++ " " ++ toString len ++ " " ++ codes sub
      | .error .unsupported => "err unsupported"
      | .error .invalidInt => "err invalidInt"
    | none => "bad-op"
  | "parse" :: c :: d :: rest => match ofCodes rest with
    | some spec => match parseSublengths spec (c.toList.headD 'B') (if d = "-" then [] else d.toList) with
      | .ok (len, ls) => "ok " ++ toString len ++ " " ++
          " ".intercalate (ls.map (fun p => toString p.1 ++ ":" ++ String.ofList p.2))
      | .error _ => "err invalidInt"
    | none => "bad-op"
  | "fix" :: hx :: lw :: k :: rest =>
    match kind? k, splitBar rest with
    | some kind, [d, slw] => match nats? d, sl? slw with
      | some data, some sl =>
        let cfg : Cfg := ⟨hx = "1"⟩
        match defbItems cfg data sl with
        | none => "err index"
        | some toks =>
          -- skool2ctl -b on the rendered text, then the ctl parser, then sna2skool again
          match composeText true (showStatement cfg (lw = "1") kind toks) with
          | .error _ => "err unsupported"
          | .ok (c, len, sub) =>
            match parseSublengths sub c (match kind with | .B => ['n'] | .T => ['c']) with
            | .error _ => "err invalidInt"
            | .ok (_, ls) =>
              match defbItems cfg data (ls.map (fun p => (p.1, baseOfStr p.2))) with
              | none => "err index2"
              | some toks2 => "ok " ++ toString len ++ " " ++ codes sub ++ " | " ++
                  codes (showStatement cfg (lw = "1") kind toks2)
      | _, _ => "bad-op"
    | _, _ => "bad-op"
  | "esc" :: n :: rest => match n.toNat?, ofCodes rest with
    | some n, some t => match escapeComment n t with
      | some r => "ok " ++ codes r
      | none => "none"
    | _, _ => "bad-op"
  | "unesc" :: n :: rest => match n.toNat? with
    | some n =>
      if rest = ["none"] then "ok " ++ codes (unescapeComment n none) ++ " ml=" ++ toString (multiLine n none)
      else match ofCodes rest with
        | some t => "ok " ++ codes (unescapeComment n (some t)) ++ " ml=" ++ toString (multiLine n (some t))
        | none => "bad-op"
    | none => "bad-op"
  | "wrap" :: w :: rest => match w.toNat?, nats? rest with
    | some width, some lens =>
      -- words are identified by their position; `len` looks the length up
      let ws := List.range lens.length
      let ls := wrapGreedy (fun i => lens.getD i 0) width ws
      "ok " ++ showNats (ls.map List.length)
    | _, _ => "bad-op"
  | "split" :: rest => match (splitBar rest).mapM nats? with
    | some lines => "ok " ++ showGroups (splitParas 0 lines)
    | none => "bad-op"
  | "wparas" :: w :: rest => match w.toNat?, (splitBar rest).mapM nats? with
    | some width, some ps =>
      -- words are numbers ≥ 1 whose length is the number itself; 0 is the word '.'
      "ok " ++ showGroups (writeParas 0 (wrapGreedy (fun x : Nat => if x = 0 then 1 else x) width) ps)
    | _, _ => "bad-op"
  | "wgroup" :: rest => match (splitBar rest).mapM nats? with
    | some groups =>
      "ok " ++ " ".intercalate ((writeGrouped 0 groups).map (fun p => (if p.1 then ":" else ".") ++ toString p.2))
    | none => "bad-op"
  | "rkeep" :: n :: rest => match n.toNat? with
    | some n =>
      let ls := rest.mapM (fun w => match w.toList with
        | '.' :: r => (String.ofList r).toNat?.map (fun v => (false, v))
        | ':' :: r => (String.ofList r).toNat?.map (fun v => (true, v))
        | _ => none)
      match ls with
      | some lines => match readKeep 0 n lines with
        | some gs => "ok " ++ showGroups gs
        | none => "none"
      | none => "bad-op"
    | none => "bad-op"
  | _ => "bad-op"

def main : IO Unit := loop handle
