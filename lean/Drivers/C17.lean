import SkoolVerif.Prelude.Proto
import SkoolVerif.Model.MacroExpand
open Proto MacroText MacroExpr MacroArgs MacroOps MacroExpand

def codes? (ws : List String) : Option Text :=
  (nats? ws).map (fun l => l.map Char.ofNat)

def showText (t : Text) : String := " ".intercalate (t.map (fun c => toString c.toNat))

def showEval : EvalRes → String
  | .ok v => s!"ok {v}"
  | .error .err => "err"
  | .error .unsup => "unsup"

def showErr : MErr → String
  | .noParams => "err macro NoParametersError"
  | .missing => "err macro MissingParameterError"
  | .tooMany => "err macro TooManyParametersError"
  | .invalid => "err macro InvalidParameterError"
  | .formatting => "err macro FormattingError"
  | .closing => "err macro ClosingBracketError"
  | .parsing => "err macro MacroParsingError"
  | .skool m => "err skool #" ++ String.ofList m
  | .unknown m => "err unknown #" ++ String.ofList m
  | .py e => "err py " ++ e
  | .unsup => "unsup"
  | .fuel => "fuel"

def showOptText : Option Text → String
  | some t => showText t
  | none => "N"

def showOptInt : Option Int → String
  | some v => toString v
  | none => "N"

def initMem : Mem := fun a => if a = 32768 then 201 else 0

def fuel : Nat := 400

/-- Identity expander for the stand-alone `parse_ints` tie (`_writer` unset). -/
def idExp : Expander Unit := fun s t => .ok (s, t)

def step (st : St) (line : String) : St × String :=
  match words line with
  | ["R", h, b, c] =>
    match h.toNat?, b.toNat?, c.toNat? with
    | some h, some b, some c => (initSt (h = 1) b c initMem, "ok")
    | _, _, _ => (st, "bad-op")
  | "X" :: rest =>
    match codes? rest with
    | some t =>
      (match expand fuel st t with
       | .ok (st', out) => (st', "ok " ++ showText out)
       | .error e => (st, showErr e))
    | none => (st, "bad-op")
  | ["K", a] =>
    match a.toInt? with
    | some a => (st, s!"ok {peek st.snap.mem a}")
    | none => (st, "bad-op")
  | "E" :: rest =>
    match codes? rest with
    | some t => (st, showEval (evaluate t))
    | none => (st, "bad-op")
  | "U" :: rest =>
    match codes? rest with
    | some t =>
      (match splitUnbracketed t with
       | .ok parts => (st, "ok " ++ " ; ".intercalate (parts.map showText))
       | .error e => (st, showErr e))
    | none => (st, "bad-op")
  | "S" :: mode :: rest =>
    match codes? rest with
    | some t =>
      if mode = "1" then
        (match parseString1 t with
         | .ok (p, r) => (st, s!"ok {r.length} ; " ++ showText p)
         | .error e => (st, showErr e))
      else
        let (num, defaults) : Nat × List (Option Text) :=
          if mode = "0" then (0, []) else if mode = "2" then (2, [some []]) else if mode = "3" then (2, [some [], some []])
          else (4, [some [], none])
        (match parseStrings t num defaults with
         | .ok (parts, r) => (st, s!"ok {r.length} ; " ++ " ; ".intercalate (parts.map showOptText))
         | .error e => (st, showErr e))
    | none => (st, "bad-op")
  | "I" :: mode :: rest =>
    match codes? rest with
    | some t =>
      let (num, defaults) : Nat × List (Option Int) :=
        if mode = "1" then (1, []) else if mode = "3" then (3, [some 10, some 1]) else if mode = "4" then (4, [some 1, some 0])
        else (5, [none, some 1, some 0, some 0])
      (match parseInts idExp (fun _ => ([] : Fields)) () t num defaults with
       | .ok (_, vals, r) => (st, s!"ok {r.length} " ++ " ".intercalate (vals.map showOptInt))
       | .error e => (st, showErr e))
    | none => (st, "bad-op")
  | _ => (st, "bad-op")

def main : IO Unit := loopSt (initSt false 0 0 initMem) step
