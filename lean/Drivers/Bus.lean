import SkoolVerif.Prelude.SimProto
import SkoolVerif.Spec.Z80Bus
/-! C19: evaluates the bus specification `Spec/Z80Bus.lean` on a state given in the simulator drivers'
line format.  The output reuses the state line: PC field = T-states of the instruction's cycles without
waits, T field = `busDelay` (SkoolKit's reading of OTIR/OTDR), MEMPTR field = `busDelay` (documented reading). -/
open Z80Bus Spec Z80Decode in
def main : IO Unit := Proto.loop (SimProto.runLine (fun cfg s =>
  let i := decode (fetch s).1 (fetch s).2.toNat
  { s with pc := cyclesLen (busCycles .documented s i), t := busDelay .skoolkit cfg s i,
           memptr := busDelay .documented cfg s i }))
