import SkoolVerif.Prelude.Proto
import SkoolVerif.Model.Wrap
import SkoolVerif.Model.AsmRows
import SkoolVerif.Model.Braces
open Proto Wrap AsmRows Braces

def showLines (ls : List (List Nat)) : String :=
  "ok " ++ toString ls.length ++ String.join (ls.map fun l => " | " ++ showNats l)

/-- split a token list at "|" tokens -/
def splitBar (ws : List String) : List (List String) :=
  let r := ws.foldr (fun t (acc : List String × List (List String)) =>
    if t = "|" then ([], acc.1 :: acc.2) else (t :: acc.1, acc.2)) ([], [])
  r.1 :: r.2

/-- `rowspan nOp op… text…` -/
def parseInstr (ws : List String) : Option Instr :=
  match nats? ws with
  | some (rs :: n :: rest) =>
    if n ≤ rest.length then some { rowspan := rs, op := rest.take n, text := rest.drop n } else none
  | _ => none

def showEv : Ev → String
  | .pfx i => "P" ++ toString i
  | .row _ _ s => ("L " ++ showNats s).trimAsciiEnd.toString
  | .warn n => "W " ++ toString n

def showErr : RowErr → String
  | .noInstr => "err noInstr"
  | .valueError => "err ValueError"
  | .formatError => "err formatError"
  | .fuel => "err nonterminating"

/-- split a token list at a separator token -/
def splitTok (sep : String) (ws : List String) : List (List String) :=
  let r := ws.foldr (fun t (acc : List String × List (List String)) =>
    if t = sep then ([], acc.1 :: acc.2) else (t :: acc.1, acc.2)) ([], [])
  r.1 :: r.2

/-- an instruction's comment lines: `N` (no instruction) or lines separated by `/` -/
def parseLines (ws : List String) : Option (Option (List (List Nat))) :=
  if ws = ["N"] then some none else ((splitTok "/" ws).mapM nats?).map some

def showLinesSlash (ls : List (List Nat)) : String := " / ".intercalate (ls.map showNats)

def handle (line : String) : String :=
  match words line with
  | "wrap" :: w :: rest => match w.toInt?, nats? rest with
    | some w, some t => match wrapText t w with
      | .ok ls => showLines ls
      | .error .valueError => "err ValueError"
    | _, _ => "bad-op"
  | "split" :: rest => match nats? rest with
    | some t => showLines (split (munge t))
    | none => "bad-op"
  | "words" :: w :: rest => match w.toNat?, nats? rest with
    -- textbook greedy wrap of the whitespace-separated words of the text
    | some w, some t =>
      let ws := (split (munge t)).filter fun c => !blank c
      showLines ((wrapWords w ws).map fun l => (spaced l).flatten)
    | _, _ => "bad-op"
  | "comment" :: lw :: started :: rest =>
    -- paragraphs separated by "|"
    match lw.toInt?, started.toNat?, (splitBar rest).mapM nats? with
    | some lw, some st, some ps =>
      let cfg : Cfg := { indent := [], indentWidth := 0, instrWidth := 0, minCommentWidth := 0, lineWidth := lw }
      match printCommentLines cfg ps (st != 0) with
      | .ok evs => "ok" ++ String.join (evs.map fun e => " | " ++ showEv e)
      | .error e => showErr e
    | _, _, _ => "bad-op"
  | "decode" :: rest =>
    match (splitBar rest).mapM parseLines with
    | some cs =>
      "ok" ++ String.join ((decodeAll cs.length cs).map fun r => " | " ++ toString r.1 ++ " : " ++ showNats r.2)
    | none => "bad-op"
  | "snafmt" :: n :: w :: rest =>
    match n.toNat?, w.toInt?, nats? rest with
    | some n, some w, some t =>
      match snaFormat n t w with
      | .ok r => "ok" ++ String.join (r.map fun c => " | " ++ match c with
          | none => "N"
          | some ls => showLinesSlash ls)
      | .error _ => "err ValueError"
    | _, _, _ => "bad-op"
  | "rows" :: rest =>
    match splitBar rest with
    | cfgw :: instrs => match ints? cfgw, instrs.mapM parseInstr with
      | some [lw, iw, tab, instrw, mincw], some ins =>
        let cfg : Cfg := { indent := if tab ≠ 0 then [9] else List.replicate iw.toNat 32,
                           indentWidth := if tab ≠ 0 then 8 else iw, instrWidth := instrw,
                           minCommentWidth := mincw, lineWidth := lw }
        match printInstructions cfg ins with
        | .ok evs => "ok" ++ String.join (evs.map fun e => " | " ++ showEv e)
        | .error e => showErr e
      | _, _ => "bad-op"
    | _ => "bad-op"
  | _ => "bad-op"

def main : IO Unit := loop handle
