import SkoolVerif.Prelude.Proto
import SkoolVerif.Model.Edges
import SkoolVerif.Model.TapeFiles
import SkoolVerif.Model.TzxFile
open Proto Edges TapeFiles TzxFile

/-! Line protocol for C11.
`edges <first_edge> <polarity> B <block> B <block> …` where `<block>` is
`np (count dur)*np  nz z*nz  no o*no  pause used_bits is_data tail polarity(-1=None) keys(-1=None) nd byte*nd`
→ `ok e0 e1 … | start end fast keys nd byte* ; …`
-/

def takeNats (l : List Int) : Option (List Nat × List Int) :=
  match l with
  | n :: rest =>
    if n < 0 then none else
    let k := n.toNat
    if rest.length < k then none else
    let xs := rest.take k
    if xs.all (· ≥ 0) then some (xs.map Int.toNat, rest.drop k) else none
  | [] => none

def pairUp : List Nat → List (Nat × Nat)
  | a :: b :: rest => (a, b) :: pairUp rest
  | _ => []

def optNat (i : Int) : Option Nat := if i < 0 then none else some i.toNat

def parseBlock (l : List Int) : Option Block :=
  match l with
  | np :: rest0 =>
    if np < 0 then none else
    match takeNats ((2 * np) :: rest0) with
    | none => none
    | some (ps, rest1) =>
    match takeNats rest1 with
    | none => none
    | some (zero, rest2) =>
    match takeNats rest2 with
    | none => none
    | some (one, rest3) =>
    match rest3 with
    | pause :: ub :: isData :: tail :: tpol :: keys :: rest4 =>
      if pause < 0 || ub < 0 || tail < 0 then none else
      match takeNats rest4 with
      | some (data, []) =>
        if data.all (· < 256) then
          some { timings := { pulses := pairUp ps, zero := zero, one := one, pause := pause.toNat,
                              usedBits := ub.toNat, isData := isData ≠ 0, tail := tail.toNat,
                              polarity := optNat tpol },
                 data := data, keys := optNat keys }
        else none
      | _ => none
    | _ => none
  | [] => none

def showOpt : Option Nat → String
  | none => "-1"
  | some k => toString k

def showDb (d : DataBlock) : String :=
  " ".intercalate ([toString d.start, toString d.stop, if d.fastLoad then "1" else "0", showOpt d.keys,
                    toString d.data.length] ++ d.data.map toString)

def splitB (ws : List String) : List (List String) :=
  let rec go (cur : List String) (acc : List (List String)) : List String → List (List String)
    | [] => (cur.reverse :: acc).reverse
    | w :: rest => if w = "B" then go [] (cur.reverse :: acc) rest else go (w :: cur) acc rest
  go [] [] ws

def handleEdges (ws : List String) : String :=
  match splitB ws with
  | hd :: blks =>
    match ints? hd, blks.mapM (fun b => (ints? b).bind parseBlock) with
    | some [fe, pol], some blocks =>
      let (edges, dbs) := getEdges blocks fe pol
      "ok " ++ showInts edges ++ " | " ++ " ; ".intercalate (dbs.map showDb)
    | _, _ => "bad-op"
  | [] => "bad-op"

def showErr : Err → String
  | .index => "err index"
  | .value => "err value"
  | .notPzx => "err notpzx"

/-- `B d d d B d d` → list of byte lists -/
def parseBlocks (ws : List String) : Option (List (List Nat)) :=
  match splitB ws with
  | [] :: blks => blks.mapM nats?
  | _ => none

def handleWtap (ws : List String) : String :=
  match parseBlocks ws with
  | some bs => match writeTap bs with
    | .ok r => "ok " ++ showNats r
    | .error e => showErr e
  | none => "bad-op"

def handleWpzx (ws : List String) : String :=
  match parseBlocks ws with
  | some bs => match writePzx bs with
    | .ok r => "ok " ++ showNats r
    | .error e => showErr e
  | none => "bad-op"

/-- `start stop nskip skip* | byte*` -/
def parseOpts (ws : List String) : Option (Int × Int × List Nat × List Nat) :=
  match ws.span (· ≠ "|") with
  | (opts, _ :: bytes) =>
    match ints? opts, nats? bytes with
    | some (start :: stop :: _ :: skip), some bs =>
      if skip.all (· ≥ 0) && bs.all (· < 256) then some (start, stop, skip.map Int.toNat, bs) else none
    | _, _ => none
  | _ => none

def showWarn : TapWarning → String
  | .none => "none"
  | .extraneous => "extraneous"
  | .missing n => "missing " ++ toString n

def handlePtap (ws : List String) : String :=
  match parseOpts ws with
  | some (start, stop, skip, bs) =>
    let r := parseTap bs start stop skip
    "ok " ++ showWarn r.warning ++ " ; " ++
      " ; ".intercalate (r.blocks.map fun (n, d) => toString n ++ " " ++ toString d.length ++ " " ++ showNats d)
  | none => "bad-op"

def showTimings (t : Timings) : String :=
  " ".intercalate ([toString t.pulses.length] ++ t.pulses.flatMap (fun (c, d) => [toString c, toString d]) ++
    [toString t.zero.length] ++ t.zero.map toString ++ [toString t.one.length] ++ t.one.map toString ++
    [toString t.pause, toString t.usedBits, if t.isData then "1" else "0", toString t.tail, showOpt t.polarity])

def showOptList : Option (List Nat) → String
  | none => "N"
  | some l => "L " ++ toString l.length ++ " " ++ showNats l

def showKind : Kind → String
  | .pzxt => "PZXT" | .puls => "PULS" | .data => "DATA" | .paus => "PAUS"
  | .brws => "BRWS" | .stop => "STOP" | .other => "other"

def showPzxBlock (nb : Nat × PzxBlock) : String :=
  let b := nb.2
  " ".intercalate [toString nb.1, showKind b.kind,
    match b.timings with | none => "T-" | some t => "T " ++ showTimings t,
    "D " ++ showOptList b.tapeData, if b.standard then "S1" else "S0", "X " ++ showOptList b.blockData]

def handlePpzx (ws : List String) : String :=
  match parseOpts ws with
  | some (start, stop, skip, bs) =>
    match parsePzx bs start stop skip with
    | .ok blocks => "ok " ++ " ; ".intercalate (blocks.map showPzxBlock)
    | .error e => showErr e
  | none => "bad-op"

def showTzxErr : TzxErr → String
  | .index => "err index"
  | .notTzx => "err nottzx"
  | .noVersion => "err noversion"
  | .unknownId id => "err unknown " ++ toString id

def showTzxBlock (nb : Nat × TzxBlock) : String :=
  let b := nb.2
  " ".intercalate [toString nb.1, toString b.id, "D " ++ showOptList b.tapeData,
    match b.timings with | none => "T-" | some t => "T " ++ showTimings t,
    if b.unsupported then "U1" else "U0", if b.standard then "S1" else "S0", "X " ++ showOptList b.blockData]

def handlePtzx (ws : List String) : String :=
  match parseOpts ws with
  | some (start, stop, skip, bs) =>
    match parseTzx bs start stop skip with
    | .ok blocks => "ok " ++ " ; ".intercalate (blocks.map showTzxBlock)
    | .error e => showTzxErr e
  | none => "bad-op"

def handle (line : String) : String :=
  match words line with
  | "edges" :: rest => handleEdges rest
  | "wtap" :: rest => handleWtap rest
  | "wpzx" :: rest => handleWpzx rest
  | "ptap" :: rest => handlePtap rest
  | "ppzx" :: rest => handlePpzx rest
  | "ptzx" :: rest => handlePtzx rest
  | _ => "bad-op"

def main : IO Unit := loop handle
