import Std.Data.HashMap
import SkoolVerif.Prelude.SimProto
import SkoolVerif.Model.RzxInput
import SkoolVerif.Model.RzxPlay
import SkoolVerif.Spec.RzxM1
import SkoolVerif.Gen.SimHandlers
import SkoolVerif.Gen.CmioHandlers
/-!
Line protocol for C20 (one op per line, one canonical output line):

  parse <n> <byte>*                 -> ok fc:start:end ... | err indexError
  values <n> <byte>*                -> ok fc:v,v,.. ...    | err indexError
  info <n> <byte>*                  -> ok fc/ic/count/more/v,v,.. ... | err indexError
  write <frame>*                    -> bytes          (frame = fc:v,v,..)
  writerep <frame>*                 -> bytes
  fdec <opcode> <r0> <r1>           -> fetchDec
  fdecc <opcode> <opcode2> <r0> <r1> -> fetchDecC
  m1 <b0> <b1>                      -> Spec.m1 (M1 cycles from the opcode bytes)
  acc <cmio> <prevpc> ; <machine>   -> <state>
  bnd <cmio> <flags> <lastpc> <nextfc> ; <machine> -> <state>
  play <impl py|c> <sim plain|cmio> <flags> <stop|-> <cnt> ; <machine> ; <frame>*  -> fin|stop <count> ; <state> ; <frame>* | err <kind>
  rec <sim> <flags> ; <machine> ; <n>/<claim>/<v,v,..>*  -> <frame>* ; <state>
  file <impl> <sim> <flags> <stop|-> | <block> | <block> ...     (block = S ; <machine>  or  I <tstates> ; <frame>*)
        -> fin <count> ; <full state> | stop <count> ; <full state> ; <frame>* ; <blocks left> | missing | err <kind>
        (<full state> lists every non-zero cell instead of the cells that changed)

  <machine> = <m48|m128> <frame_duration> <t0> <t1> <o7ffd> ; <24 regs> ; pc t iff im halt memptr ; <cell>*
  <cell>    = addr:value (48K, ROM included) | r<i>.<off>:value | b<i>.<off>:value (128K physical)
  <state>   = <24 regs> ; pc t iff im halt memptr ; <cells that differ from the initial image> ; o7ffd
-/
open Proto Z80 SimProto

namespace D20

def showFrameIx (f : RzxInput.FrameIx) : String := s!"{f.fetch}:{f.start}:{f.stop}"
def showVals (l : List Nat) : String := ",".intercalate (l.map toString)
def showIVals (l : List Int) : String := ",".intercalate (l.map toString)

def parseFrame (w : String) : Option (Nat × List Nat) :=
  match w.splitOn ":" with
  | [a, b] => do
    let fc ← a.toNat?
    let vs ← (if b = "" then some [] else (b.splitOn ",").mapM String.toNat?)
    pure (fc, vs)
  | _ => none

def toInFrame (p : Nat × List Nat) : RzxInput.Frame := ⟨p.1, p.2⟩
def toPlayFrame (p : Nat × List Nat) : Rzx.Frame := ⟨p.1, p.2.map Int.ofNat⟩
def showPlayFrame (f : Rzx.Frame) : String := s!"{f.fetch}:{showIVals f.ins}"

/-- Driver memory: sparse physical cells (default 0) under the address decoding of
`Prelude/Machine.lean` (`Mem48`: flat 64K; `Mem128.slot` / `Mem128.portOut`: `pagingtracer.Memory` +
the tracer's 0x7FFD rule).  Physical index: 48K = address; 128K = ROM i at `i * 16384`, bank i at
`(2 + i) * 16384`. -/
structure Mem where
  cells : Std.HashMap Nat Int
  is128 : Bool
  o7ffd : Int
  trOut7ffd : Int

def Mem.phys (m : Mem) (a : Int) : Nat :=
  if m.is128 then
    let sl := (({ roms := #[], banks := #[], o7ffd := m.o7ffd, trOut7ffd := m.trOut7ffd } : Mem128).slot a)
    (if sl.1 then sl.2 else 2 + sl.2) * 16384 + (a % 16384).toNat
  else a.toNat

instance : MemLike Mem where
  get m a := m.cells.getD (m.phys a) 0
  set m a v := { m with cells := m.cells.insert (m.phys a) v }
  portOut m port value :=
    if m.is128 ∧ PyInt.land port 0x8002 = 0 ∧ PyInt.land m.trOut7ffd 32 = 0 then
      { m with o7ffd := value, trOut7ffd := value }
    else m
  o7ffd m := m.o7ffd
  is128 m := m.is128

def setCell (m : Mem) (w : String) : Option Mem :=
  match w.splitOn ":" with
  | [a, v] => do
    let v ← v.toInt?
    if m.is128 then
      let kind := (a.take 1).toString
      match (a.drop 1).toString.splitOn "." with
      | [i, off] => do
        let i ← i.toNat?
        let off ← off.toNat?
        if kind = "r" then pure { m with cells := m.cells.insert (i * 16384 + off) v }
        else if kind = "b" then pure { m with cells := m.cells.insert ((2 + i) * 16384 + off) v }
        else none
      | _ => none
    else do
      let a ← a.toNat?
      pure { m with cells := m.cells.insert a v }
  | _ => none

structure Machine where
  cfg : Cfg
  st : St Mem

def parseMachine (c r f m : List String) : Option Machine :=
  match c with
  | [kind, fd, t0, t1, o7] => do
    let fd ← fd.toInt?
    let t0 ← t0.toInt?
    let t1 ← t1.toInt?
    let o7 ← o7.toInt?
    let regs ← ints? r
    let fields ← ints? f
    if regs.length ≠ 24 then none else
    match fields with
    | [pc, t, iff, im, halt, memptr] => do
      let m0 : Mem ← (if kind = "m48" then some ({ cells := {}, is128 := false, o7ffd := 0, trOut7ffd := 0 } : Mem)
        else if kind = "m128" then some ({ cells := {}, is128 := true, o7ffd := o7, trOut7ffd := o7 } : Mem)
        else none)
      let mem ← m.foldlM setCell m0
      -- rzxplay's configuration: int_active = 0, RZXTracer has read_port and write_port
      let cfg : Cfg := { frame_duration := fd, int_active := 0, t0 := t0, t1 := t1,
                         in_a_n_tracer := true, in_r_c_tracer := true, ini_tracer := true, out_tracer := true }
      pure { cfg := cfg, st := { reg := regs.toArray, mem := mem, pc := pc, t := t, iff := iff, im := im, halt := halt,
                                 memptr := memptr, ins := [], outs := [], inLog := [] } }
    | _ => none
  | _ => none

def showCell (is128 : Bool) (k : Nat) (v : Int) : String :=
  if is128 then
    let i := k / 16384
    let off := k % 16384
    if i < 2 then s!"r{i}.{off}:{v}" else s!"b{i - 2}.{off}:{v}"
  else s!"{k}:{v}"

def memDiff (m0 m1 : Mem) : String :=
  let changed := m1.cells.toList.filter fun (k, v) => m0.cells.getD k 0 ≠ v
  let sorted := changed.toArray.qsort (fun a b => a.1 < b.1)
  " ".intercalate (sorted.toList.map fun (k, v) => showCell m1.is128 k v)

def showState (m0 : Mem) (s : St Mem) : String :=
  s!"{showInts s.reg.toList} ; {s.pc} {s.t} {s.iff} {s.im} {s.halt} {s.memptr} ; {memDiff m0 s.mem} ; {MemLike.o7ffd s.mem}"

def stepOf (sim : String) (cfg : Cfg) : Option (St Mem → St Mem) :=
  if sim = "plain" then some (Sim.step cfg) else if sim = "cmio" then some (Cmio.step cfg) else none

def showErr : Rzx.Err → String
  | .exhausted => "err exhausted"
  | .leftover => "err leftover"

def parsePlan (w : String) : Option (Nat × List Int × Int) :=
  match w.splitOn "/" with
  | [n, claim, vs] => do
    let n ← n.toNat?
    let claim ← claim.toInt?
    let vs ← (if vs = "" then some [] else (vs.splitOn ",").mapM String.toInt?)
    pure (n, vs, claim)
  | _ => none

def emptyLike (m : Mem) : Mem := { m with cells := {} }

def parseBlock (w : String) : Option (Cfg × Rzx.Block Mem) :=
  match splitOnSemi w with
  | [["S"], c, r, f, m] => do
    let mc ← parseMachine c r f m
    pure (mc.cfg, .snap mc.st)
  | [["I", ts], frames] => do
    let ts ← ts.toInt?
    let fs ← frames.mapM parseFrame
    pure ({}, .input ts (fs.map toPlayFrame))
  | _ => none

def handleFile (line : String) : String :=
  match line.splitOn "|" with
  | hd :: blocks =>
    match words hd, blocks.mapM parseBlock with
    | ["file", impl, sim, flags, stop], some bl =>
      let implV : Option Rzx.Impl := if impl = "py" then some .py else if impl = "c" then some .c else none
      let stopV : Option (Option Nat) := if stop = "-" then some none else (stop.toNat?).map some
      -- the simulator configuration comes with the (first) snapshot
      let cfg? := bl.findSome? fun (c, b) => match b with | .snap _ => some c | _ => none
      match flags.toInt?, implV, stopV, some (cfg?.getD {}) with
      | some fl, some implV, some stopV, some cfg =>
        match stepOf sim cfg with
        | some step =>
          match Rzx.playFile implV (sim = "cmio") fl step stopV (bl.map (·.2)) { snapshot := none, sim := none, count := 0 } with
          | .finished c => match c.sim with
            | some s => s!"fin {c.count} ; {showState (emptyLike s.mem) s}"
            | none => s!"fin {c.count} ; nosim"
          | .stopped s n rem rest =>
            s!"stop {n} ; {showState (emptyLike s.mem) s} ; {" ".intercalate (rem.map showPlayFrame)} ; {rest.length}"
          | .missingSnapshot => "missing"
          | .error e => showErr e
        | none => "bad-op"
      | _, _, _, _ => "bad-op"
    | _, _ => "bad-op"
  | _ => "bad-op"

def handle (line : String) : String :=
  if line.startsWith "file " then handleFile line else
  match splitOnSemi line with
  | [("parse" :: n :: rest)] =>
    match n.toNat?, nats? rest with
    | some n, some d => match RzxInput.parseFrames n d with
      | .ok ixs => "ok " ++ " ".intercalate (ixs.map showFrameIx)
      | .error .indexError => "err indexError"
    | _, _ => "bad-op"
  | [("values" :: n :: rest)] =>
    match n.toNat?, nats? rest with
    | some n, some d => match RzxInput.parseValues n d with
      | .ok fs => "ok " ++ " ".intercalate (fs.map fun f => s!"{f.fetch}:{showVals f.ins}")
      | .error .indexError => "err indexError"
    | _, _ => "bad-op"
  | [("info" :: n :: rest)] =>
    match n.toNat?, nats? rest with
    | some n, some d => match RzxInput.infoFrames n d with
      | .ok rows => "ok " ++ " ".intercalate (rows.map fun r =>
          s!"{r.fetch}/{r.inCounter}/{r.count}/{if r.more then 1 else 0}/{showVals r.shown}")
      | .error .indexError => "err indexError"
    | _, _ => "bad-op"
  | [("write" :: rest)] =>
    match rest.mapM parseFrame with
    | some fs => showNats (RzxInput.writeFrames (fs.map toInFrame))
    | none => "bad-op"
  | [("writerep" :: rest)] =>
    match rest.mapM parseFrame with
    | some fs => showNats (RzxInput.writeRep [] (fs.map toInFrame))
    | none => "bad-op"
  | [["fdec", o, r0, r1]] =>
    match o.toInt?, r0.toInt?, r1.toInt? with
    | some o, some r0, some r1 => toString (Rzx.fetchDec o r0 r1)
    | _, _, _ => "bad-op"
  | [["m1", b0, b1]] =>
    match b0.toInt?, b1.toInt? with
    | some b0, some b1 => toString (Rzx.Spec.m1 b0 b1)
    | _, _ => "bad-op"
  | [["fdecc", o, o2, r0, r1]] =>
    match o.toInt?, o2.toInt?, r0.toInt?, r1.toInt? with
    | some o, some o2, some r0, some r1 => toString (Rzx.fetchDecC o o2 r0 r1)
    | _, _, _, _ => "bad-op"
  | [["acc", cmio, prevpc], c, r, f, m] =>
    match cmio.toNat?, prevpc.toInt?, parseMachine c r f m with
    | some cm, some pp, some mc => showState mc.st.mem (Rzx.acceptInterrupt (cm ≠ 0) pp mc.st)
    | _, _, _ => "bad-op"
  | [["bnd", cmio, flags, lastpc, nextfc], c, r, f, m] =>
    match cmio.toNat?, flags.toInt?, lastpc.toInt?, nextfc.toInt?, parseMachine c r f m with
    | some cm, some fl, some lp, some nf, some mc => showState mc.st.mem (Rzx.boundary (cm ≠ 0) fl lp nf mc.st)
    | _, _, _, _, _ => "bad-op"
  | [["play", impl, sim, flags, stop, cnt], c, r, f, m, frames] =>
    match flags.toInt?, cnt.toNat?, parseMachine c r f m, frames.mapM parseFrame with
    | some fl, some cnt, some mc, some fs =>
      let implV : Option Rzx.Impl := if impl = "py" then some .py else if impl = "c" then some .c else none
      let stopV : Option (Option Nat) := if stop = "-" then some none else (stop.toNat?).map some
      match implV, stopV, stepOf sim mc.cfg with
      | some implV, some stopV, some step =>
        match Rzx.playBlock implV (sim = "cmio") fl step stopV (fs.map toPlayFrame) cnt mc.st with
        | .ok (.finished s n) => s!"fin {n} ; {showState mc.st.mem s} ;"
        | .ok (.stopped s n rem) => s!"stop {n} ; {showState mc.st.mem s} ; {" ".intercalate (rem.map showPlayFrame)}"
        | .error e => showErr e
      | _, _, _ => "bad-op"
    | _, _, _, _ => "bad-op"
  | [["rec", sim, flags], c, r, f, m, plan] =>
    match flags.toInt?, parseMachine c r f m, plan.mapM parsePlan with
    | some fl, some mc, some pl =>
      match stepOf sim mc.cfg with
      | some step =>
        -- the recorder counts M1 cycles by the independent spec (opcode bytes at PC)
        let m1 : St Mem → Int := fun s => Rzx.Spec.m1 (mget s.mem s.pc) (mget s.mem ((s.pc + 1) % 65536))
        let res := Rzx.recBlock (sim = "cmio") fl step m1 pl mc.st
        s!"{" ".intercalate (res.1.map showPlayFrame)} ; {showState mc.st.mem res.2}"
      | none => "bad-op"
    | _, _, _ => "bad-op"
  | _ => "bad-op"

end D20

def main : IO Unit := loop D20.handle
