import SkoolVerif.Prelude.SimProto
import SkoolVerif.Gen.SimHandlers
def main : IO Unit := Proto.loop (SimProto.runLine (fun cfg s => Sim.step cfg s))
