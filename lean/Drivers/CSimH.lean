import SkoolVerif.Prelude.SimProto
import SkoolVerif.Proofs.CVsPyStepDefs
import SkoolVerif.Gen.CH.accept_interrupt
import SkoolVerif.Gen.CCmioH.accept_interrupt
/-! Driver for the model translated from `c/csimulator.c` (`translate/c2lean.py`): the line protocol of
`Drivers/Sim.lean` behind a selector: `p <op>` / `c <op>` one instruction of the plain / -DCONTENTION build;
`pi <prev_pc> <op>` / `ci <prev_pc> <op>` the C function `accept_interrupt` (the return value is appended). -/
def interrupt (f : Z80.Cfg → Int → Z80.St SimProto.MemLog → Z80.St SimProto.MemLog × Int) (rest : String) : String :=
  match (rest.splitOn " ") with
  | pp :: more =>
    match pp.toInt? with
    | some prevPc =>
      -- the return value travels in the (otherwise unused) input log
      SimProto.runLine (fun cfg s => let r := f cfg prevPc s; { r.1 with inLog := [r.2] }) (" ".intercalate more)
    | none => "bad-op prev_pc"
  | _ => "bad-op prev_pc"

def runBuild (line : String) : String :=
  if line.startsWith "p " then SimProto.runLine (fun cfg s => CSimH.step cfg s) (line.drop 2).toString
  else if line.startsWith "c " then SimProto.runLine (fun cfg s => CCmioH.step cfg s) (line.drop 2).toString
  else if line.startsWith "pi " then interrupt (fun cfg p s => CSimH.accept_interrupt cfg p s) (line.drop 3).toString
  else if line.startsWith "ci " then interrupt (fun cfg p s => CCmioH.accept_interrupt cfg p s) (line.drop 3).toString
  else "bad-op build"
def main : IO Unit := Proto.loop runBuild
