import SkoolVerif.Prelude.SimProto
import SkoolVerif.Gen.CmioHandlers
def main : IO Unit := Proto.loop (SimProto.runLine (fun cfg s => Cmio.step cfg s))
