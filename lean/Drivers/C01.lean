import SkoolVerif.Prelude.Proto
import SkoolVerif.Model.CtlLex
import SkoolVerif.Model.BinWriter
open Proto CtlTiling Stmts

/-! Line protocol for C01 (sections of an op are separated by `|`).

* `ctl <min> <max> <line>~<line>~...`   control file text through the lexical layer, the `parse_ctls`
  bookkeeping and `get_blocks`: `ok <blocks> | <ignored lines>` or `err unsupported`
* `defb <defm> <maxSize> <start> <end> <subl> | <mem>`      `_defb_lines`
* `defw <defwSize> <start> <end> <subl> | <mem>`            `defw_range`
* `defs <defbSize> <start> <end> <subl> | <mem>`            `defs_range`
* `sub <ctl> <defb> <defm> <defw> <start> <end> <subl> | <mem>`   the data sub-block loop of `_create_entries`
* `walk <wrap> <start> <end> <lo> | <window> | <a:len ...> | <a:W|B:subl ...>`   `disassemble` with a length oracle
* `emit <wrap> <defb> <defm> <defw> <min> <max> <lo> | <window> | <a:len ...> | <ctl text>`  ctl -> statements
* `bin <item> ... / <item> ...`   (`o`, `o<addr>`, `i<addr>:<blank>:<b.b.b>`; `/` = blank line) BinWriter placement and the written file
* `rt ...` like `emit`: the file skool2bin writes for the statements

Statements print as `addr/kind/bytes/assembled` (`kind` B M W S C I; byte lists joined by `.`).
-/

def showSublens (sl : Sublens) : String :=
  "+".intercalate (sl.map (fun p => toString p.1 ++ "." ++ p.2))

def showSub (s : Sub) : String :=
  String.singleton s.ctl ++ ":" ++ toString s.start ++ ":" ++ toString s.end_ ++ ":" ++ showSublens s.sublengths

def showBlock (b : Block) : String :=
  String.singleton b.ctl ++ ":" ++ toString b.start ++ ":" ++ toString b.end_ ++ "[" ++ " ".intercalate (b.subs.map showSub) ++ "]"

def showBlocks (bs : List Block) : String := " ".intercalate (bs.map showBlock)

def dots (l : List Nat) : String := ".".intercalate (l.map toString)

def showStmt (asm : Nat → List Nat) (s : Stmt) : String :=
  let kind := match s.op with
    | .defb false _ => "B" | .defb true _ => "M" | .defw _ => "W" | .defs _ _ => "S" | .code _ => "C" | .blank => "I"
  toString s.addr ++ "/" ++ kind ++ "/" ++ dots s.bytes ++ "/" ++ dots (s.op.assemble asm)

def showStmts (asm : Nat → List Nat) (l : List Stmt) : String := "ok " ++ " ".intercalate (l.map (showStmt asm))

def showErr : Stmts.Err → String
  | .index => "err index" | .key => "err key" | .value => "err value"

def showRes (r : Except Stmts.Err (List Stmt)) : String :=
  match r with
  | .ok l => showStmts (fun _ => []) l
  | .error e => showErr e

/-- `n.base+n.base` -/
def parseSublens (s : String) : Option Sublens :=
  if s = "-" then some [] else
  (s.splitOn "+").mapM (fun item =>
    match item.splitOn "." with
    | [n, b] => n.toNat?.map (fun k => (k, b))
    | _ => none)

def sections (cs : List Char) : List (List String) :=
  (CtlLex.splitOn '|' cs).map (fun sec => words (String.ofList sec))

def parsePairs (ws : List String) : Option (List (Nat × Nat)) :=
  ws.mapM (fun w => match w.splitOn ":" with
    | [a, b] => match a.toNat?, b.toNat? with
      | some x, some y => some (x, y)
      | _, _ => none
    | _ => none)

def lookupLen (pairs : List (Nat × Nat)) (a : Nat) : Nat :=
  match pairs.find? (fun p => p.1 == a) with
  | some p => p.2
  | none => 1

def parseRst (ws : List String) : Option (List (Nat × Bool × Sublens)) :=
  ws.mapM (fun w => match w.splitOn ":" with
    | [a, k, sl] => match a.toNat?, parseSublens sl with
      | some x, some s => some (x, k == "W", s)
      | _, _ => none
    | _ => none)

def mkMem (lo : Nat) (window : List Nat) : List Nat :=
  List.replicate lo 0 ++ window ++ List.replicate (65536 - lo - window.length) 0

def mkDec (lens : List (Nat × Nat)) (rst : List (Nat × Bool × Sublens)) : Dec :=
  { len := lookupLen lens,
    rst := fun a => (rst.find? (fun p => p.1 == a)).map (·.2) }

/-- the assembler oracle for instructions: the bytes of the instruction as `codeIns` takes them -/
def asmOf (mem : List Nat) (wrap : Bool) (dec : Dec) (a : Nat) : List Nat :=
  (codeIns mem wrap a (dec.len a)).bytes

def handleCtl (rest : List Char) : String :=
  let (minS, r1) := CtlLex.splitFirst ' ' rest
  let (maxS, r2) := CtlLex.splitFirst ' ' (r1.getD [])
  match (String.ofList minS).toNat?, (String.ofList maxS).toNat? with
  | some minA, some maxA =>
    let lines := ((CtlLex.splitOn '~' (r2.getD [])).map CtlLex.rstrip).filter (fun l => !l.isEmpty)
    match CtlLex.parseFile minA maxA lines with
    | .error _ => "err unsupported"
    | .ok (st, errs) =>
      "ok " ++ showBlocks (getBlocks st) ++ " |" ++
        String.join (errs.map (fun (i, e) => " " ++ toString i ++ ":" ++ e.text.replace " " "_"))
  | _, _ => "bad-op"

/-- lines of the control file section (one separator blank follows the `|`; a control line may itself
start with blanks) -/
def ctlLines (sec : List Char) : List (List Char) :=
  ((CtlLex.splitOn '~' (sec.drop 1)).map CtlLex.rstrip).filter (fun l => !l.isEmpty)

/-- shared by `emit` and `rt` -/
def emitOp (cs : List Char) : Option (Except String (List Stmt × (Nat → List Nat))) :=
  match CtlLex.splitOn '|' cs with
  | [hd, win, lens, ctl] =>
    match nats? (words (String.ofList hd)), nats? (words (String.ofList win)), parsePairs (words (String.ofList lens)) with
    | some [wrap, db, dm, dw, minA, maxA, lo], some window, some lenPairs =>
      let mem := mkMem lo window
      let dec := mkDec lenPairs []
      let cfg : Config := { defbSize := db, defmSize := dm, defwSize := dw, wrap := wrap != 0 }
      match CtlLex.parseFile minA maxA (ctlLines ctl) with
      | .error _ => some (.error "err unsupported")
      | .ok (st, _) =>
        match emit mem cfg dec (flatSubs (getBlocks st)) with
        | .ok l => some (.ok (l, asmOf mem cfg.wrap dec))
        | .error e => some (.error (showErr e))
    | _, _, _ => none
  | _ => none

def parseItem (w : String) : Option BinW.Item :=
  if w = "o" then some (.org none)
  else if w.startsWith "o" then ((w.drop 1).toString.toNat?).map (fun a => .org (some a))
  else if w.startsWith "i" then
    match (w.drop 1).toString.splitOn ":" with
    | [a, b, d] =>
      match a.toNat?, (if d = "" then some [] else (d.splitOn ".").mapM String.toNat?) with
      | some x, some bytes => some (.ins x (b == "1") bytes)
      | _, _ => none
    | _ => none
  else none

def showFile (placed : List (Nat × List Nat)) : String :=
  let (b, bytes) := BinW.writeFile placed
  "ok " ++ toString b ++ " " ++ dots bytes

def handle (line : String) : String :=
  let cs := CtlLex.rstrip line.toList
  let (op, rest) := CtlLex.splitFirst ' ' cs
  let rest := rest.getD []
  match String.ofList op with
  | "ctl" => handleCtl rest
  | "defb" =>
    match sections rest with
    | [[defm, mx, s, e, sl], mem] =>
      match nats? [defm, mx, s, e], parseSublens sl, nats? mem with
      | some [defm, mx, s, e], some sl, some mem => showRes (defbLines mem (defm != 0) mx s e sl)
      | _, _, _ => "bad-op"
    | _ => "bad-op"
  | "defw" =>
    match sections rest with
    | [[dw, s, e, sl], mem] =>
      match nats? [dw, s, e], parseSublens sl, nats? mem with
      | some [dw, s, e], some sl, some mem => showRes (defwRange mem dw s e sl)
      | _, _, _ => "bad-op"
    | _ => "bad-op"
  | "defs" =>
    match sections rest with
    | [[db, s, e, sl], mem] =>
      match nats? [db, s, e], parseSublens sl, nats? mem with
      | some [db, s, e], some sl, some mem => showRes (defsRange mem db s e sl)
      | _, _, _ => "bad-op"
    | _ => "bad-op"
  | "sub" =>
    match sections rest with
    | [[ctl, db, dm, dw, s, e, sl], mem] =>
      match ctl.toList, nats? [db, dm, dw, s, e], parseSublens sl, nats? mem with
      | [c], some [db, dm, dw, s, e], some sl, some mem =>
        showRes (emitSub mem { defbSize := db, defmSize := dm, defwSize := dw } { len := fun _ => 1 }
          { ctl := c, start := s, end_ := e, sublengths := sl })
      | _, _, _, _ => "bad-op"
    | _ => "bad-op"
  | "walk" =>
    match sections rest with
    | [hd, win, lens, rst] =>
      match nats? hd, nats? win, parsePairs lens, parseRst rst with
      | some [wrap, s, e, lo], some window, some lenPairs, some rstL =>
        let mem := mkMem lo window
        let dec := mkDec lenPairs rstL
        -- the decoder itself may return a DEFB operation: instructions and DEFBs both print as `X` here
        ((showStmts (asmOf mem (wrap != 0) dec) (codeLoop mem (wrap != 0) dec e (e - s) s)).replace "/C/" "/X/").replace "/B/" "/X/"
      | _, _, _, _ => "bad-op"
    | _ => "bad-op"
  | "emit" =>
    match emitOp rest with
    | some (.ok (l, _)) =>
      -- address/kind/bytes only; the decoder may itself return a DEFB operation, so B and C print as X
      "ok " ++ " ".intercalate (l.map (fun s =>
        (((showStmt (fun _ => []) s).replace "/C/" "/X/").replace "/B/" "/X/").dropEndWhile (· != '/') |>.toString))
    | some (.error e) => e
    | none => "bad-op"
  | "rt" =>
    match emitOp rest with
    | some (.ok (l, asm)) =>
      match BinW.place none (BinW.itemsOf asm l) with
      | .ok placed => showFile placed
      | .error (.failed a) => "err failed " ++ toString a
    | some (.error e) => e
    | none => "bad-op"
  | "bin" =>
    match ((String.ofList rest).splitOn "/").mapM (fun b => (words b).mapM parseItem) with
    | some blocks =>
      match BinW.placeBlocks blocks with
      | .ok placed => showFile placed
      | .error (.failed a) => "err failed " ++ toString a
    | none => "bad-op"
  | _ => "bad-op"

def main : IO Unit := loop handle
