import SkoolVerif.Prelude.SimProto
import SkoolVerif.Spec.Z80Sem
/-!
Line protocol for the executable Z80 specification.
* `decode <pfx 0..6> <op>`  ->  `<mnemonic> ; <size> <t> <tAlt> <m1>`
* `run <n> | <state>`       ->  the state after `n` × `Spec.step`
* any other line: one machine state in the format of `Drivers/Sim.lean` (see
  `Prelude/SimProto.runLine`), answered with the state after one `Spec.step`.
-/
open Z80Decode Z80Isa

def pfxOfNat : Nat → Option Pfx
  | 0 => some .MAIN | 1 => some .CB | 2 => some .ED | 3 => some .DD | 4 => some .FD
  | 5 => some .DDCB | 6 => some .FDCB | _ => none

def iter {α : Type} (f : α → α) : Nat → α → α
  | 0, x => x
  | n + 1, x => iter f n (f x)

def handle (line : String) : String :=
  match Proto.words line with
  | ["decode", p, op] =>
    match p.toNat? >>= pfxOfNat, op.toNat? with
    | some pfx, some o =>
      if o < 256 then
        let i := decode pfx o
        let d := Spec.Decoded.of i
        s!"{i.mnemonic} ; {d.size} {d.t} {d.tAlt} {d.m1}"
      else "bad-op range"
    | _, _ => "bad-op parse"
  | "run" :: _ =>
    match line.splitOn "|" with
    | [hd, rest] =>
      match Proto.words hd with
      | ["run", n] =>
        match n.toNat? with
        | some k => SimProto.runLine (fun cfg s => iter (Spec.step cfg) k s) rest
        | none => "bad-op parse"
      | _ => "bad-op parse"
    | _ => "bad-op shape"
  | _ => SimProto.runLine (fun cfg s => Spec.step cfg s) line

def main : IO Unit := Proto.loop handle
