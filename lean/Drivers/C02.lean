import SkoolVerif.Prelude.Proto
import SkoolVerif.Model.OpText
import SkoolVerif.Model.AsmEval
import SkoolVerif.Model.AsmInstr
import SkoolVerif.Model.DisText
import SkoolVerif.Gen.C02Tables
open Proto OpText AsmEval

/-! Line protocol for C02.  Text travels as space-separated code points. -/

def base? : String → Option Base
  | "b" => some .b | "c" => some .c | "d" => some .d
  | "h" => some .h | "m" => some .m | "n" => some .n
  | _ => none

def cfg? (h l : String) : Option Cfg :=
  match h.toNat?, l.toNat? with
  | some h, some l => some { hex := h != 0, lower := l != 0 }
  | _, _ => none

def okTxt (t : List Nat) : String := ("ok " ++ showNats t).trimAscii.toString

def showR (r : R (List Nat)) : String :=
  match r with
  | .ok v => okTxt v
  | .valErr => "valErr"
  | .otherErr => "otherErr"
  | .unsupported => "unsupported"

def showRN (r : R Nat) : String :=
  match r with
  | .ok v => s!"ok {v}"
  | .valErr => "valErr"
  | .otherErr => "otherErr"
  | .unsupported => "unsupported"

def showPieces (ps : List (List Nat)) : String :=
  ("ok " ++ " | ".intercalate (ps.map showNats)).trimAscii.toString

/-- `size base size base …` -/
def subs? : List String → Option (List (Nat × Base))
  | [] => some []
  | s :: bs :: rest =>
    match s.toNat?, base? bs, subs? rest with
    | some s, some bb, some r => some ((s, bb) :: r)
    | _, _, _ => none
  | _ => none

def handle (line : String) : String :=
  match words line with
  | ["num", h, l, v, nb, bs] =>
    match cfg? h l, v.toNat?, nb.toNat?, base? bs with
    | some c, some v, some nb, some bb => okTxt (numStr c v nb bb)
    | _, _, _, _ => "bad-op"
  | ["idx", h, l, i, bs] =>
    match cfg? h l, i.toNat?, base? bs with
    | some c, some i, some bb => okTxt (indexOffset c i bb)
    | _, _, _ => "bad-op"
  | ["jr", a, o] =>
    match a.toNat?, o.toNat? with
    | some a, some o => match jrTarget a o with | some t => s!"ok {t}" | none => "none"
    | _, _ => "bad-op"
  | "defb" :: h :: l :: defm :: n :: rest =>
    match cfg? h l, defm.toNat?, n.toNat? with
    | some c, some defm, some n =>
      match nats? (rest.take n), subs? (rest.drop n) with
      | some data, some subs => okTxt (defbDir c (defm != 0) data subs)
      | _, _ => "bad-op"
    | _, _, _ => "bad-op"
  | "defw" :: h :: l :: bs :: rest =>
    match cfg? h l, base? bs, nats? rest with
    | some c, some bb, some data => okTxt (defwDir c data bb)
    | _, _, _ => "bad-op"
  | ["defs", h, l, count, value, sb, vb] =>
    match cfg? h l, count.toNat?, value.toNat?, base? sb with
    | some c, some count, some value, some sb =>
      if vb = "-" then okTxt (defsDir c count value sb none)
      else match base? vb with
        | some vb => okTxt (defsDir c count value sb (some vb))
        | none => "bad-op"
    | _, _, _, _ => "bad-op"
  | "eval" :: rest => match nats? rest with
    | some t => match evalInt t with
      | .ok v => s!"ok {v}"
      | .valErr => "valErr"
      | .otherErr => "otherErr"
      | .unsupported => "unsupported"
    | none => "bad-op"
  | "gip" :: rest => match nats? rest with
    | some t => match getIntParam t with | some v => s!"ok {v}" | none => "valErr"
    | none => "bad-op"
  | "cchars" :: rest => match nats? rest with
    | some t => match convertChars t with | some s => okTxt s | none => "valErr"
    | none => "bad-op"
  | "cnums" :: rest => match nats? rest with
    | some t => okTxt (convertNums t)
    | none => "bad-op"
  | "str" :: rest => match nats? rest with
    | some t => match evalString t with | some bs => okTxt bs | none => "valErr"
    | none => "bad-op"
  | "sq" :: rest => match nats? rest with
    | some t => showPieces (splitQuoted t)
    | none => "bad-op"
  | "split" :: rest => match nats? rest with
    | some t => showPieces (splitOperands t)
    | none => "bad-op"
  | "cc" :: lo :: tr :: rest => match lo.toNat?, tr.toNat?, nats? rest with
    | some lo, some tr, some t => okTxt (convertCase (lo != 0) (tr != 0) t)
    | _, _, _ => "bad-op"
  | "sop" :: rest => match nats? rest with
    | some t => showPieces (splitOperation t)
    | none => "bad-op"
  | "pexpr" :: lim :: br :: nn :: rest => match lim.toNat?, br.toNat?, nn.toNat?, nats? rest with
    | some lim, some br, some nn, some t => showRN (parseExpr t lim (br != 0) (nn != 0))
    | _, _, _, _ => "bad-op"
  | "off" :: rest => match nats? rest with
    | some t => showRN (parseOffset t)
    | none => "bad-op"
  | "aoff" :: a :: rest => match a.toNat?, nats? rest with
    | some a, some t => showRN (addressOffset a t)
    | _, _ => "bad-op"
  | "data" :: rest => match nats? rest with
    | some t => match assembleData t with
      | some r => showR r
      | none => "nodir"
    | none => "bad-op"
  -- `Assembler._assemble(operation, address)`
  | "asm" :: a :: rest => match a.toNat?, nats? rest with
    | some a, some t => showR (AsmInstr.asmInstr t a)
    | _, _ => "bad-op"
  -- `Disassembler.disassemble(addr, addr + 1, base)[0]` on a snapshot holding `bytes` at `addr` (wrapping), 0 elsewhere
  | "dis" :: h :: l :: opts :: wrap :: b1 :: b2 :: a :: rest =>
    match cfg? h l, opts.toNat?, wrap.toNat?, base? b1, base? b2, a.toNat?, nats? rest with
    | some c, some opts, some wrap, some b1, some b2, some a, some bytes =>
      let mem : InstrDec.Mem := fun i => bytes.getD ((i + 65536 - a % 65536) % 65536) 0
      match DisText.disText C02Gen.tables { opts := opts, lower := c.lower, wrap := wrap != 0 } c.hex b1 b2 mem a with
      | .ok d => s!"ok {d.variant} {",".intercalate (d.bytes.map toString)} | {showNats d.text}"
      | .error .key => "err key"
      | .error .format => "err format"
      | .error .type => "err type"
    | _, _, _, _, _, _, _ => "bad-op"
  -- the `@bytes` directive of a variant instruction: written, and read back by `parse_asm_bytes_directive`
  | "bdir" :: h :: l :: rest => match cfg? h l, nats? rest with
    | some c, some bs => okTxt (DisText.bytesDirective c bs)
    | _, _ => "bad-op"
  | "pbdir" :: rest => match nats? rest with
    | some t => match AsmInstr.parseBytesDirective t with
      | some vs => ("ok " ++ showInts vs).trimAscii.toString
      | none => "ok"
    | none => "bad-op"
  | _ => "bad-op"

def main : IO Unit := loop handle
