import SkoolVerif.Prelude.Proto
import SkoolVerif.Model.Z80Rle
import SkoolVerif.Model.SnapEdit
import SkoolVerif.Model.SnapHeader
open Proto Z80Rle SnapEdit

/-! Line-protocol driver for C09: RLE coder, page-block reader, header field encodings, and the
memory editors `poke`/`move`/`patch` on a flat list and on a `Memory` (stateful). -/

structure St where
  flat : List Nat
  mem : Mem
  base : List Nat

def errName : Err → String
  | .index => "index" | .type => "type" | .stepZero => "stepZero" | .noValue => "noValue"
  | .badPage => "badPage" | .badValue => "badValue" | .badRange => "badRange"
  | .fewArgs => "fewArgs" | .badInt => "badInt" | .noFile => "noFile" | .badAddr => "badAddr"

def cellVal (k b i : Nat) : Nat := (i * k + b * 37 + i / 251) % 256

/-- k-independent 16K pattern, computed once; banks are rotations of it (cheap in the interpreter) -/
def baseBank : List Nat := (List.range 16384).map (cellVal 7 0)

def mkBank (base : List Nat) (k b : Nat) : List Nat :=
  let r := (k * 97 + b * 1009) % 16384
  base.drop r ++ base.take r

def optNat : Option Nat → String
  | none => "-"
  | some n => toString n

def wsum (l : List Nat) : Nat :=
  (l.foldl (fun (acc : Nat × Nat) v => (acc.1 + 1, (acc.2 + (acc.1 + 1) * (v + 1)) % 1000000007)) (0, 0)).2

def changes : List Nat → List Nat → Nat → List (Nat × Nat) → List (Nat × Nat)
  | a :: as, b :: bs, i, acc => changes as bs (i + 1) (if a = b then acc else (i, b) :: acc)
  | _, _, _, acc => acc.reverse

/-- canonical description of how `new` differs from `old` ("" when equal) -/
def diffList (old new : List Nat) : String :=
  if old == new then ""
  else if old.length ≠ new.length then s!"len={new.length},w={wsum new}"
  else
    let ch := changes old new 0 []
    if ch.length > 48 then s!"n={ch.length},w={wsum (ch.map (·.2))},first={ch.head!.1},last={ch.getLast!.1}"
    else ",".intercalate (ch.map (fun p => s!"{p.1}={p.2}"))

def diffOpt (old new : Option (List Nat)) : String :=
  match old, new with
  | some a, some b => diffList a b
  | none, none => ""
  | _, _ => "presence"

def diffMem (old new : Mem) : String :=
  let parts := [("rom", diffList old.rom new.rom)] ++
    (List.range (max old.banks.length new.banks.length)).map
      (fun k => (s!"b{k}", diffOpt (old.banks[k]?.join) (new.banks[k]?.join)))
  let parts := parts.filter (fun p => p.2 ≠ "")
  let slots := if (old.s1, old.s2, old.s3) = (new.s1, new.s2, new.s3) then [] else ["slots"]
  " ".intercalate (slots ++ parts.map (fun p => p.1 ++ ":" ++ p.2))

def okStr (d : String) : String := if d = "" then "ok" else "ok " ++ d

def showPoke (s : PokeSpec) : String :=
  let op := match s.op with | .set => "set" | .xor => "xor" | .add => "add"
  s!"ok {optNat s.page} {s.addr1} {s.addr2} {s.step} {op} {s.value}"

def showMove (s : MoveSpec) : String :=
  s!"ok {optNat s.srcPage} {optNat s.destPage} {s.src} {s.length} {s.dest}"

def showPatch (s : PatchSpec) : String :=
  s!"ok {optNat s.page} {s.addr} {String.ofList s.fname}"

def showT (b : Int × Int × Int) : String := s!"ok {b.1} {b.2.1} {b.2.2}"

/-- digest of the result of the page-block reader -/
def showPages (r : List (Int × List Nat)) : String :=
  "ok " ++ " ".intercalate (r.map (fun p => s!"{p.1}:{p.2.length}:{wsum p.2}"))

/-- bank descriptor: `-` = None, `e` = empty list, else `v*n,v*n,…` (runs) -/
def parseBank (w : String) : Option (Option (List Nat)) :=
  if w = "-" then some none
  else if w = "e" then some (some [])
  else
    let runs := (w.splitOn ",").mapM (fun r => match r.splitOn "*" with
      | [v, n] => match v.toNat?, n.toNat? with
        | some v, some n => some (List.replicate n v)
        | _, _ => none
      | _ => none)
    runs.map (fun rs => some rs.flatten)

def handle (st : St) (line : String) : St × String :=
  match words line with
  | "enc" :: rest => (st, match nats? rest with
    | some d => "ok " ++ showNats (enc d)
    | none => "bad-op")
  | "dec" :: rest => (st, match nats? rest with
    | some d => match dec d with
      | .ok r => "ok " ++ showNats r
      | .error .zeroRun => "err zeroRun"
      | .error .truncated => "err truncated"
    | none => "bad-op")
  | "pages" :: rest => (st, match nats? rest with
    | some d => match readPages d with
      | .ok r => showPages r
      | .error .zeroRun => "err zeroRun"
      | .error .truncated => "err truncated"
      | .error .badLength => "err badLength"
    | none => "bad-op")
  | "wpages" :: first :: rest => (st, match first.toNat?, rest.mapM parseBank with
    | some first, some banks => "ok " ++ showNats (writePages banks first)
    | _, _ => "bad-op")
  -- header fields -------------------------------------------------------
  | ["z80wt", f, t] => (st, match int? f, int? t with
    | some f, some t => showT (SnapHeader.z80WriteT f t)
    | _, _ => "bad-op")
  | ["z80rt", f, a, b, c] => (st, match ints? [f, a, b, c] with
    | some [f, a, b, c] => s!"ok {SnapHeader.z80ReadT f (a, b, c)}"
    | _ => "bad-op")
  | ["szxwt", f, t] => (st, match int? f, int? t with
    | some f, some t => showT (SnapHeader.szxWriteT f t)
    | _, _ => "bad-op")
  | ["szxrt", a, b, c, d] => (st, match ints? [a, b, c, d] with
    | some [a, b, c, d] => s!"ok {SnapHeader.szxReadT4 (a, b, c, d)}"
    | _ => "bad-op")
  | ["z80ww", v] => (st, match int? v with
    | some v => let w := SnapHeader.writeWord v; s!"ok {w.1} {w.2}"
    | none => "bad-op")
  | ["szxww", v] => (st, match int? v with
    | some v => let w := SnapHeader.szxWriteWord v; s!"ok {w.1} {w.2}"
    | none => "bad-op")
  | ["rw", a, b] => (st, match int? a, int? b with
    | some a, some b => s!"ok {SnapHeader.readWord (a, b)}"
    | _, _ => "bad-op")
  | ["wr", h, v] => (st, match int? h, int? v with
    | some h, some v => let w := SnapHeader.writeR h v; s!"ok {w.1} {w.2}"
    | _, _ => "bad-op")
  | ["rr", a, b] => (st, match int? a, int? b with
    | some a, some b => s!"ok {SnapHeader.readR a b} {SnapHeader.readBorder b}"
    | _, _ => "bad-op")
  | ["wb", h, v] => (st, match int? h, int? v with
    | some h, some v => s!"ok {SnapHeader.writeBorder h v}"
    | _, _ => "bad-op")
  | ["wim", h, v] => (st, match int? h, int? v with
    | some h, some v => s!"ok {SnapHeader.writeIm h v}"
    | _, _ => "bad-op")
  | ["wissue2", h, v] => (st, match int? h, int? v with
    | some h, some v => s!"ok {SnapHeader.writeIssue2 h v}"
    | _, _ => "bad-op")
  | ["rim", h] => (st, match int? h with
    | some h => s!"ok {SnapHeader.readIm h}"
    | _ => "bad-op")
  -- spec text -----------------------------------------------------------
  | ["int", s, acc] => (st, match getIntParam s.toList (acc = "1") with
    | some n => s!"ok {n}"
    | none => "err value")
  | ["ppoke", s] => (st, match parsePoke s.toList with
    | .ok p => showPoke p
    | .error e => "err " ++ errName e)
  | ["pmove", s] => (st, match parseMove s.toList with
    | .ok p => showMove p
    | .error e => "err " ++ errName e)
  | ["ppatch", s] => (st, match parsePatch s.toList with
    | .ok p => showPatch p
    | .error e => "err " ++ errName e)
  -- memories ------------------------------------------------------------
  | ["flat", n, k] => match n.toNat?, k.toNat? with
    | some n, some k => ({ st with flat := (List.range n).map (cellVal k 0) }, "ok")
    | _, _ => (st, "bad-op")
  | ["mem", k, s1, s2, s3, mask] => match nats? [k, s1, s2, s3, mask] with
    | some [k, s1, s2, s3, mask] =>
      let n := if mask ≥ 256 then 11 else 8
      let banks := (List.range n).map (fun b => if (mask >>> b) % 2 = 1 then some (mkBank st.base k b) else none)
      ({ st with mem := ⟨List.replicate 16384 0, banks, s1, s2, s3⟩ }, "ok")
    | _ => (st, "bad-op")
  | ["fpoke", s] => match parsePoke s.toList with
    | .error e => (st, "err " ++ errName e)
    | .ok p => match pokeFlat st.flat p with
      | .error e => (st, "err " ++ errName e)
      | .ok l => ({ st with flat := l }, okStr (diffList st.flat l))
  | ["fmove", s] => match parseMove s.toList with
    | .error e => (st, "err " ++ errName e)
    | .ok p => let l := moveFlat st.flat p; ({ st with flat := l }, okStr (diffList st.flat l))
  | "fpatch" :: s :: data => match nats? data with
    | none => (st, "bad-op")
    | some data => match parsePatch s.toList with
      | .error e => (st, "err " ++ errName e)
      | .ok p => let l := patchFlat st.flat p data; ({ st with flat := l }, okStr (diffList st.flat l))
  | ["mpoke", s] => match parsePoke s.toList with
    | .error e => (st, "err " ++ errName e)
    | .ok p => match pokeMem st.mem p with
      | .error e => (st, "err " ++ errName e)
      | .ok m => ({ st with mem := m }, okStr (diffMem st.mem m))
  | ["mmove", s] => match parseMove s.toList with
    | .error e => (st, "err " ++ errName e)
    | .ok p => match moveMem st.mem p with
      | .error e => (st, "err " ++ errName e)
      | .ok m => ({ st with mem := m }, okStr (diffMem st.mem m))
  | "mpatch" :: s :: data => match nats? data with
    | none => (st, "bad-op")
    | some data => match parsePatch s.toList with
      | .error e => (st, "err " ++ errName e)
      | .ok p => match patchMem st.mem p data with
        | .error e => (st, "err " ++ errName e)
        | .ok m => ({ st with mem := m }, okStr (diffMem st.mem m))
  | _ => (st, "bad-op")

def main : IO Unit := loopSt (⟨[], ⟨[], [], 5, 2, 0⟩, baseBank⟩ : St) handle
