import SkoolVerif.Prelude.Proto
import SkoolVerif.Model.Z80Rle
open Proto Z80Rle

def handle (line : String) : String :=
  match words line with
  | "enc" :: rest => match nats? rest with
    | some d => "ok " ++ showNats (enc d)
    | none => "bad-op"
  | "dec" :: rest => match nats? rest with
    | some d => match dec d with
      | .ok r => "ok " ++ showNats r
      | .error .zeroRun => "err zeroRun"
      | .error .truncated => "err truncated"
    | none => "bad-op"
  | _ => "bad-op"

def main : IO Unit := loop handle
