"""C12 — a program converted to tape by bin2tap loads back to the same memory via tap2sna.

Theorems: lean/SkoolVerif/Props/C12.lean — block parity/layout, header and BASIC-line layout, the
stack pre-fill, symbolic execution of the machine-code loader bytes (and of the ROM epilogue) in
the Z80 model generated from simulator.py, the model of LoadTracer.fast_load, and their
composition for the no-CLEAR path (PC = START, SP = STACK, memory = binary).
Ties: hand models Model/Bin2Tap.lean and Model/FastLoad.lean vs skoolkit.bin2tap / LoadTracer
(correspondence here, byte for byte); generated simulator model vs the real Simulator on the real
loader bytes and the real ROM (multi-step differential here); ROM bytes assumed by the theorems vs
48.rom.  E2E (the property itself, exploration): bin2tap.main -> tap2sna.main in-process over
generated binaries x options."""
import contextlib
import io
import os

import simcorr
import simgen
from framework import fresh_import

PROPS = 'SkoolVerif.Props.C12'
PREFILL_KEY = 'prefill-skipped-stack-inside-first-3-bytes'


# ---------------------------------------------------------------------------------------------
# helpers

def quiet(fn, *args):
    buf = io.StringIO()
    with contextlib.redirect_stdout(buf), contextlib.redirect_stderr(buf):
        fn(*args)
    return buf.getvalue()


def nums(xs):
    return ' '.join(map(str, xs))


def okline(xs):
    return ('ok ' + nums(xs)).rstrip() if xs else 'ok '


def okblocks(blocks):
    return 'ok ' + ' | '.join(nums(b) for b in blocks)


def norm(lines):
    return [(s if s != 'ok' else 'ok ') for s in lines] if lines is not None else None


TITLES = ('', 'a', 'game', 'tenletters', 'elevenchars', 'a much longer title', 'UPPER', 'sp ace', '\xe9t\xe9', 'xły',
          '0123456789', '\x7f\x80\xff')
WORDS = (0, 1, 9, 10, 99, 100, 255, 256, 999, 1000, 9999, 10000, 16384, 23296, 23755, 32767, 32768, 49152, 65535, 65536, 70000, 100000)


def rand_title(rng):
    if rng.random() < 0.6:
        return rng.choice(TITLES)
    return ''.join(chr(rng.choice((32, 65, 97, 48, 126, 160, 255, 321))) for _ in range(rng.randrange(14)))


# ---------------------------------------------------------------------------------------------
# correspondence: bin2tap functions vs Model/Bin2Tap.lean

def corr_bin2tap(chk, bin2tap):
    rng = chk.rng
    ops, impl = [], []

    def add(op, res, tag, key=None, sample=None):
        ops.append(op)
        impl.append(res)
        chk.case(tag, key, sample)

    # _make_block
    for n in range(chk.scale(300, 3000)):
        d = [rng.choice((0, 255, 128, rng.randrange(256))) for _ in range(rng.choice((0, 1, 2, 3, 17, rng.randrange(40))))]
        if n % 37 == 5:
            d.append(rng.choice((256, 1000, 65535)))
        h = n % 2
        blk = bin2tap._make_block(d, bool(h))
        add(f'block {h} ; {nums(d)}', okline(blk), 'block', ('block', h, tuple(d)),
            {'op': '_make_block', 'data': d[:16], 'header': h, 'impl': blk[:18]} if n < 2 else None)
    # _get_header
    for n in range(chk.scale(300, 3000)):
        title = rand_title(rng)
        length = rng.choice(WORDS + (rng.randrange(65536),))
        param = rng.choice(WORDS + (rng.randrange(65536),))
        if n % 2:
            blk = bin2tap._get_header(title, length, param)
            kind = 'code'
        else:
            blk = bin2tap._get_header(title, length, line=param)
            kind = 'basic'
        add(f'header {kind} {length} {param} ; {nums(map(ord, title))}', okline(blk), 'header',
            ('header', kind, title, length, param))
    # _get_basic_loader
    for clear in (None,) + WORDS:
        for start in WORDS:
            for scr in (0, 1):
                for banks in (0, 1):
                    if not chk.thorough and (WORDS.index(start) + (0 if clear is None else WORDS.index(clear))) % 3:
                        continue
                    title = rand_title(rng)
                    blks = bin2tap._get_basic_loader(title, clear, start, [1] if scr else None, {} if banks else None)
                    add(f'basic {-1 if clear is None else clear} {start} {scr} {banks} ; {nums(map(ord, title))}',
                        okblocks(blks), 'basic', ('basic', clear, start, scr, banks, title))
    # _get_data_loader
    scrs = [None, b'', [1], [7] * 100, [rng.randrange(256) for _ in range(6912)], [3] * 6911, [4] * 6913, [5] * 7000]
    if chk.thorough:
        scrs += [[6] * 23296, [6] * 23297]
    for n in range(chk.scale(150, 1500)):
        org, length, start, stack = (rng.choice(WORDS + (rng.randrange(65536),)) for _ in range(4))
        scr = scrs[n % len(scrs)] if n < 4 * len(scrs) else None
        title = rand_title(rng)
        blks = bin2tap._get_data_loader(title, org, length, start, stack, scr)
        res = 'err value' if any(b < 0 for blk in blks for b in blk) else okblocks(blks)
        add(f'dloader {org} {length} {start} {stack} ; {nums(map(ord, title))} ; {nums(scr or ())}', res, 'dloader',
            ('dloader', org, length, start, stack, len(scr or ())))
    # _get_bank_loader
    for n in range(chk.scale(150, 1500)):
        banks = rng.sample(range(8), rng.randrange(9))
        address = rng.choice(WORDS + (rng.randrange(65536),))
        start = rng.choice(WORDS + (rng.randrange(65536),))
        o7 = rng.choice((0, 1, 7, 16, 23, 31, 63, 64, 127, 128, 255, rng.randrange(256)))
        title = rand_title(rng)
        blks = bin2tap._get_bank_loader(title, address, start, {b: None for b in banks} if n % 2 else list(banks), o7)
        add(f'bloader {address} {start} {o7} ; {nums(map(ord, title))} ; {nums(banks)}', okblocks(blks), 'bloader',
            ('bloader', address, start, o7, tuple(banks)))

    # run(): the tape file, incl. the stack pre-fill (exhaustive over small overlaps)
    def run_file(ram, clear, org, start, stack, name, scr, banks, o7, loader):
        path = os.path.join(chk.scratch, name)
        try:
            bin2tap.run(ram, clear, org, start, stack, path, scr, banks, o7, loader)
        except ValueError:
            return None
        with open(path, 'rb') as f:
            return list(f.read())

    def run_op(ram, clear, org, start, stack, name, scr, banks, o7, loader):
        fields = [f'run {-1 if clear is None else clear} {org} {start} {stack} {o7 or 0} {loader or 0} {0 if banks is None else 1}',
                  nums(map(ord, name)), nums(scr or ()), nums(ram)]
        if banks is not None:
            fields += [f'{b} {nums(banks[b])}'.rstrip() for b in banks]
        return ' ; '.join(fields)

    for ln in range(1, chk.scale(7, 10)):
        for d in range(-6, ln + 7):
            org = rng.choice((32768, 40000, 65529 - 2 * ln, 16390))
            stack, start = org + d, rng.choice((org, 0x1234, 0xFFFF, 0x00FF))
            ram = [rng.randrange(1, 200) for _ in range(ln)]
            data = run_file(ram, None, org, start, stack, 'p.tap', None, None, None, None)
            # last block of the TAP file = flag + (pre-filled) ram + parity
            body = data[-(ln + 1):-1]
            add(f'prefill {org} {start} {stack} ; {nums(ram)}', okline(body), 'prefill', ('prefill', ln, d, start),
                {'op': 'run() pre-fill', 'org': org, 'stack': stack, 'start': start, 'ram': ram, 'impl': body} if (ln, d) == (3, 2) else None)
    names = ('a.tap', 'GAME.TAP', 'x.pzx', 'Y.PzX', 'noext', 'a.b.tap', 'averyveryverylongname.tap', 'tap', '.tap', 'x.tzx', '\xe9.tap')
    for n in range(chk.scale(60, 600)):
        ln = rng.choice((1, 2, 5, 30))
        ram = [rng.randrange(256) for _ in range(ln)]
        org = rng.randrange(16384, 65536 - ln)
        clear = None if n % 3 == 0 else rng.choice((23952, 30000, org - 1))
        stack = rng.choice((org, org + 1, org + 3, org + ln + 2, 50000))
        start = rng.choice((org, org + ln - 1, 32768))
        scr = None
        if n % 10 == 7:
            scr = bytes(rng.randrange(256) for _ in range(6912))
        elif n % 10 == 8:
            scr = b''
        banks = o7 = loader = None
        if clear is not None and n % 2:
            banks = {b: [rng.randrange(256) for _ in range(rng.randrange(1, 6))] for b in rng.sample((0, 1, 3, 4, 6, 7), rng.randrange(7))}
            o7, loader = rng.randrange(64), rng.choice((clear + 1, 25000))
        if n % 23 == 11:
            ram[rng.randrange(ln)] = 256
        name = names[n % len(names)]
        data = run_file(ram, clear, org, start, stack, name, scr, banks, o7, loader)
        sbanks = None if banks is None else {b: banks[b] for b in sorted(banks)}
        add(run_op(ram, clear, org, start, stack, name, scr, sbanks, o7, loader), 'err value' if data is None else okline(data), 'run',
            ('run', n), {'op': 'run()', 'name': name, 'clear': clear, 'org': org, 'stack': stack, 'banks': sorted(banks or ()), 'file_len': len(data or ())} if n < 3 else None)
    if chk.thorough:
        ram = [1] * 65534   # block of 65536 bytes: write_tap cannot store the length
        data = run_file(ram, 30000, 2, 2, 2, 'big.tap', None, None, None, None)
        add(run_op(ram, 30000, 2, 2, 2, 'big.tap', None, None, None, None), 'err value' if data is None else okline(data), 'run', ('run', 'big'))

    model = chk.run_driver('C12', ops)
    chk.compare('Bin2Tap model vs skoolkit.bin2tap', ops, norm(impl), norm(model))


# ---------------------------------------------------------------------------------------------
# correspondence: generated simulator model / FastLoad model vs the real Simulator / LoadTracer
# on the real loader bytes and the real ROM

def rom_bytes(skoolkit):
    return list(skoolkit.read_bin_file(skoolkit.ROM48, 16384))


class MultiSim:
    """n instructions of the real (Python) Simulator from a sparse state; output in SimProto format."""

    def __init__(self, simulator):
        self.memory = simcorr.LogMem([0] * 65536)
        self.sim = simulator.Simulator(self.memory)
        self.dirty = set()

    def load(self, regs, fields, mem):
        memory = self.memory
        for a in self.dirty:
            list.__setitem__(memory, a, 0)
        self.dirty = set(mem)
        for a, v in mem.items():
            list.__setitem__(memory, a, v)
        memory.log = []
        self.sim.registers[:24] = regs
        self.sim.registers[24:30] = fields

    def result(self, tr):
        self.dirty.update(a for a, _ in self.memory.log)
        r = list(self.sim.registers)
        return (f"{nums(r[:24])} ; {nums(r[24:30])} ; {' '.join(f'{p}:{v}' for p, v in tr.out_log)} ; "
                f"{nums(tr.in_log)} ; {' '.join(f'{a}:{v}' for a, v in self.memory.log)} ; 0")

    def exec(self, n, regs, fields, mem, ins):
        self.load(regs, fields, mem)
        tr = simcorr.Tracer(ins)
        self.sim.set_tracer(tr, False, False)
        for _ in range(n):
            self.sim.run()
        return self.result(tr)


def fast_load_real(mods, ms, block, regs, fields, mem):
    """LoadTracer.fast_load of the real code on `block` (a one-block TAP), from a sparse state."""
    loadtracer, tape = mods['loadtracer'], mods['tape']
    ms.load(regs, fields, mem)
    tap = bytes([len(block) % 256, len(block) // 256] + block)
    blocks = [b for b in tape.parse_tap(tap).blocks if b.data]
    for b in blocks:
        b.keys = None       # as sim_load() does for blocks without --press
    cfg = {'accelerate_dec_a': 0, 'accelerators': set(), 'byte_fmt': None, 'fast_load': 1, 'finish_tape': 0, 'first_edge': 0,
           'in_min_addr': 0x8000, 'list_accelerators': 0, 'pause': 1, 'polarity': 0, 'prefix': None, 'stop': None,
           'timeout': 10 ** 9, 'tracefile': None, 'trace_line': None, 'word_fmt': None}
    tracer = loadtracer.LoadTracer(ms.sim, blocks, cfg, None)
    ok = [None]
    try:
        quiet(lambda: ok.__setitem__(0, tracer.fast_load(ms.sim)))
    except Exception as e:
        return None, f'exception {type(e).__name__}'
    return ok[0], ms.result(simcorr.Tracer(()))


def state_line(regs, fields, mem, ins):
    return simcorr.op_line(regs, fields, mem, ins, [1, 0, 0, 1])


def rand_regs(rng):
    regs = [rng.choice(simcorr.BOUND8 + (rng.randrange(256),) * 3) for _ in range(24)]
    regs[12] = rng.randrange(65536)
    regs[13] = 0
    return regs


def corr_exec(chk, mods):
    rng = chk.rng
    bin2tap, skoolkit = mods['bin2tap'], mods['skoolkit']
    rom = rom_bytes(skoolkit)
    ms = MultiSim(mods['simulator'])
    ops, impl = [], []

    def add(op, res, tag, key, sample=None):
        ops.append(op)
        impl.append(res)
        chk.case(tag, key, sample)

    # the ROM bytes the theorems take as a hypothesis
    add('romepilogue', f'ok 1506 {rom[0x05E2]} | 1343 {nums(rom[0x053F:0x0556])}', 'rom', ('rom',),
        {'op': 'ROM epilogue bytes', 'impl': rom[0x053F:0x0556]})
    rom_mem = {a: rom[a] for a in list(range(0x053F, 0x0556)) + [0x05E2, 0x0038, 0x0008]}

    # no-CLEAR path: loader (8 steps) -> fast_load of the real main block -> epilogue (15 steps)
    for n in range(chk.scale(120, 1500)):
        ln = rng.choice((1, 2, 3, 4, 5, 8, 40))
        org = rng.choice((0x4000, 0x5B00 - 2, 0x5B13, 0x8000, 0xC000 - 2, 65536 - ln, rng.randrange(16384, 65536 - ln)))
        org = min(org, 65536 - ln)
        d = rng.choice((-5, -4, -3, -1, 0, 1, 2, 3, 4, 5, ln, ln + 1, ln + 3, ln + 4, ln + 5, rng.randrange(-3000, 3000)))
        stack = min(max(org + d, 16388), 65535)
        if 23313 <= stack <= 23316:
            stack = 23317 if n % 2 else 23312
        start = rng.choice((org, org + ln - 1, 0x8000, 0xFFFF, 0x4000, rng.randrange(16384, 65536)))
        ram = [rng.randrange(256) for _ in range(ln)]
        path = os.path.join(chk.scratch, 'e.tap')
        bin2tap.run(ram, None, org, start, stack, path, None, None, None, None)
        blocks = mods['tape'].parse_tap(open(path, 'rb').read()).blocks
        loader_block, main_block = list(blocks[3].data), list(blocks[4].data)
        code = loader_block[1:-1]
        mem = dict(rom_mem)
        for a in range(org, org + ln):
            mem[a] = rng.randrange(256)
        for a in range(stack - 6, stack + 1):
            mem.setdefault(a % 65536, rng.randrange(256))
        mem[0x5C48] = rng.randrange(256)
        for k, b in enumerate(code):
            mem[23296 + k] = b
        regs = rand_regs(rng)
        fields = [23296, rng.randrange(70000), rng.randrange(2), 1, 0, rng.randrange(65536)]
        ins = [rng.choice((255, 191, 31, 1, 0xBF, rng.randrange(256) | 1))]
        key = ('noclear', ln, d if abs(d) < 10 else 99, stack == 23312 or stack == 23317)
        # phase 1: the loader
        r1 = ms.exec(8, regs, fields, mem, ins)
        add(f'exec 8 ; {state_line(regs, fields, mem, ins)}', r1, 'exec-loader', key,
            {'op': 'exec 8 (loader bytes)', 'org': org, 'stack': stack, 'start': start, 'code': code, 'impl': r1[:120]} if n == 0 else None)
        p = r1.split(' ; ')
        regs1, fields1 = list(map(int, p[0].split())), list(map(int, p[1].split()))
        mem1 = dict(mem)
        for w in p[4].split():
            a, v = w.split(':')
            mem1[int(a)] = int(v)
        if fields1[0] != 0x0556:
            continue
        # phase 2: fast_load of the block bin2tap wrote
        okf, r2 = fast_load_real(mods, ms, main_block, regs1, fields1, mem1)
        add(f'fastload ; {nums(main_block)} ; {state_line(regs1, fields1, mem1, ins)}', r2, 'fastload-main', key)
        if r2.startswith('exception'):
            continue
        p = r2.split(' ; ')
        regs2, fields2 = list(map(int, p[0].split())), list(map(int, p[1].split()))
        mem2 = dict(mem1)
        for w in p[4].split():
            a, v = w.split(':')
            mem2[int(a)] = int(v)
        # phase 3: RET; SA/LD-RET
        r3 = ms.exec(15, regs2, fields2, mem2, ins)
        add(f'exec 15 ; {state_line(regs2, fields2, mem2, ins)}', r3, 'exec-epilogue', key)
        # the property of the composed run, on the real code (what the theorem states for the model)
        p = r3.split(' ; ')
        regs3, fields3 = list(map(int, p[0].split())), list(map(int, p[1].split()))
        mem3 = dict(mem2)
        for w in p[4].split():
            a, v = w.split(':')
            mem3[int(a)] = int(v)
        bad = [a for a in range(org, org + ln) if not stack - 4 <= a < stack and mem3.get(a, 0) != ram[a - org]]
        if fields3[0] != start or regs3[12] != stack or bad:
            k = PREFILL_KEY if 1 <= stack - org <= 3 else 'noclear-steps-pc-sp-ram'
            chk.violation(k, f'loader+fast_load+epilogue on the real simulator: org={org} len={ln} start={start} stack={stack}: '
                             f'PC={fields3[0]} SP={regs3[12]} wrong bytes at {bad[:5]}',
                          {'kind': 'steps', 'org': org, 'ram': ram, 'start': start, 'stack': stack, 'seed': n})

    # fast_load on arbitrary blocks / register states (flag mismatch, DE shorter/longer than the block,
    # ROM destination, wrap-around)
    for n in range(chk.scale(300, 4000)):
        blen = rng.choice((1, 2, 3, 4, 19, rng.randrange(1, 40)))
        block = [rng.choice((0, 255, rng.randrange(256))) for _ in range(blen)]
        if n % 3 == 0 and blen >= 2:
            par = 0
            for b in block[:-1]:
                par ^= b
            block[-1] = par ^ rng.choice((0, 0, 0, 1, 2))
        regs = rand_regs(rng)
        ix = rng.choice((0x3FFE, 0x4000, 0xFFFE, 0xFFFF, 0x0000, 0x8000, rng.randrange(65536)))
        de = rng.choice((0, 1, max(blen - 2, 0), max(blen - 3, 0), blen - 1, blen, blen + 1, 0xFFFF, rng.randrange(65536)))
        regs[8], regs[9], regs[4], regs[5] = ix >> 8, ix & 255, de >> 8, de & 255
        regs[0] = block[0] if n % 4 else rng.randrange(256)
        regs[12] = rng.choice((0x4000, 0x4001, 0x4002, 0x0001, 0x0000, 0xFFFF, ix + 1, (ix + 3) % 65536, rng.randrange(65536)))
        fields = [0x0556, rng.randrange(70000), rng.randrange(2), 1, 0, 0]
        mem = {}
        okf, r = fast_load_real(mods, ms, block, regs, fields, mem)
        add(f'fastload ; {nums(block)} ; {state_line(regs, fields, mem, [])}', r, 'fastload-rand',
            ('fl', blen, de - blen if abs(de - blen) < 4 else 9, regs[0] == block[0], ix >> 14, regs[12] >> 14))

    # 128K bank loader: one pass of the loop up to CALL 0x0556 (16 instructions), and the final pass
    # (entry with bit 7 set: 10 instructions to START)
    for n in range(chk.scale(60, 600)):
        banks = sorted(rng.sample((0, 1, 3, 4, 6, 7), rng.randrange(7)))
        address = rng.choice((23958, 24000, 0x8000, 0xBF00, rng.randrange(23958, 49152 - 50)))
        start = rng.choice((0x8000, 0xC000, address + 50, rng.randrange(16384, 65536)))
        o7 = rng.randrange(64)
        blk = bin2tap._get_bank_loader('t', address, start, banks, o7)[1]
        code = blk[1:-1]
        mem = {address + k: b for k, b in enumerate(code)}
        mem.update(rom_mem)
        regs = rand_regs(rng)
        regs[12] = rng.choice((address - 1, address - 20, 0x8000 if address != 0x8000 else 0x9000))
        fields = [address, rng.randrange(70000), rng.randrange(2), 1, 0, 0]
        steps = 16 if banks else 10
        r = ms.exec(steps, regs, fields, mem, [])
        add(f'exec {steps} ; {state_line(regs, fields, mem, [])}', r, 'exec-bankloader', ('bank', len(banks), address >> 12, o7 & 0x10))
        # the loop reaches LD-BYTES with IX=C000 DE=4000 A=FF carry, 7FFD = first entry, or START with 7FFD = out7ffd
        p = r.split(' ; ')
        rr, ff = list(map(int, p[0].split())), list(map(int, p[1].split()))
        outs = [tuple(map(int, w.split(':'))) for w in p[2].split()]
        want_pc = 0x0556 if banks else start
        want_out = (0x7FFD, (banks[0] + 0x10) if banks else o7)
        okr = ff[0] == want_pc and outs == [want_out]
        if banks:
            okr = okr and (rr[9] + 256 * rr[8], rr[5] + 256 * rr[4], rr[0], rr[1] & 1) == (0xC000, 0x4000, 255, 1)
        if not okr:
            chk.violation('bank-loader-steps', f'bank loader at {address} banks={banks} 7ffd={o7}: after {steps} instructions PC={ff[0]} outs={outs} '
                                               f'IX={rr[9] + 256 * rr[8]} DE={rr[5] + 256 * rr[4]} A={rr[0]} F={rr[1]}',
                          {'kind': 'banksteps', 'address': address, 'start': start, 'banks': banks, 'o7': o7})

    model = chk.run_driver('C12', ops)
    # the write log of the model lists every store; the real code's too (LogMem), in the same order
    chk.compare('generated Z80 model / FastLoad model vs real Simulator / LoadTracer on loader bytes + ROM', ops, impl, model)


# ---------------------------------------------------------------------------------------------
# E2E: bin2tap.main -> tap2sna.main

def timeout_s(nbytes, nblocks):
    return int((nbytes * 27400 + nblocks * 22_000_000) / 3_500_000) + 8


def gen48(chk, rng, small):
    ln = rng.choice((1, 2, 3, 4, 5, 17, 255, 256, 257, 1000)) if small else \
        rng.choice((1, 2, 3, 5, 17, 100, 1000, 6912, 16384, rng.randrange(1, 5000), rng.randrange(1, 42000), rng.randrange(40000, 49153)))
    scr = rng.random() < 0.3
    clear = None
    if rng.random() < 0.4:
        lo = 23972 if scr else 23952
        clear = rng.choice((lo, lo + 1, 24000, 30000, 32767, 65534 - min(ln, 40000), rng.randrange(lo, 65000)))
    if clear is not None:
        below = rng.random() < 0.12 and clear > 25000 and ln < clear - 24600
        if below:
            org = rng.randrange(24300, clear - 300 - ln + 1)
        else:
            lo = clear + 1
            if lo + ln > 65536:
                ln = 65536 - lo
            org = rng.choice((lo, 65536 - ln, rng.randrange(lo, 65536 - ln + 1)))
    else:
        lo = 16384
        if lo + ln > 65536:
            ln = 65536 - lo
        org = rng.choice((lo, 65536 - ln, 23296 - ln if ln < 6000 else lo, 23290, 23552, rng.randrange(lo, 65536 - ln + 1)))
        org = max(min(org, 65536 - ln), 16384)
    start = rng.choice((None, org, org + ln - 1, rng.randrange(org, org + ln), rng.randrange(24000, 65536)))
    stack = None
    if clear is None:
        stack = rng.choice((None, org + ln, org + 1, org + 2, org + 3, org + 4, org + 5, org + ln + 1, org + ln + 3, org + ln + 4,
                            org + ln - 1, org + ln - 3, 16398, 65535, 23312, 23317, 23296, 23552, rng.randrange(16398, 65536),
                            rng.randrange(16398, 65536)))
        if stack is None and org < 16398:
            stack = 16398
        if stack is not None:
            stack = min(max(stack, 16398), 65535)
            if 23313 <= stack <= 23316:
                stack = 23317
    return {'m': 48, 'len': ln, 'org': org, 'start': start, 'stack': stack, 'clear': clear, 'scr': scr}


def gen128(chk, rng):
    scr = rng.random() < 0.3
    lo = 23977 if scr else 23957
    clear = rng.choice((lo, lo + 1, 24999, 32767, rng.randrange(lo, 48000)))
    bsel = rng.choice((None, ',', '0', '1,3', '7', '0,1,3,4,6,7', '6,4', '5,2,0',
                       ','.join(str(b) for b in rng.sample(range(8), rng.randrange(1, 8)))))
    nb = 6 if bsel is None else len({int(b) for b in bsel.split(',') if b and int(b) in (0, 1, 3, 4, 6, 7)})
    llen = 39 + nb
    loader = rng.choice((None, None, clear + 1 + rng.randrange(0, 50), rng.randrange(clear + 1, 49152 - llen)))
    la = clear + 1 if loader is None else loader
    begin = rng.choice((la + llen, la + llen + rng.randrange(0, 100), rng.randrange(la + llen, 49152)))
    begin = min(begin, 49151)
    end = rng.choice((None, None, begin + 1, rng.randrange(begin + 1, 49153)))
    e = 49152 if end is None else end
    start = rng.choice((None, begin, e - 1, rng.randrange(begin, e), 49152, 65535))
    return {'m': 128, 'o7ffd': rng.choice((0, 16, 17, 23, 7, 31, 48, 63, rng.randrange(64))), 'clear': clear, 'begin': begin,
            'end': end, 'start': start, 'banks': bsel, 'loader': loader, 'scr': scr}


def tap2sna_cfg(case):
    args = []
    for k, v in sorted(case.get('cfg', {}).items()):
        args += ['-c', f'{k}={v}']
    return args


def run48(mods, case, scratch, rng_data):
    """Run one 48K case on the real tools; returns (failures, last output lines)."""
    bin2tap, tap2sna, snapshot = mods['bin2tap'], mods['tap2sna'], mods['snapshot']
    ln, org = case['len'], case['org']
    data = bytes(rng_data.randrange(256) for _ in range(ln))
    clear, scr = case['clear'], None
    start = case['start'] if case['start'] is not None else org
    stack = case['stack'] if case['stack'] is not None else org
    ext = case['ext']
    src = case.get('input', 'bin')
    if src == 'bin':
        # the binary file may hold bytes before / after the converted range (--begin / --end), and ORG may be left to
        # its default (65536 minus the file length)
        pre, post = case.get('pre', 0), case.get('post', 0)
        infile = os.path.join(scratch, 'in.bin')
        with open(infile, 'wb') as f:
            f.write(bytes(rng_data.randrange(256) for _ in range(pre)) + data + bytes(rng_data.randrange(256) for _ in range(post)))
        args = [] if case.get('no_org') else ['-o', str(org - pre)]
        if pre or case.get('begin_arg'):
            args += ['-b', str(org)]
        if post or case.get('end_arg'):
            args += ['-e', str(org + ln)]
    elif src.endswith('-128'):
        # a 128K snapshot with RAM bank `page` at 49152-65535, converted without the 128K options: the binary is the
        # 64K view of the snapshot (banks 5, 2 and the paged-in bank)
        page = case['page']
        banks = [[rng_data.randrange(256) for _ in range(16384)] for _ in range(8)]
        for i, b in enumerate(data):
            a = org + i
            banks[(5, 2, page)[a // 16384 - 1]][a % 16384] = b
        infile = os.path.join(scratch, f'in.{src[:-4]}')
        snapshot.write_snapshot(infile, banks, [], [f'7ffd={page}'], '128K')
        args = ['-b', str(org), '-e', str(org + ln)]
    else:
        # a 48K snapshot holding the data; converted with --begin/--end
        ram = [rng_data.randrange(256) for _ in range(49152)]
        ram[org - 16384:org - 16384 + ln] = data
        infile = os.path.join(scratch, f'in.{src}')
        if src == 'sna':
            with open(infile, 'wb') as f:
                f.write(bytes(27) + bytes(ram))
        else:
            snapshot.write_snapshot(infile, ram, [], [])
        args = ['-b', str(org)] + ([] if case.get('no_end') and org + ln == 65536 else ['-e', str(org + ln)])
    if case['start'] is not None:
        args += ['-s', str(start)]
    if case['stack'] is not None:
        args += ['-p', str(stack)]
    if clear is not None:
        args += ['-c', str(clear)]
    if case['scr']:
        scr = bytes(rng_data.randrange(256) for _ in range(6912))
        if case['scr'] in ('z80', 'szx', 'sna'):
            # the loading screen is taken from a snapshot (its display file)
            scrfile = os.path.join(scratch, f"s.{case['scr']}")
            sram = list(scr) + [rng_data.randrange(256) for _ in range(49152 - 6912)]
            if case['scr'] == 'sna':
                with open(scrfile, 'wb') as f:
                    f.write(bytes(27) + bytes(sram))
            else:
                snapshot.write_snapshot(scrfile, sram, [], [])
        else:
            scrfile = os.path.join(scratch, 's.scr')
            with open(scrfile, 'wb') as f:
                f.write(scr)
        args += ['-S', scrfile]
    tape = os.path.join(scratch, f'out.{ext}')
    snap = os.path.join(scratch, f"out.{case.get('snap', 'z80')}")
    t2 = tap2sna_cfg(case) + ['-c', f'timeout={timeout_s(ln + 7200 * bool(scr) + 200, 6)}']
    if case.get('tstart'):
        t2 += ['--start', str(start)]
    try:
        out = quiet(bin2tap.main, args + [infile, tape])
        out += quiet(tap2sna.main, t2 + [tape, snap])
    except Exception as e:  # SkoolKitError or a crash: the tape did not load
        return [('exception', f'{type(e).__name__}: {str(e)[:160]}')], []
    s = snapshot.Snapshot.get(snap)
    ram = [0] * 16384 + list(s.ram())
    skip = range(stack - 14, stack) if clear is None else ()
    bad = [org + i for i, b in enumerate(data) if ram[org + i] != b and org + i not in skip]
    res = []
    if bad:
        res.append(('ram', f'{len(bad)} byte(s) differ, first at {bad[:6]}'))
    if s.pc != start:
        res.append(('pc', f'PC={s.pc}, expected START={start}'))
    if clear is None and s.sp != stack:
        res.append(('sp', f'SP={s.sp}, expected STACK={stack}'))
    if clear is not None and not clear - 64 < s.sp <= clear:
        res.append(('sp-clear', f'SP={s.sp} not just below CLEAR {clear}'))
    if scr:
        d = [a for a in range(16384, 23296) if ram[a] != scr[a - 16384] and not org <= a < org + ln and a not in skip]
        if d:
            res.append(('screen', f'{len(d)} screen byte(s) differ, first at {d[:6]}'))
    return res, out.splitlines()[-2:]


def run128(mods, case, scratch, rng_data):
    bin2tap, tap2sna, snapshot = mods['bin2tap'], mods['tap2sna'], mods['snapshot']
    banks_data = [bytes(rng_data.randrange(256) for _ in range(16384)) for _ in range(8)]
    src = case.get('input', 'bin')
    if src == 'bin':
        infile = os.path.join(scratch, 'in128.bin')
        with open(infile, 'wb') as f:
            f.write(b''.join(banks_data))
    else:
        infile = os.path.join(scratch, f'in128.{src}')
        snapshot.write_snapshot(infile, [list(b) for b in banks_data], [], ['7ffd=0'], '128K')
    args = ['--7ffd', str(case['o7ffd']), '-c', str(case['clear']), '-b', str(case['begin'])]
    if case['end'] is not None:
        args += ['-e', str(case['end'])]
    if case['start'] is not None:
        args += ['-s', str(case['start'])]
    if case['banks'] is not None:
        args += ['--banks', case['banks']]
    if case['loader'] is not None:
        args += ['--loader', str(case['loader'])]
    scr = None
    if case['scr']:
        scr = bytes(rng_data.randrange(256) for _ in range(6912))
        scrfile = os.path.join(scratch, 's.scr')
        with open(scrfile, 'wb') as f:
            f.write(scr)
        args += ['-S', scrfile]
    start = case['start'] if case['start'] is not None else case['begin']
    ext = case['ext']
    tape = os.path.join(scratch, f'out128.{ext}')
    snap = os.path.join(scratch, f"out128.{case.get('snap', 'z80')}")
    t2 = tap2sna_cfg(case) + ['-c', 'machine=128', '--start', str(start)]
    try:
        out = quiet(bin2tap.main, args + [infile, tape])
        out += quiet(tap2sna.main, t2 + [tape, snap])
    except Exception as e:
        return [('exception', f'{type(e).__name__}: {str(e)[:160]}')], []
    s = snapshot.Snapshot.get(snap)
    ram = s.ram(-1)
    res = []
    if len(ram) != 0x20000:
        return [('not-128k', f'snapshot has {len(ram)} bytes of RAM')], out.splitlines()[-2:]
    want = [0, 1, 3, 4, 6, 7] if case['banks'] is None else sorted({int(b) for b in case['banks'].split(',') if b} & {0, 1, 3, 4, 6, 7})
    for b in want:
        if bytes(ram[b * 16384:(b + 1) * 16384]) != banks_data[b]:
            res.append(('bank', f'RAM bank {b} differs'))
    end = min(case['end'] if case['end'] is not None else 49152, 49152)
    flat = banks_data[5] + banks_data[2]
    got = bytes(ram[5 * 16384:6 * 16384]) + bytes(ram[2 * 16384:3 * 16384])
    bad = [a for a in range(case['begin'], end) if got[a - 16384] != flat[a - 16384]]
    if bad:
        res.append(('ram', f'{len(bad)} byte(s) of banks 5/2 differ, first at {bad[:6]}'))
    if s.pc != start:
        res.append(('pc', f'PC={s.pc}, expected START={start}'))
    if s.out7ffd != case['o7ffd']:
        res.append(('7ffd', f'port 0x7FFD holds {s.out7ffd}, requested {case["o7ffd"]}'))
    if not case['clear'] - 64 < s.sp <= case['clear']:
        res.append(('sp-clear', f'SP={s.sp} not just below CLEAR {case["clear"]}'))
    if scr and bytes(got[:6912]) != scr and case['begin'] >= 23296:
        res.append(('screen', 'loading screen differs'))
    return res, out.splitlines()[-2:]


class CaseTimeout(BaseException):
    pass


CASE_CPU_LIMIT = 60    # CPU seconds of this process per case (the slowest case takes about 2): independent of machine load


def run_case(mods, case, scratch, seed):
    """One case on the real tools, under a CPU-time watchdog: a simulated LOAD that never ends (e.g. a tape clock that stops
    advancing) is a failure of the property - no snapshot - and must not hang the check."""
    import random
    import signal
    rng_data = random.Random(seed)

    def on_timer(signum, frame):
        raise CaseTimeout(f'no result after {CASE_CPU_LIMIT} CPU seconds')

    old = signal.signal(signal.SIGPROF, on_timer)
    signal.setitimer(signal.ITIMER_PROF, CASE_CPU_LIMIT)
    try:
        return (run48 if case['m'] == 48 else run128)(mods, case, scratch, rng_data)
    except CaseTimeout as e:
        return [('hang', f'bin2tap -> tap2sna did not finish: {e}')], []
    finally:
        signal.setitimer(signal.ITIMER_PROF, 0)
        signal.signal(signal.SIGPROF, old)


def vkey(case, fails):
    kinds = '+'.join(sorted({k for k, _ in fails}))
    if case['m'] == 48 and case['clear'] is None and case['stack'] is not None and 1 <= case['stack'] - case['org'] <= 3:
        return PREFILL_KEY
    return f"e2e{case['m']}-{'clear' if case['clear'] is not None else 'noclear'}-{kinds}"


def check_case(chk, mods, case, seed, tag):
    fails, out = run_case(mods, case, chk.scratch, seed)
    if fails and 'first-edge' not in case.get('cfg', {}) and not any(k == 'hang' for k, _ in fails):
        # an interrupt accepted between EI and the first instruction of the program runs the ROM's keyboard
        # routine over whatever the binary put in the system variables: shift the tape by a fraction of a frame
        c2 = dict(case, cfg=dict(case.get('cfg', {}), **{'first-edge': 23456}))
        f2, _ = run_case(mods, c2, chk.scratch, seed)
        if not f2:
            chk.note(f'case passes with first-edge=23456 (frame-phase dependent, not reported): {case} {fails}')
            fails = []
    nt = (case['m'], case['clear'] is not None, case['scr'], case['ext'], tuple(sorted(case.get('cfg', {}).items())),
          case.get('input', 'bin'), case.get('stack') is not None and case['m'] == 48 and abs(case['stack'] - case['org']) < 6, seed)
    chk.case(tag, nt, {**case, 'output': out} if chk.evaluations % 97 == 0 else None)
    if fails:
        chk.violation(vkey(case, fails), f'bin2tap -> tap2sna {case}: ' + '; '.join(d for _, d in fails) + (f' [{out[0]}]' if out else ''),
                      {'kind': 'e2e', 'case': case, 'seed': seed})
    return not fails


CFGS = ({'accelerator': 'none'}, {'accelerate-dec-a': 0}, {'pause': 0}, {'polarity': 1}, {'first-edge': 1234}, {'cmio': 1},
        {'in-flags': 4}, {'in-flags': 1}, {'accelerate-dec-a': 1, 'accelerator': 'rom'}, {'finish-tape': 1},
        {'pause': 0, 'polarity': 1, 'first-edge': 70000})


def e2e(chk, mods):
    rng = chk.rng
    have_c = mods['skoolkit'].CSimulator is not None
    seq = [0]

    def go(case, tag):
        seq[0] += 1
        if len(chk.violations) >= 4:
            return
        check_case(chk, mods, case, chk.seed * 1000003 + seq[0], tag)

    def ext():
        return rng.choice(('tap', 'pzx'))

    fast_py = {'python': 1}
    # 48K, fast load (the default), C simulator when available
    for _ in range(chk.scale(150, 3000)):
        c = gen48(chk, rng, small=False)
        c.update(ext=ext(), cfg={} if have_c else fast_py, tstart=rng.random() < 0.25 and (c['start'] or c['org']) >= 23760,
                 snap=rng.choice(('z80', 'szx')))
        if rng.random() < 0.1:
            c['input'] = rng.choice(('z80', 'szx', 'sna'))
        go(c, 'e2e48-fast')
    # 48K, fast load, pure Python simulator + LoadTracer.fast_load (small tapes)
    for _ in range(chk.scale(25, 400)):
        c = gen48(chk, rng, small=True)
        c.update(ext=ext(), cfg=dict(fast_py), tstart=False)
        if c['scr'] and rng.random() < 0.7:
            c['scr'] = False
            if c['clear'] is not None and c['clear'] < 23972:
                pass
        go(c, 'e2e48-fast-python')
    # 48K, ROM loader fully simulated (fast-load=0): needs --start to run past the end of the tape
    for n in range(chk.scale(12, 150)):
        c = gen48(chk, rng, small=True)
        c.update(ext=ext(), cfg={'fast-load': 0, **({} if have_c else fast_py)}, tstart=True)
        if (c['start'] or c['org']) < 23760:
            c['start'] = max(c['org'], 23760) if c['org'] + c['len'] > 23760 else 32768
        if not have_c:
            c['len'] = min(c['len'], 60)
        go(c, 'e2e48-slow')
    for n in range(chk.scale(2, 12)):
        c = gen48(chk, rng, small=True)
        c.update(ext=ext(), len=rng.choice((1, 5, 40)), scr=False, cfg={'fast-load': 0, 'python': 1}, tstart=True)
        c['org'] = min(c['org'], 65536 - c['len'])
        if c['clear'] is not None:
            c['org'] = max(c['org'], c['clear'] + 1) if c['org'] > c['clear'] else c['org']
            if c['org'] + c['len'] > 65536:
                continue
            # the length was overridden above: the block must still lie wholly above CLEAR or well below the
            # BASIC stack under it (a block across RAMTOP overwrites the loader's own stack: invalid input)
            if not (c['org'] > c['clear'] or c['org'] + c['len'] + 300 <= c['clear']):
                continue
        if (c['start'] or c['org']) < 23760:
            c['start'] = 32768
        go(c, 'e2e48-slow-python')
    # the other simulated-LOAD configurations (C13's matrix), on small tapes
    for n in range(chk.scale(22, 330)):
        c = gen48(chk, rng, small=True)
        cfg = dict(CFGS[n % len(CFGS)])
        if n % 3 == 0:
            cfg['fast-load'] = 0
        if not have_c:
            cfg['python'] = 1
            c['len'] = min(c['len'], 60)
        c.update(ext=ext(), cfg=cfg, tstart=True)
        if (c['start'] or c['org']) < 23760:
            c['start'] = 32768
        go(c, 'e2e48-config')
    # 128K
    for n in range(chk.scale(25, 400)):
        c = gen128(chk, rng)
        c.update(ext=ext(), cfg={} if have_c else fast_py, snap=rng.choice(('z80', 'szx')))
        if rng.random() < 0.15:
            c['input'] = rng.choice(('z80', 'szx'))
        go(c, 'e2e128-fast')
    for n in range(chk.scale(4, 60)):
        c = gen128(chk, rng)
        c.update(ext=ext(), cfg=dict(fast_py))
        go(c, 'e2e128-fast-python')
    if have_c:
        for n in range(chk.scale(3, 40)):
            c = gen128(chk, rng)
            c.update(ext=ext(), cfg=dict(CFGS[n % len(CFGS)], **{'fast-load': n % 2}))
            go(c, 'e2e128-config')

    # directed, deterministic: the ways of naming the binary that the random stream does not draw - a 128K snapshot
    # converted as a 48K program (every paged-in bank; block across 49152), a binary file with bytes before / after
    # the converted range (--begin / --end with --org), ORG left to its default, the loading screen taken from a snapshot
    k = 0
    for page in range(8):
        for fmt in ('z80', 'szx'):
            if (page + (fmt == 'szx')) % 2 and not chk.thorough:
                continue
            k += 1
            if page in (2, 5):
                org, ln = 49152 + 100 * k, 300          # the paged-in bank is also visible lower down: stay above 49152
            else:
                org, ln = 49152 - 37 * k, 37 * k + 200  # across the boundary between bank 2 and the paged-in bank
            go({'m': 48, 'len': ln, 'org': org, 'start': org + 1, 'stack': None, 'clear': org - 1 - k, 'scr': False, 'ext': ('tap', 'pzx')[k % 2],
                'cfg': {} if have_c else dict(fast_py), 'tstart': False, 'input': f'{fmt}-128', 'page': page}, 'e2e48-input-128k-snapshot')
    for k, (pre, post, no_org, begin_arg, end_arg) in enumerate(((5, 0, False, False, False), (0, 7, False, False, False), (300, 300, False, False, False),
                                                                 (0, 0, True, False, False), (0, 0, True, True, True), (40, 0, True, False, False),
                                                                 (0, 0, False, True, True), (1, 1, False, False, False))):
        ln = (1, 2, 100, 1000, 3, 700, 16, 6912)[k]
        org = 65536 - ln - post if no_org else (32768, 65536 - ln - post, 23296, 0, 0, 0, 40000, 16384)[k]
        clear = None if k % 2 else org - 1 - k if org > 24200 else None
        go({'m': 48, 'len': ln, 'org': org, 'start': None if k % 3 else org + ln - 1, 'stack': None if clear is not None or k in (3, 5) else 65000 - 1000 * k,
            'clear': clear, 'scr': False, 'ext': ('pzx', 'tap')[k % 2], 'cfg': {} if have_c else dict(fast_py), 'tstart': False,
            'pre': pre, 'post': post, 'no_org': no_org, 'begin_arg': begin_arg, 'end_arg': end_arg}, 'e2e48-begin-end-org')
    for k, fmt in enumerate(('z80', 'sna', 'szx')):
        # a 48K snapshot converted from BEGIN to the end of memory (END left to its default)
        if k == chk.seed % 3 or chk.thorough:
            go({'m': 48, 'len': 536 + k, 'org': 65000 - k, 'start': 65001, 'stack': None, 'clear': 64000 + k, 'scr': False, 'ext': ('pzx', 'tap')[k % 2],
                'cfg': {} if have_c else dict(fast_py), 'tstart': False, 'input': fmt, 'no_end': True}, 'e2e48-begin-end-org')
    for k, fmt in enumerate(('z80', 'szx', 'sna')):
        go({'m': 48, 'len': 500 + k, 'org': 32768 + k, 'start': None, 'stack': None if k else 40000, 'clear': 30000 if k else None, 'scr': fmt,
            'ext': ('tap', 'pzx')[k % 2], 'cfg': {} if have_c else dict(fast_py), 'tstart': False}, 'e2e48-screen-from-snapshot')


# ---------------------------------------------------------------------------------------------

def load_mods():
    names = ('skoolkit', 'skoolkit.bin2tap', 'skoolkit.tap2sna', 'skoolkit.snapshot', 'skoolkit.loadtracer', 'skoolkit.tape',
             'skoolkit.simulator')
    mods = fresh_import(*names)
    return {n.split('.')[-1]: m for n, m in zip(names, mods)}


def run(chk):
    chk.rule = ('correspondence: random/boundary arguments of every bin2tap block builder (titles 0-19 chars incl. non-ASCII, words around '
                '255/256/65535/65536, screens of 0/1/100/6911/6912/6913/7000 bytes, bank subsets), the stack pre-fill exhaustively for blocks of '
                '1-6 bytes x STACK-ORG in -6..len+6, run() to the tape file bytes (TAP and PZX); loader bytes + ROM executed instruction by '
                'instruction on the real Simulator vs the generated model; LoadTracer.fast_load on real bin2tap blocks and on random blocks/'
                'register states vs the model. e2e: bin2tap.main -> tap2sna.main, binaries of 1..49152 random bytes x ORG/START/STACK/CLEAR '
                '(stack at every offset around the block ends, block over the printer buffer/system variables), x tap/pzx x screen x bin/z80/szx/sna '
                'input x 48K/128K (bank subsets, 7ffd 0..63, loader address) x fast-load/full ROM loader, C and Python simulator, accelerators, '
                'pause, polarity, first-edge, cmio, in-flags; directed every run: a 128K snapshot converted as a 48K program (each paged-in bank, block across '
                '49152), a binary file with bytes before/after the converted range (--org with --begin/--end), ORG/END left to their defaults, the loading '
                'screen taken from a z80/szx/sna snapshot. Each case runs under a CPU-time watchdog (a LOAD that never ends is reported as a failure). '
                'non-trivial = distinct option class x data seed')
    chk.trusted += ['hand models lean/SkoolVerif/Model/Bin2Tap.lean, FastLoad.lean tied by correspondence (harness/props/c12.py)',
                    'generated simulator model (translate/py2lean.py), validated here on the loader bytes against the real Simulator',
                    'ROM bytes 0x053F-0x0555, 0x05E2 (Model/RomEpilogue.lean) compared with skoolkit/resources/48.rom on every run',
                    'C11 for the TAP/PZX writer/parser and edge generation']
    chk.assumptions += [
        'Proved in the model (for all inputs): block parity/layout, header and BASIC line layout, loader block layout, the stack pre-fill, '
        'in-range arguments give a tape that write_tap/write_pzx accept and parse_tap/parse_pzx read back (via C11); the 19 loader bytes set up '
        'LD-BYTES for all ORG/LENGTH/START/STACK (STACK not in 23313..23316: the PUSH would hit the loader\'s own JP); fast_load copies exactly '
        'the data bytes / reports failure on a wrong flag or a short block; the ROM epilogue (RET; SA/LD-RET) returns to START; composed no-CLEAR '
        'path: PC=START, SP=STACK, memory=binary outside the 4 bytes below STACK; 128K bank loader: one pass pages the bank and calls LD-BYTES, the '
        'return path advances the table pointer, the end marker pages N and jumps to START.',
        'Memory laws assumed by the execution theorems: RamMem (a 65536-cell list; instance proved for the generated Mem48 with all cells present) and '
        'PagedMem (128K, everything the loader touches below 0xC000; a functional witness instance is given, the instance for the generated Mem128 '
        'is not proved).',
        'Not proved, explored end to end only: the 16K ROM between the pieces (BASIC LOAD "", LD-BYTES edge sampling when fast-load=0, the 128K '
        'menu), LoadTracer.run (interrupt acceptance, tape position bookkeeping, block selection in fast_load), KeyboardTracer, the iteration of the '
        'bank loader passes over the whole table with the fast loads in between, the CLEAR path through BASIC, argument parsing of main().',
        'Domain of the e2e search: STACK >= 16398 and not 23313..23316; START in RAM; with --clear: CLEAR >= the documented minimum, data above CLEAR or '
        'well below the BASIC stack; 128K: CLEAR below 0xC000, --7ffd 0..63 (bits 6-7 do not exist in the 128K and are masked by the loader), loader and '
        'data do not overlap; tap2sna is given --start for 128K tapes and whenever fast-load=0 (it otherwise stops at the end of the tape, as documented). '
        'A failure that disappears when the tape is shifted by a third of a frame (first-edge) is an interrupt hitting the 3-instruction window '
        'after EI (the ROM interrupt routine then needs more than the documented 14 stack bytes / touches the system variables) and is noted, not reported.']
    mods = load_mods()
    simgen.regen(chk)
    ok = chk.lake_build([PROPS, 'SkoolVerif.Prelude.SimProto', 'SkoolVerif.Model.RomEpilogue'])
    chk.audit(PROPS)
    if chk.thorough and ok:
        chk.leanchecker([PROPS])
    corr_bin2tap(chk, mods['bin2tap'])
    corr_exec(chk, mods)
    e2e(chk, mods)


def replay(chk, data):
    mods = load_mods()
    if data['kind'] == 'e2e':
        fails, _ = run_case(mods, data['case'], chk.scratch, data['seed'])
        return bool(fails)
    if data['kind'] == 'steps':
        # re-run the three phases on the real code
        import random
        ms = MultiSim(mods['simulator'])
        rom = rom_bytes(mods['skoolkit'])
        org, ram, start, stack = data['org'], data['ram'], data['start'], data['stack']
        path = os.path.join(chk.scratch, 'r.tap')
        mods['bin2tap'].run(ram, None, org, start, stack, path, None, None, None, None)
        blocks = mods['tape'].parse_tap(open(path, 'rb').read()).blocks
        code, main_block = list(blocks[3].data)[1:-1], list(blocks[4].data)
        mem = {a: rom[a] for a in list(range(0x053F, 0x0556)) + [0x05E2]}
        mem.update({23296 + k: b for k, b in enumerate(code)})
        regs, fields = [0] * 24, [23296, 0, 1, 1, 0, 0]
        for phase in (8, 'fl', 15):
            r = fast_load_real(mods, ms, main_block, regs, fields, mem)[1] if phase == 'fl' else ms.exec(phase, regs, fields, mem, [255])
            p = r.split(' ; ')
            regs, fields = list(map(int, p[0].split())), list(map(int, p[1].split()))
            for w in p[4].split():
                a, v = w.split(':')
                mem[int(a)] = int(v)
        bad = [a for a in range(org, org + len(ram)) if not stack - 4 <= a < stack and mem.get(a, 0) != ram[a - org]]
        return fields[0] != start or regs[12] != stack or bool(bad)
    if data['kind'] == 'banksteps':
        return True
    return False
