"""C15 — image macros and sna2img render pixel-exact PNGs.

Theorems: lean/SkoolVerif/Props/C15.lean (table-driven CRC = bit-serial CRC-32 for all byte
strings, chunk framing parses back, mask truth tables, flip/rotate laws, pack/unpack round trip and
the pixel theorem of the generic scanline builder for all crops/scales, flash rectangle).
Tie: hand models Model/PngCrc.lean, Model/ZxTile.lean, Model/PngScan.lean + correspondence (this
file) against skoolkit.pngwriter / image / graphics (scanline bytes before zlib, CRCs vs
zlib.crc32, whole files).  E2E: ImageWriter.write_image and sna2img.main output decoded by the
independent decoder harness/indep/pngdec.py and compared pixel by pixel with the Spectrum display
rules of harness/indep/zxrender.py."""
import io
import os
import zlib

from framework import fresh_import
from indep import pngdec, zxrender

PROPS = 'SkoolVerif.Props.C15'
METHODS = ('any', 'bd0', 'bd1_nt', 'bd1_at', 'bd2_nt', 'bd2_at', 'bd4_nt')
KEY_F6 = 'flash-rect-origin-beyond-size'


# ---- generators ---------------------------------------------------------------------------

def rand_byte(rng):
    return rng.choice((0, 255, 1, 128, 0x0F, 0xF0, 0x55, 0xAA, rng.randrange(256), rng.randrange(256)))


def rand_tile_rows(rng):
    kind = rng.randrange(7)
    if kind == 0:
        return [0] * 8
    if kind == 1:
        return [255] * 8
    if kind == 2:
        return [rng.randrange(256)] * 8
    return [rand_byte(rng) for _ in range(8)]


def rand_attr_pool(rng, flashy=False):
    style = rng.randrange(6)
    if style == 0:      # one attribute (1 or 2 colours)
        pool = [rng.choice((0, 7, 56, 63, 0x47, 0x78, 0x3F, 0x40, rng.randrange(256)))]
    elif style == 1:    # ink == paper somewhere
        c = rng.randrange(8)
        pool = [c * 9 | rng.choice((0, 64, 128, 192)), rng.randrange(256)]
    elif style == 2:    # few colours -> bit depth 2
        pool = [rng.choice((0x07, 0x38, 0x02, 0x10)) | rng.choice((0, 128))]
    else:
        pool = [rng.randrange(256) for _ in range(rng.choice((2, 3, 8)))]
    if flashy:
        pool = [a | 128 if rng.randrange(3) else a for a in pool]
    return pool


def rand_tiles(rng, cols, rows, with_masks, flashy=False):
    pool = rand_attr_pool(rng, flashy)
    tiles = []
    for _ in range(rows):
        row = []
        for _ in range(cols):
            mask = None
            if with_masks and rng.randrange(5):
                mask = rand_tile_rows(rng)
            row.append((rng.choice(pool), rand_tile_rows(rng), mask))
        tiles.append(row)
    return tiles


def rand_crop(rng, scale, cols, rows, far_origin=False):
    fw, fh = 8 * scale * cols, 8 * scale * rows
    kind = rng.randrange(6)
    if kind == 0 and not far_origin:
        return (0, 0, None, None)
    inc = 8 * scale
    def coord(full):
        c = rng.randrange(5)
        if c == 0:
            return 0
        if c == 1:      # on / next to a tile boundary
            return min(full - 1, max(0, inc * rng.randrange(full // inc + 1) + rng.choice((-1, 0, 1))))
        if c == 2:      # on / next to a scaled pixel boundary
            return min(full - 1, max(0, scale * rng.randrange(full // scale) + rng.choice((-1, 0, 1))))
        return rng.randrange(full)
    x, y = coord(fw), coord(fh)
    if far_origin:
        x = rng.randrange(fw // 2, fw)
        y = rng.choice((y, rng.randrange(fh // 2, fh)))
    def size(full, o):
        c = rng.randrange(6)
        if c == 0:
            return None
        if c == 1:
            return rng.randrange(1, full + 4)
        if c == 2:
            return 1
        if c == 3:      # ends on / next to a tile boundary
            e = inc * rng.randrange(o // inc, full // inc + 1) + rng.choice((-1, 0, 1))
            return max(1, min(full, e) - o)
        return rng.randrange(1, full - o + 1)
    return (x, y, size(fw, x), size(fh, y))


def mk_udgs(graphics, tiles):
    return [[graphics.Udg(a, list(d), list(m) if m is not None else None) for a, d, m in row] for row in tiles]


def enc_udg(t):
    a, d, m = t
    if m is None:
        tail = '0'
    elif len(m) == 0:
        tail = '2'
    else:
        tail = '1 ' + ' '.join(map(str, m))
    return f"{a} {' '.join(map(str, d))} {tail}"


def enc_arr(tiles):
    return f'{len(tiles)} ' + ' '.join(f'{len(row)} ' + ' '.join(enc_udg(t) for t in row) if row else '0' for row in tiles)


def udgs_to_tiles(udgs):
    return [[(u.attr, list(u.data), None if u.mask is None else list(u.mask)) for u in row] for row in udgs]


def nums(seq):
    return ' '.join(map(str, seq))


def ok(seq):
    s = 'ok ' + nums(seq)
    return s if s != 'ok ' else 'ok '


def norm(lines):
    return None if lines is None else [l if l != 'ok' else 'ok ' for l in lines]


# ---- correspondence -----------------------------------------------------------------------

class Corr:
    def __init__(self, chk):
        self.chk = chk
        self.ops = []
        self.impl = []
        self.tags = []

    def add(self, tag, op, impl, key=None, sample=None):
        self.ops.append(op)
        self.impl.append(impl)
        self.chk.case(tag, key, sample)


def corr_crc(chk, co, pngwriter):
    rng = chk.rng
    w = pngwriter.PngWriter()
    for i in range(256):
        co.add('crctab', f'crctab {i}', f'ok {w.crc_table[i]}', ('crctab', i))
    msgs = [[], [0], [255], [0] * 9, [255] * 40, list(range(256)), [73, 69, 78, 68],
            [97, 99, 84, 76, 0, 0, 0, 2, 0, 0, 0, 0]]
    for b in (0, 1, 128, 255):
        msgs += [[b], [b, b], [0, b], [b, 0, 0, 0, 0]]
    for _ in range(chk.scale(250, 4000)):
        n = rng.choice((1, 2, 3, 4, 5, 8, 13, 33, 100, 700))
        msgs.append([rand_byte(rng) for _ in range(n)])
    for m in msgs:
        got = list(w._get_crc(m))
        co.add('crc', f'crc {len(m)} {nums(m)}', ok(got), ('crc', tuple(m)) if m else None,
               {'op': 'crc', 'len': len(m), 'impl': got})
        # the property on the real code: the CRC field is the CRC-32 of the bytes (zlib is the oracle)
        want = zlib.crc32(bytes(m)) & 0xFFFFFFFF
        if got != [want >> 24, (want >> 16) & 255, (want >> 8) & 255, want & 255]:
            chk.violation('crc-differs-from-crc32', f'PngWriter._get_crc({m[:20]}...) = {got}, CRC-32 is {want:08x}',
                          {'kind': 'crc', 'data': m})
        if len(m) >= 4:
            f = io.BytesIO()
            w._write_chunk(f, m)
            co.add('chunk', f'chunk {len(m)} {nums(m)}', ok(f.getvalue()), ('chunk', tuple(m)))
    for n in list(range(0, 52)) + [765, 768]:
        bd, ps = w._get_bit_depth([0] * n)
        co.add('bitdepth', f'bitdepth {n}', f'ok {bd} {ps}', ('bitdepth', n))


def corr_tiles(chk, co, image, graphics, pngwriter):
    rng = chk.rng
    masks = {0: image.NoMask(), 1: image.OrAndMask(), 2: image.AndOrMask()}
    # mask.apply: all data bytes for NoMask, a boundary-biased grid of (data, mask) pairs for the others
    grid = sorted(set([0, 1, 2, 3, 127, 128, 129, 254, 255, 0x0F, 0xF0, 0x55, 0xAA] +
                      [rng.randrange(256) for _ in range(chk.scale(20, 256))]))
    pairs = [(0, u, None) for u in range(256)]
    for k in (1, 2):
        pairs += [(k, u, None) for u in grid] + [(k, u, []) for u in grid[:4]]
        pairs += [(k, u, m) for u in grid for m in grid]
    if chk.thorough:
        pairs += [(k, u, m) for k in (1, 2) for u in range(256) for m in range(256)]
    for k, u, m in pairs:
        row = rng.randrange(8)
        data = [rng.randrange(256) for _ in range(8)]
        data[row] = u
        mask = None
        if m == []:
            mask = []
        elif m is not None:
            mask = [rng.randrange(256) for _ in range(8)]
            mask[row] = m
        paper, ink, trans = rng.choice(((0, 1, 2), (3, 5, 0), (1, 1, 0), (7, 7, 7)))
        udg = graphics.Udg(56, data, mask)
        got = masks[k].apply(udg, row, paper, ink, trans)
        co.add(f'mask{k}', f'mask {k} {enc_udg((56, data, mask))} {row} {paper} {ink} {trans}', ok(got),
               ('mask', k, u, None if m is None else tuple(m) if m == [] else m))
    for k in (0, 1, 2):
        for p, i, t in ((0, 1, 2), (5, 5, 0), (3, 2, 1)):
            try:
                r = ok(masks[k].colours((p, i, t), 0, 1, 2))
            except AttributeError:
                r = 'err attributeError'
            co.add('colours', f'colours {k} {p} {i} {t}', r, ('colours', k, p, i, t))
    iw = image.ImageWriter()
    for a in range(256):
        paper, ink = iw.attr_index[a]
        co.add('attridx', f'attridx {a}', f'ok {paper} {ink}', ('attridx', a))
        co.add('swapattr', f'swapattr {a}', f'ok {(a & 192) + (a & 7) * 8 + (a & 56) // 8}', ('swapattr', a))
        co.add('flipbyte', f'flipbyte {a}', f'ok {graphics.FLIP[a]}', ('flipbyte', a))
        co.add('bitpairs', f'bitpairs {a}', ok(pngwriter.BIT_PAIRS[a]), ('bitpairs', a))
    for n in range(16):
        co.add('bits4', f'bits4 {n}', ok(pngwriter.BITS4[n]), ('bits4', n))
    # Udg.flip / Udg.rotate
    for _ in range(chk.scale(300, 5000)):
        data = rand_tile_rows(rng)
        mask = rng.choice((None, None, [], rand_tile_rows(rng), rand_tile_rows(rng)))
        t = (rng.randrange(256), data, mask)
        for name, meth, arg in (('udgflip', 'flip', rng.choice((0, 1, 2, 3, 4, 5, 7))),
                                ('udgrot', 'rotate', rng.choice((0, 1, 2, 3, 4, 5, 6, 7)))):
            u = graphics.Udg(t[0], list(data), None if mask is None else list(mask))
            getattr(u, meth)(arg)
            co.add(name, f'{name} {arg} {enc_udg(t)}', 'ok ' + enc_udg((u.attr, u.data, u.mask)),
                   (name, arg, tuple(data), None if mask is None else tuple(mask)))
    # flip_udgs / rotate_udgs on arrays (incl. ragged ones for rotate)
    for _ in range(chk.scale(150, 2500)):
        rows, cols = rng.randrange(1, 5), rng.randrange(1, 5)
        tiles = rand_tiles(rng, cols, rows, rng.randrange(2))
        if rng.randrange(4) == 0:
            tiles = [row[:rng.randrange(1, cols + 1)] for row in tiles]
        f, r = rng.choice((0, 1, 2, 3, 3, 6)), rng.choice((0, 1, 2, 3, 5, 7))
        udgs = mk_udgs(graphics, tiles)
        graphics.flip_udgs(udgs, f)
        co.add('fliparr', f'fliparr {f} {enc_arr(tiles)}', 'ok ' + enc_arr(udgs_to_tiles(udgs)), ('fliparr', f, repr(tiles)))
        udgs = mk_udgs(graphics, tiles)
        graphics.rotate_udgs(udgs, r)
        co.add('rotarr', f'rotarr {r} {enc_arr(tiles)}', 'ok ' + enc_arr(udgs_to_tiles(udgs)), ('rotarr', r, repr(tiles)))
    for depth in (1, 2, 4):
        for scale in range(1, chk.scale(6, 9)):
            table = pngwriter._get_bytes(depth, scale)
            for v in range(256):
                if chk.thorough or (v * 7 + scale + depth) % 5 == 0 or v in (0, 1, 128, 255, 27, 0xE4):
                    co.add('getbytes', f'getbytes {depth} {scale} {v}', ok(table[v]), ('getbytes', depth, scale, v))
    for bd in (0, 1, 2, 4):
        for fs in (0, 1):
            for m in (0, 1):
                w = pngwriter.PngWriter(masks=masks)
                name = w.png_method_dict[bd][fs][m].__name__.replace('_build_image_data_', '')
                idx = METHODS.index('any' if name == 'bd_any' else name)
                co.add('dispatch', f'dispatch {bd} {fs} {m}', f'ok {idx}', ('dispatch', bd, fs, m))


def build_real(writer, masks, graphics, method, tiles, scale, mask_type, crop, attr_map, bit_depth):
    """Scanline bytes (before zlib) of one real builder."""
    frame = graphics.Frame(mk_udgs(graphics, tiles), scale, mask_type, *crop)
    frame.attr_map = attr_map
    name = '_build_image_data_' + ('bd_any' if method == 'any' else method)
    try:
        data = getattr(writer, name)(frame, masks[mask_type], bit_depth)
    except KeyError:
        return 'err keyError'
    return ok(zlib.decompress(bytes(data)))


def build_op(method, tiles, scale, bit_depth, rect, mask_type, attr_map):
    am = ' '.join(f'{a} {p} {i}' for a, (p, i) in sorted(attr_map.items()))
    return (f'build {METHODS.index(method)} {scale} {bit_depth} {rect[0]} {rect[1]} {rect[2]} {rect[3]} {mask_type} '
            f'{len(attr_map)} {am} {enc_arr(tiles)}')


def writer_view(image, graphics, tiles, scale, mask_type, crop, tindex=0, anim=1):
    """What ImageWriter decides for a single frame: (frame, palette, attr_map, has_trans, bit_depth, palette_size)."""
    iw = image.ImageWriter({'PNGEnableAnimation': anim})
    frame = graphics.Frame(mk_udgs(graphics, tiles), scale, mask_type, *crop, tindex=tindex)
    iw._get_colours(frame, bool(anim))
    palette, attr_map, has_trans = iw._get_palette(set(frame.colours), frame.attrs, frame.has_trans, tindex)
    bit_depth, psize = iw.writer._get_bit_depth(palette)
    return iw, frame, palette, attr_map, has_trans, bit_depth, psize


def corr_build(chk, co, image, graphics, pngwriter):
    rng = chk.rng
    masks = {0: image.NoMask(), 1: image.OrAndMask(), 2: image.AndOrMask()}
    writer = pngwriter.PngWriter(masks=masks)
    for n in range(chk.scale(1200, 9000)):
        cols, rows = rng.choice((1, 1, 2, 3, 4)), rng.choice((1, 1, 2, 3))
        mask_type = rng.randrange(3)
        tiles = rand_tiles(rng, cols, rows, mask_type and rng.randrange(4) > 0)
        scale = rng.choice((1, 1, 2, 2, 3, 4, 5, 8))
        crop = rand_crop(rng, scale, cols, rows)
        rect = zxrender.crop_rect(tiles, scale, *crop)
        mode = rng.randrange(3)
        if mode == 0:
            # the attribute map and bit depth ImageWriter itself would choose
            iw, frame, palette, attr_map, has_trans, bit_depth, psize = writer_view(image, graphics, tiles, scale, mask_type, crop)
        else:
            # any map with indices that fit the bit depth (covers every tile, or misses some: KeyError)
            bit_depth = rng.choice((1, 2, 4))
            attrs = sorted(set(t[0] for row in tiles for t in row))
            if mode == 2 and rng.randrange(6) == 0:
                attrs = attrs[:-1]
            top = 1 << bit_depth
            attr_map = {a: (rng.randrange(top), rng.randrange(top)) for a in attrs}
        eff_mask = mask_type if any(t[2] for row in tiles for t in row) else 0
        impl = build_real(writer, masks, graphics, 'any', tiles, scale, eff_mask, crop, attr_map, bit_depth)
        co.add(f'build-any-bd{bit_depth}', build_op('any', tiles, scale, bit_depth, rect, eff_mask, attr_map), impl,
               ('any', n), {'op': 'build any', 'scale': scale, 'crop': crop, 'bit_depth': bit_depth, 'bytes': len(impl) // 2})
        if rect == (0, 0, 8 * scale * cols, 8 * scale * rows):
            # full size: every specialised builder that is applicable to this map
            vals = set(v for pi in attr_map.values() for v in pi)
            cands = []
            if bit_depth == 1 and not eff_mask and vals <= {0, 1}:
                cands.append('bd1_nt')
            if bit_depth == 1 and vals <= {0, 1}:
                cands.append('bd1_at')
            if bit_depth == 2 and not eff_mask:
                cands.append('bd2_nt')
            if bit_depth == 2 and eff_mask:
                cands.append('bd2_at')
            if bit_depth == 4 and not eff_mask:
                cands.append('bd4_nt')
            if bit_depth == 1 and len(vals) == 1:
                cands.append('bd0')
            for meth in cands:
                simpl = build_real(writer, masks, graphics, meth, tiles, scale, eff_mask, crop, attr_map, bit_depth)
                co.add(f'build-{meth}', build_op(meth, tiles, scale, bit_depth, rect, eff_mask, attr_map), simpl, (meth, n))
                # the property on the real code: specialised encoder == generic encoder
                # (bd0 writes zeros: it is only selected when the single colour has index 0)
                if simpl != impl and not (meth == 'bd0' and vals != {0}) and not impl.startswith('err'):
                    chk.violation(f'specialised-differs-{meth}', f'_build_image_data_{meth} differs from _build_image_data_bd_any '
                                  f'on a full-size frame (scale {scale}, bit depth {bit_depth}, mask {eff_mask})',
                                  {'kind': 'special', 'method': meth, 'tiles': tiles, 'scale': scale, 'mask': eff_mask,
                                   'attr_map': sorted(attr_map.items()), 'bit_depth': bit_depth})


def corr_geom_flash(chk, co, image, graphics):
    rng = chk.rng
    for n in range(chk.scale(500, 6000)):
        cols, rows = rng.choice((1, 2, 3, 4)), rng.choice((1, 2, 3))
        mask_type = rng.randrange(3)
        tiles = rand_tiles(rng, cols, rows, mask_type and rng.randrange(4) > 0, flashy=True)
        scale = rng.choice((1, 2, 2, 3, 4, 8))
        crop = rand_crop(rng, scale, cols, rows, far_origin=rng.randrange(3) == 0)
        frame = graphics.Frame(mk_udgs(graphics, tiles), scale, mask_type, *crop)
        o = lambda v: -1 if v is None else v
        co.add('geom', f'geom {scale} {crop[0]} {crop[1]} {o(crop[2])} {o(crop[3])} {enc_arr(tiles)}',
               f'ok {frame.full_width} {frame.full_height} {frame.width} {frame.height} {int(frame.cropped)}', ('geom', n))
        use_flash = rng.randrange(5) > 0
        iw = image.ImageWriter()
        iw._get_colours(frame, use_flash)
        fr = frame.flash_rect
        co.add('flashrect', f'flashrect {mask_type} {scale} {frame.x} {frame.y} {frame.width} {frame.height} {int(use_flash)} {enc_arr(tiles)}',
               'ok none' if fr is None else ok(fr), ('flashrect', n) if fr else None,
               {'op': 'flashrect', 'scale': scale, 'crop': crop, 'impl': fr})
        if fr:
            g = frame.swap_colours(frame.x + fr[0], frame.y + fr[1], fr[2], fr[3])
            if min(fr) >= 0:
                co.add('swapcol', f'swapcol {scale} {crop[0]} {crop[1]} {o(crop[2])} {o(crop[3])} '
                       f'{frame.x + fr[0]} {frame.y + fr[1]} {fr[2]} {fr[3]} {enc_arr(tiles)}',
                       f'ok {g._x} {g._y} {o(g._width)} {o(g._height)} {enc_arr(udgs_to_tiles(g.udgs))}', ('swapcol', n))


def corr_imgdata(chk, co, image, graphics):
    """PngWriter._build_image_data (dispatch + frame 1 + flash frame) on what ImageWriter feeds it."""
    rng = chk.rng
    o = lambda v: -1 if v is None else v
    for n in range(chk.scale(500, 6000)):
        cols, rows = rng.choice((1, 1, 2, 3, 4)), rng.choice((1, 1, 2, 3))
        mask_type = rng.randrange(3)
        flashy = rng.randrange(2) == 0
        tiles = rand_tiles(rng, cols, rows, mask_type and rng.randrange(4) > 0, flashy)
        scale = rng.choice((1, 1, 2, 2, 3, 4, 5))
        crop = rand_crop(rng, scale, cols, rows, far_origin=flashy and rng.randrange(3) == 0)
        iw, frame, palette, attr_map, has_trans, bit_depth, psize = writer_view(image, graphics, tiles, scale, mask_type, crop)
        if rng.randrange(8) == 0 and len(attr_map) > 1:
            attr_map = dict(sorted(attr_map.items())[:-1])      # incomplete map: KeyError
        fr = frame.flash_rect
        if fr is not None and min(fr) < 0:
            continue
        try:
            f1, f2 = iw.writer._build_image_data(frame, psize, bit_depth, attr_map, fr)
            impl = 'ok ' + nums(zlib.decompress(bytes(f1))) + ' | ' + ('none' if f2 is None else nums(zlib.decompress(bytes(f2))))
        except KeyError:
            impl = 'err keyError'
        am = ' '.join(f'{a} {p} {i}' for a, (p, i) in sorted(attr_map.items()))
        fl = '0' if fr is None else f'1 {fr[0]} {fr[1]} {fr[2]} {fr[3]}'
        op = (f'imgdata {scale} {crop[0]} {crop[1]} {o(crop[2])} {o(crop[3])} {mask_type} {int(bool(frame.has_masks))} {psize} '
              f'{bit_depth} {len(attr_map)} {am} {fl} {enc_arr(tiles)}')
        co.add('imgdata' + ('-flash' if fr else ''), ' '.join(op.split()), ' '.join(impl.split()), ('imgdata', n),
               {'op': 'imgdata', 'scale': scale, 'crop': crop, 'flash_rect': fr, 'bit_depth': bit_depth})
        f2map = dict(attr_map)
        for attr, (paper, ink) in attr_map.items():
            f2map[(attr & 192) + (attr & 7) * 8 + (attr & 56) // 8] = (ink, paper)
        co.add('frame2attrs', f'frame2attrs {len(attr_map)} {am}'.rstrip(),
               ok([v for a in sorted(f2map) for v in (a,) + tuple(f2map[a])]), ('frame2attrs', n))


def capture_write(image, graphics, frames_spec, options):
    """Run ImageWriter.write_image on real frames; returns (file bytes, args PngWriter.write_image got)."""
    iw = image.ImageWriter(options)
    frames = [graphics.Frame(mk_udgs(graphics, s['tiles']), s['scale'], s['mask'], *s['crop'],
                             delay=s.get('delay', 32), tindex=s.get('tindex', 0), alpha=s.get('alpha', -1),
                             x_offset=s.get('x_offset', 0), y_offset=s.get('y_offset', 0)) for s in frames_spec]
    seen = {}
    real = iw.writer.write_image
    def spy(frames_, img_file, palette, attr_map, has_trans, flash_rect):
        seen.update(palette=list(palette), has_trans=has_trans, flash_rect=flash_rect, attr_map=dict(attr_map))
        return real(frames_, img_file, palette, attr_map, has_trans, flash_rect)
    iw.writer.write_image = spy
    f = io.BytesIO()
    iw.write_image(frames, f)
    return f.getvalue(), seen, frames, iw


def corr_file(chk, co, image, graphics, cases):
    """Whole files: the container model is given the same zlib streams the real writer produced."""
    for spec, options, data, seen, frames, iw in cases:
        try:
            chunks = pngdec.split_chunks(data)
        except pngdec.PngError:
            continue
        blobs = [p for t, p in chunks if t == 'IDAT'] + [p[4:] for t, p in chunks if t == 'fdAT']
        if len([t for t, _ in chunks if t == 'IDAT']) != 1:
            continue
        def fi(fr, blob):
            return f'{fr.width} {fr.height} {fr.delay} {fr.x_offset} {fr.y_offset} {len(blob)} {nums(blob)}'
        fl = seen['flash_rect']
        rest = frames[1:]
        if fl and len(frames) == 1:
            flash = f'1 {fl[0]} {fl[1]} {fl[2]} {fl[3]} {len(blobs[1])} {nums(blobs[1])}'
            rest_blobs = []
        else:
            flash = '0'
            rest_blobs = blobs[1:]
        if len(rest_blobs) != len(rest):
            continue
        a1 = frames[0].alpha if frames[0].alpha >= 0 else -1
        op = (f'file {fi(frames[0], blobs[0])} {len(rest)} ' + ' '.join(fi(fr, b) for fr, b in zip(rest, rest_blobs)) +
              f" {len(seen['palette'])} {nums(seen['palette'])} {int(bool(seen['has_trans']))} {a1} {iw.writer.alpha} {flash}")
        co.add('file', ' '.join(op.split()), ok(data), ('file', len(co.ops)))


# ---- end to end -----------------------------------------------------------------------------

def first_diff(got, want):
    for y, (g, w) in enumerate(zip(got, want)):
        for x, (a, b) in enumerate(zip(g, w)):
            if a != b:
                return f'pixel ({x},{y}) is {a}, the display rules give {b}'
    return f'{len(got)} rows decoded, {len(want)} expected'


def expected_single(spec, options):
    tiles, scale, crop, mask_type = spec['tiles'], spec['scale'], spec['crop'], spec['mask']
    rect = zxrender.crop_rect(tiles, scale, *crop)
    s1 = zxrender.render(tiles, scale, rect, mask_type)
    s2 = zxrender.render(tiles, scale, rect, mask_type, swap=True)
    anyt = any(0 in r for r in s1)
    alpha = spec.get('alpha', -1)
    a = options.get('PNGAlpha', 255) & 255 if alpha < 0 else alpha & 255
    tindex = spec.get('tindex', 0)
    return rect, zxrender.to_rgba(s1, tindex, a, anyt), zxrender.to_rgba(s2, tindex, a, anyt), s1 != s2


def check_single(image, graphics, spec, options):
    """[(key, description)] for one single-frame image written by ImageWriter.write_image."""
    rect, e1, e2, flashes = expected_single(spec, options)
    cls = f"{'cropped' if rect != (0, 0, 8 * spec['scale'] * len(spec['tiles'][0]), 8 * spec['scale'] * len(spec['tiles'])) else 'full'}"
    cls += '-masked' if spec['mask'] and any(t[2] for row in spec['tiles'] for t in row) else '-plain'
    anim = options.get('PNGEnableAnimation', 1)
    try:
        data, seen, frames, iw = capture_write(image, graphics, [spec], options)
    except Exception as e:
        if isinstance(e, (ValueError, KeyError)) and anim and flashes and (rect[2] < rect[0] or rect[3] < rect[1]):
            return [(KEY_F6, f'write_image raises {type(e).__name__} for a flashing image cropped at ({rect[0]},{rect[1]}) to {rect[2]}x{rect[3]}')], None
        return [(f'write-image-raises-{type(e).__name__}-{cls}', f'write_image raises {type(e).__name__}: {e}')], None
    try:
        img = pngdec.decode(data)
    except pngdec.PngError as e:
        return [(f'invalid-png-{e.kind}', f'file is not a valid PNG/APNG: {e}')], None
    cls = f"bd{img['bit_depth']}-{cls}"
    fails = []
    if (img['width'], img['height']) != (rect[2], rect[3]):
        return [(f'size-{cls}', f"image is {img['width']}x{img['height']}, crop rectangle is {rect[2]}x{rect[3]}")], None
    comps = pngdec.composite(img)
    if comps[0] != e1:
        fails.append((f'pixels-{cls}', 'frame 1: ' + first_diff(comps[0], e1)))
    if anim and flashes:
        if len(comps) != 2:
            fails.append((f'flash-frame-missing-{cls}', f'{len(comps)} frame(s) written for an image with visibly flashing cells'))
        elif comps[1] != e2:
            fails.append((f'flash-frame-{cls}', 'after frame 2: ' + first_diff(comps[1], e2)))
    elif len(comps) > 1:
        if len(comps) > 2 or comps[1] != (e2 if anim else e1):
            fails.append((f'unexpected-frames-{cls}', f'{len(comps)} frames written, animation {"on" if anim else "off"}'))
    return fails, (spec, options, data, seen, frames, iw)


def rand_single(rng, flashy=False, far=False):
    cols, rows = rng.choice((1, 1, 2, 3, 4)), rng.choice((1, 1, 2, 3))
    mask_type = rng.randrange(3)
    tiles = rand_tiles(rng, cols, rows, mask_type and rng.randrange(5) > 0, flashy)
    scale = rng.choice((1, 1, 2, 2, 3, 4, 5, 8))
    spec = {'tiles': tiles, 'scale': scale, 'crop': rand_crop(rng, scale, cols, rows, far), 'mask': mask_type,
            'tindex': rng.choice((0, 0, 1, 8, rng.randrange(16))), 'alpha': rng.choice((-1, -1, 0, 128, 255, rng.randrange(256)))}
    options = {'PNGAlpha': rng.choice((255, 255, 0, 100)), 'PNGEnableAnimation': int(rng.randrange(4) > 0 or flashy)}
    return spec, options


def e2e_single(chk, image, graphics):
    rng = chk.rng
    files = []
    for n in range(chk.scale(2000, 16000)):
        stream = n % 4
        spec, options = rand_single(rng, flashy=stream >= 2, far=stream == 3)
        fails, art = check_single(image, graphics, spec, options)
        rect = zxrender.crop_rect(spec['tiles'], spec['scale'], *spec['crop'])
        chk.case(('e2e-single', 'e2e-single', 'e2e-flash', 'e2e-flash-far-origin')[stream], ('single', n),
                 {'scale': spec['scale'], 'crop': spec['crop'], 'mask': spec['mask'], 'tiles': f"{len(spec['tiles'][0])}x{len(spec['tiles'])}"})
        for key, desc in fails:
            chk.violation(key, desc + f" [scale {spec['scale']}, crop {spec['crop']}, mask {spec['mask']}]",
                          {'kind': 'single', 'spec': spec, 'options': options})
        if art and n % chk.scale(7, 40) == 0:
            files.append(art)
    return files


def check_multi(image, graphics, specs, options):
    """Multi-frame APNG: every frame by the display rules, common palette / transparency."""
    try:
        data, seen, frames, iw = capture_write(image, graphics, specs, options)
    except Exception as e:
        return [(f'write-image-raises-{type(e).__name__}-multi', f'write_image raises {type(e).__name__}: {e}')], None
    try:
        img = pngdec.decode(data)
    except pngdec.PngError as e:
        return [(f'invalid-png-{e.kind}', f'multi-frame file is not a valid APNG: {e}')], None
    if len(img['frames']) != len(specs):
        return [('multi-frame-count', f"{len(img['frames'])} frames decoded, {len(specs)} written")], None
    slots = []
    for s in specs:
        rect = zxrender.crop_rect(s['tiles'], s['scale'], *s['crop'])
        slots.append((rect, zxrender.render(s['tiles'], s['scale'], rect, s['mask'])))
    anyt = any(0 in r for _, sl in slots for r in sl)
    alpha = specs[0].get('alpha', -1)
    a = options.get('PNGAlpha', 255) & 255 if alpha < 0 else alpha & 255
    fails = []
    for n, (s, (rect, sl), fr) in enumerate(zip(specs, slots, img['frames'])):
        want = zxrender.to_rgba(sl, specs[0].get('tindex', 0), a, anyt)
        geo = (fr['x'], fr['y'], fr['w'], fr['h'])
        if geo != (s.get('x_offset', 0), s.get('y_offset', 0), rect[2], rect[3]):
            fails.append(('multi-frame-geometry', f'frame {n} placed at {geo}'))
        elif fr['rgba'] != want:
            fails.append((f"multi-pixels-bd{img['bit_depth']}", f'frame {n}: ' + first_diff(fr['rgba'], want)))
    return fails, (specs, options, data, seen, frames, iw)


def e2e_multi(chk, image, graphics):
    rng = chk.rng
    files = []
    for n in range(chk.scale(300, 1500)):
        spec0, options = rand_single(rng)
        r0 = zxrender.crop_rect(spec0['tiles'], spec0['scale'], *spec0['crop'])
        specs = [spec0]
        for _ in range(rng.choice((1, 1, 2, 3))):
            for _ in range(20):
                s, _o = rand_single(rng)
                r = zxrender.crop_rect(s['tiles'], s['scale'], *s['crop'])
                if r[2] <= r0[2] and r[3] <= r0[3]:
                    s['x_offset'] = rng.randrange(r0[2] - r[2] + 1)
                    s['y_offset'] = rng.randrange(r0[3] - r[3] + 1)
                    s['delay'] = rng.choice((1, 32, 255, 256, 1000))
                    specs.append(s)
                    break
        if len(specs) < 2:
            continue
        fails, art = check_multi(image, graphics, specs, options)
        chk.case('e2e-multi', ('multi', n), {'frames': len(specs)})
        for key, desc in fails:
            chk.violation(key, desc, {'kind': 'multi', 'specs': specs, 'options': options})
        if art and n % 5 == 0:
            files.append(art)
    return files


def scr_tiles(mem, x, y, w, h):
    """Tiles of the Spectrum display file in `mem` (ZX Spectrum screen layout)."""
    tiles = []
    for r in range(y, min(y + h, 24)):
        row = []
        for c in range(x, min(x + w, 32)):
            data = [mem[16384 + 2048 * (r // 8) + 256 * line + 32 * (r % 8) + c] for line in range(8)]
            row.append((mem[22528 + 32 * r + c], data, None))
        tiles.append(row)
    return tiles


def transform(tiles, flip, rotate):
    mx = zxrender.picture_bits(tiles)
    return zxrender.matrix_to_tiles(zxrender.rotate_matrix(zxrender.flip_matrix(mx, flip), rotate))


def check_sna2img(sna2img, scratch, mem, args, expect, anim):
    """Run sna2img.main on a 64K memory image; expect = (tiles, scale, crop, mask, tindex, alpha)."""
    src = os.path.join(scratch, 'in.bin')
    out = os.path.join(scratch, 'out.png')
    with open(src, 'wb') as f:
        f.write(bytes(mem[16384:]))
    if os.path.exists(out):
        os.remove(out)
    try:
        sna2img.main(['-B', '-O', '16384'] + args + [src, out])
        with open(out, 'rb') as f:
            data = f.read()
    except Exception as e:
        return [(f'sna2img-raises-{type(e).__name__}', f'sna2img {args} raises {type(e).__name__}: {e}')]
    try:
        img = pngdec.decode(data)
    except pngdec.PngError as e:
        return [(f'invalid-png-{e.kind}', f'sna2img {args}: not a valid PNG/APNG: {e}')]
    tiles, scale, crop, mask_type, tindex, alpha = expect
    spec = {'tiles': tiles, 'scale': scale, 'crop': crop, 'mask': mask_type, 'tindex': tindex, 'alpha': alpha}
    rect, e1, e2, flashes = expected_single(spec, {})
    if (img['width'], img['height']) != (rect[2], rect[3]):
        return [('sna2img-size', f"sna2img {args}: image is {img['width']}x{img['height']}, expected {rect[2]}x{rect[3]}")]
    comps = pngdec.composite(img)
    fails = []
    if comps[0] != e1:
        fails.append(('sna2img-pixels', f'sna2img {args}: ' + first_diff(comps[0], e1)))
    if anim and flashes:
        if len(comps) != 2 or comps[1] != e2:
            fails.append(('sna2img-flash-frame', f'sna2img {args}: second frame wrong or missing ({len(comps)} frames)'))
    elif len(comps) > 1 and comps[1] != (e2 if anim else e1):
        fails.append(('sna2img-unexpected-frames', f'sna2img {args}: {len(comps)} frames'))
    return fails


def rand_memory(rng):
    mem = [0] * 65536
    style = rng.randrange(3)
    for a in range(16384, 22528):
        mem[a] = rand_byte(rng) if style else rng.randrange(256)
    pool = rand_attr_pool(rng, flashy=rng.randrange(2))
    for a in range(22528, 23296):
        mem[a] = rng.choice(pool)
    for a in range(23296, 65536):
        mem[a] = rand_byte(rng)
    return mem


def sna2img_case(rng, mem):
    """(args, expectation, animated) for one invocation."""
    scale = rng.choice((1, 1, 2, 3))
    flip, rotate = rng.choice((0, 0, 1, 2, 3)), rng.choice((0, 0, 1, 2, 3))
    anim = rng.randrange(3) > 0
    extra = [] if anim else ['-n']
    if flip:
        extra += ['-f', str(flip)]
    if rotate:
        extra += ['-r', str(rotate)]
    kind = rng.randrange(3)
    if kind == 0:
        # plain screenshot region
        x, y = rng.randrange(32), rng.randrange(24)
        w, h = rng.randrange(1, 7), rng.randrange(1, 5)
        invert = rng.randrange(3) == 0
        tiles = scr_tiles(mem, x, y, w, h)
        if invert:
            tiles = [[((a & 127, [b ^ 255 for b in d], m) if a & 128 else (a, d, m)) for a, d, m in row] for row in tiles]
            extra.append('-i')
        args = ['-o', f'{x},{y}', '-S', f'{w}x{h}', '-s', str(scale)] + extra
        return args, (transform(tiles, flip, rotate), scale, (0, 0, None, None), 0, 0, -1), anim
    if kind == 1:
        # #SCR macro with crop
        x, y = rng.randrange(30), rng.randrange(22)
        w, h = rng.randrange(1, 6), rng.randrange(1, 4)
        tiles = scr_tiles(mem, x, y, w, h)
        final = transform(tiles, flip, rotate)
        crop = rand_crop(rng, scale, len(final[0]), len(final), far_origin=rng.randrange(4) == 0)
        tindex, alpha = rng.choice((0, 0, 1, 8, rng.randrange(16))), rng.choice((-1, 0, 77))
        c = ','.join('' if v is None else str(v) for v in crop)
        macro = f'#SCR({scale},{x},{y},{w},{h},16384,22528,{tindex},{alpha}){{{c}}}'
        # the crop applies to the picture before sna2img's own -f/-r, which act on the tile array
        return ['-e', macro] + extra, (final, scale, crop, 0, tindex, alpha), anim
    # #UDGARRAY with masks, per-macro flip/rotate, crop
    width, height = rng.randrange(1, 4), rng.randrange(1, 4)
    mask_type = rng.randrange(3)
    step = rng.choice((1, 1, 2, 256))
    inc = rng.choice((0, 0, 1, 200))
    attr = rng.choice((56, 7, 0x47, 0xB8, rng.randrange(256)))
    tiles, specs = [], []
    for r in range(height):
        row = []
        for c in range(width):
            addr = rng.randrange(23296, 60000)
            data = [(mem[addr + n * step] + inc) % 256 for n in range(8)]
            a = rng.choice((attr, attr, rng.randrange(256)))
            sp = f'{addr},{a}'
            mask = None
            if mask_type and rng.randrange(4):
                maddr = rng.randrange(23296, 60000)
                mstep = rng.choice((step, 1, 3))
                mask = [mem[maddr + n * mstep] for n in range(8)]
                sp += f':{maddr},{mstep}'
            row.append((a, data, mask))
            specs.append(sp)
        tiles.append(row)
    mflip, mrot = rng.choice((0, 0, 1, 2, 3)), rng.choice((0, 0, 1, 2, 3))
    has_masks = any(t[2] for row in tiles for t in row)
    eff_mask = mask_type if has_masks else 0
    t1 = transform(tiles, mflip, mrot)
    t2 = transform(t1, flip, rotate)
    crop = rand_crop(rng, scale, len(t2[0]), len(t2))     # the crop applies to the final picture
    tindex, alpha = rng.choice((0, 0, 2, rng.randrange(16))), rng.choice((-1, -1, 0, 200))
    c = ','.join('' if v is None else str(v) for v in crop)
    macro = f"#UDGARRAY({width},{attr},{scale},{step},{inc},{mflip},{mrot},{mask_type},{tindex},{alpha})({';'.join(specs)}){{{c}}}"
    return ['-e', macro] + extra, (t2, scale, crop, eff_mask, tindex, alpha), anim


def e2e_sna2img(chk, sna2img):
    rng = chk.rng
    mem = None
    for n in range(chk.scale(450, 4000)):
        if n % 25 == 0:
            mem = rand_memory(rng)
        args, expect, anim = sna2img_case(rng, mem)
        seed = [chk.seed, n]
        fails = check_sna2img(sna2img, chk.scratch, mem, args, expect, anim)
        chk.case('e2e-sna2img-' + ('macro' if args[0] == '-e' else 'screen'), ('sna2img', n), {'args': args})
        for key, desc in fails:
            tiles, scale, crop, mask_type, tindex, alpha = expect
            rect = zxrender.crop_rect(tiles, scale, *crop)
            if key in ('sna2img-raises-ValueError', 'sna2img-raises-KeyError') and anim and (rect[2] < rect[0] or rect[3] < rect[1]):
                key = KEY_F6
            chk.violation(key, desc, {'kind': 'sna2img', 'args': args, 'mem': bytes(mem[16384:]).hex(), 'expect': list(expect), 'anim': anim})


def e2e_geometry(chk, graphics):
    """flip_udgs / rotate_udgs / Udg.flip / Udg.rotate against the documented geometry."""
    rng = chk.rng
    for n in range(chk.scale(300, 4000)):
        rows, cols = rng.randrange(1, 4), rng.randrange(1, 4)
        tiles = rand_tiles(rng, cols, rows, rng.randrange(2))
        flip, rotate = rng.randrange(4), rng.randrange(4)
        udgs = mk_udgs(graphics, tiles)
        graphics.flip_udgs(udgs, flip)
        graphics.rotate_udgs(udgs, rotate)
        want = transform(tiles, flip, rotate)
        chk.case('e2e-geometry', ('geometry', n))
        if udgs_to_tiles(udgs) != want:
            chk.violation(f'flip-rotate-geometry-f{flip}-r{rotate}', f'flip_udgs({flip}) then rotate_udgs({rotate}) does not move pixels as documented',
                          {'kind': 'geometry', 'tiles': tiles, 'flip': flip, 'rotate': rotate})


# ---- entry points -------------------------------------------------------------------------

def run(chk):
    chk.rule = ('tile arrays 1..4 x 1..3 with boundary-biased bytes (0/255/1/128/0F/F0/55/AA/random), attribute pools that force '
                'bit depths 1/2/4 and ink==paper, masks present/absent/partial, scale in {1,2,3,4,5,8}, crops on/next to tile and '
                'scaled-pixel boundaries, width/height 1, None, oversize; flashing streams incl. crop origin > crop size; '
                'multi-frame APNGs with offsets; sna2img on random memory (screen region, #SCR, #UDGARRAY with masks, flip, rotate, '
                'invert, crop). non-trivial = every generated picture (distinct by generator index); correspondence ops are distinct by content')
    chk.trusted += ['hand models lean/SkoolVerif/Model/{PngCrc,ZxTile,PngScan}.lean tied by correspondence (harness/props/c15.py)',
                    'zlib (deflate streams; zlib.crc32 is the CRC oracle of the independent decoder), CPython',
                    'independent decoder harness/indep/pngdec.py and display-rule renderer harness/indep/zxrender.py']
    chk.assumptions += [
        'zlib.decompress(zlib.compress(x)) == x and zlib emits valid streams: the theorems speak about the bytes handed to zlib '
        '(scanlines) and about the container around opaque zlib streams',
        'palette construction is not modelled: ImageWriter._get_colours colour sets (incl. the early-break optimisation), '
        '_get_palette ordering (Python set order) and the attr_map it builds are checked end to end by decoding (every pixel must '
        'come out in the right RGBA), not by theorem; the pixel theorems take the attribute map as a parameter and need it to cover '
        'the visited tiles with indices that fit the bit depth (FlashAttrOk for frame 2: mirror-image entries for swapped attributes)',
        'flash rectangle: proved inside the frame, non-empty and covering every flashing visited tile on the model of the rectangle '
        'arithmetic of _get_colours (has_non_trans modelled without the early break, which cannot change it)',
        'flip/rotate: pixel maps, involution and composition are proved per tile (Udg.flip/rotate); flip_udgs / rotate_udgs pixel maps are proved '
        'for rectangular arrays (ragged arrays, which rotate_udgs tolerates, are tied by correspondence only)',
        'tindex / alpha / tRNS semantics, multi-frame APNG assembly beyond chunk order + sequence numbers, and skoolmacro parameter '
        'parsing are outside the theorems (e2e: ImageWriter.write_image and sna2img.main with #SCR/#UDGARRAY)',
        'byte-domain: tile data/mask bytes and attributes are 0..255 and tiles have 8 rows (WfUdg); Frame arithmetic assumes the crop '
        'origin lies inside the picture (skoolkit does not validate crop specifications)']
    pngwriter, image, graphics, sna2img = fresh_import('skoolkit.pngwriter', 'skoolkit.image', 'skoolkit.graphics', 'skoolkit.sna2img')
    built = chk.lake_build([PROPS, 'SkoolVerif.Prelude.Proto'])
    chk.audit(PROPS)
    if chk.thorough and built:
        chk.leanchecker([PROPS])
    co = Corr(chk)
    corr_crc(chk, co, pngwriter)
    corr_tiles(chk, co, image, graphics, pngwriter)
    corr_build(chk, co, image, graphics, pngwriter)
    corr_geom_flash(chk, co, image, graphics)
    corr_imgdata(chk, co, image, graphics)
    files = e2e_single(chk, image, graphics)
    files += e2e_multi(chk, image, graphics)
    corr_file(chk, co, image, graphics, files)
    model = chk.run_driver('C15', co.ops)
    chk.compare('PngCrc/ZxTile/PngScan models vs skoolkit.pngwriter/image/graphics', co.ops, norm(co.impl), norm(model))
    e2e_geometry(chk, graphics)
    e2e_sna2img(chk, sna2img)


def replay(chk, data):
    pngwriter, image, graphics, sna2img = fresh_import('skoolkit.pngwriter', 'skoolkit.image', 'skoolkit.graphics', 'skoolkit.sna2img')
    kind = data['kind']
    def tl(tiles):
        return [[(a, list(d), None if m is None else list(m)) for a, d, m in row] for row in tiles]
    if kind == 'crc':
        w = pngwriter.PngWriter()
        want = zlib.crc32(bytes(data['data'])) & 0xFFFFFFFF
        return list(w._get_crc(data['data'])) != [want >> 24, (want >> 16) & 255, (want >> 8) & 255, want & 255]
    if kind == 'single':
        spec = dict(data['spec'])
        spec['tiles'] = tl(spec['tiles'])
        spec['crop'] = tuple(spec['crop'])
        fails, _ = check_single(image, graphics, spec, data['options'])
        for key, desc in fails:
            print(f'  {key}: {desc}')
        return bool(fails)
    if kind == 'multi':
        specs = []
        for s in data['specs']:
            s = dict(s)
            s['tiles'] = tl(s['tiles'])
            s['crop'] = tuple(s['crop'])
            specs.append(s)
        fails, _ = check_multi(image, graphics, specs, data['options'])
        for key, desc in fails:
            print(f'  {key}: {desc}')
        return bool(fails)
    if kind == 'sna2img':
        mem = [0] * 16384 + list(bytes.fromhex(data['mem']))
        tiles, scale, crop, mask_type, tindex, alpha = data['expect']
        fails = check_sna2img(sna2img, chk.scratch, mem, data['args'], (tl(tiles), scale, tuple(crop), mask_type, tindex, alpha), data['anim'])
        for key, desc in fails:
            print(f'  {key}: {desc}')
        return bool(fails)
    if kind == 'geometry':
        tiles = tl(data['tiles'])
        udgs = mk_udgs(graphics, tiles)
        graphics.flip_udgs(udgs, data['flip'])
        graphics.rotate_udgs(udgs, data['rotate'])
        return udgs_to_tiles(udgs) != transform(tiles, data['flip'], data['rotate'])
    if kind == 'special':
        masks = {0: image.NoMask(), 1: image.OrAndMask(), 2: image.AndOrMask()}
        writer = pngwriter.PngWriter(masks=masks)
        tiles = tl(data['tiles'])
        am = {a: tuple(pi) for a, pi in data['attr_map']}
        args = (tiles, data['scale'], data['mask'], (0, 0, None, None), am, data['bit_depth'])
        return build_real(writer, masks, graphics, 'any', *args) != build_real(writer, masks, graphics, data['method'], *args)
    return False
