"""C15 — image macros and sna2img render pixel-exact PNGs.

Theorems: lean/SkoolVerif/Props/C15.lean (table-driven CRC = bit-serial CRC-32 for all byte
strings, chunk framing parses back, mask truth tables, flip/rotate laws, pack/unpack round trip and
the pixel theorem of the generic scanline builder for all crops/scales, flash rectangle).
Tie: hand models Model/PngCrc.lean, Model/ZxTile.lean, Model/PngScan.lean + correspondence (this
file) against skoolkit.pngwriter / image / graphics (scanline bytes before zlib, CRCs vs
zlib.crc32, whole files).  E2E: ImageWriter.write_image and sna2img.main output decoded by the
independent decoder harness/indep/pngdec.py and compared pixel by pixel with the Spectrum display
rules of harness/indep/zxrender.py; the same for the image macros expanded by a real HtmlWriter (#COPY,
#PLOT, #OVER, #UDGS, #FRAMES), whose tile-level effect is stated here from skool-macros.rst."""
import io
import os
import re
import traceback
import zlib

from framework import fresh_import
from indep import pngdec, zxrender

PROPS = 'SkoolVerif.Props.C15'
METHODS = ('any', 'bd0', 'bd1_nt', 'bd1_at', 'bd2_nt', 'bd2_at', 'bd4_nt')
KEY_F6 = 'flash-rect-origin-beyond-size'


# ---- generators ---------------------------------------------------------------------------

def rand_byte(rng):
    return rng.choice((0, 255, 1, 128, 0x0F, 0xF0, 0x55, 0xAA, rng.randrange(256), rng.randrange(256)))


def rand_tile_rows(rng):
    kind = rng.randrange(8)
    if kind == 0:
        return [0] * 8
    if kind == 1:
        return [255] * 8
    if kind == 2:
        return [rng.randrange(256)] * 8
    if kind == 3:
        # sparse: ink (or paper) in a single pixel row / a single pixel only, so that a colour or a transparent bit
        # can be contributed by exactly one row or column of the tile
        rows = [rng.choice((0, 0, 255))] * 8
        rows[rng.choice((0, 7, 7, rng.randrange(8)))] ^= rng.choice((255, 1, 128, 1 << rng.randrange(8)))
        return rows
    return [rand_byte(rng) for _ in range(8)]


def rand_attr_pool(rng, flashy=False):
    style = rng.randrange(6)
    if style == 0:      # one attribute (1 or 2 colours)
        pool = [rng.choice((0, 7, 56, 63, 0x47, 0x78, 0x3F, 0x40, rng.randrange(256)))]
    elif style == 1:    # ink == paper somewhere
        c = rng.randrange(8)
        pool = [c * 9 | rng.choice((0, 64, 128, 192)), rng.randrange(256)]
    elif style == 2:    # few colours -> bit depth 2
        pool = [rng.choice((0x07, 0x38, 0x02, 0x10)) | rng.choice((0, 128))]
    else:
        pool = [rng.randrange(256) for _ in range(rng.choice((2, 3, 8)))]
    if flashy:
        pool = [a | 128 if rng.randrange(3) else a for a in pool]
    return pool


def rand_tiles(rng, cols, rows, with_masks, flashy=False):
    pool = rand_attr_pool(rng, flashy)
    tiles = []
    for _ in range(rows):
        row = []
        for _ in range(cols):
            mask = None
            if with_masks and rng.randrange(5):
                mask = rand_tile_rows(rng)
            row.append((rng.choice(pool), rand_tile_rows(rng), mask))
        tiles.append(row)
    return tiles


def rand_crop(rng, scale, cols, rows, far_origin=False):
    fw, fh = 8 * scale * cols, 8 * scale * rows
    kind = rng.randrange(6)
    if kind == 0 and not far_origin:
        return (0, 0, None, None)
    inc = 8 * scale
    def coord(full):
        c = rng.randrange(5)
        if c == 0:
            return 0
        if c == 1:      # on / next to a tile boundary
            return min(full - 1, max(0, inc * rng.randrange(full // inc + 1) + rng.choice((-1, 0, 1))))
        if c == 2:      # on / next to a scaled pixel boundary
            return min(full - 1, max(0, scale * rng.randrange(full // scale) + rng.choice((-1, 0, 1))))
        return rng.randrange(full)
    x, y = coord(fw), coord(fh)
    if far_origin:
        x = rng.randrange(fw // 2, fw)
        y = rng.choice((y, rng.randrange(fh // 2, fh)))
    def size(full, o):
        c = rng.randrange(6)
        if c == 0:
            return None
        if c == 1:
            return rng.randrange(1, full + 4)
        if c == 2:
            return 1
        if c == 3:      # ends on / next to a tile boundary
            e = inc * rng.randrange(o // inc, full // inc + 1) + rng.choice((-1, 0, 1))
            return max(1, min(full, e) - o)
        return rng.randrange(1, full - o + 1)
    return (x, y, size(fw, x), size(fh, y))


def mk_udgs(graphics, tiles):
    return [[graphics.Udg(a, list(d), list(m) if m is not None else None) for a, d, m in row] for row in tiles]


def enc_udg(t):
    a, d, m = t
    if m is None:
        tail = '0'
    elif len(m) == 0:
        tail = '2'
    else:
        tail = '1 ' + ' '.join(map(str, m))
    return f"{a} {' '.join(map(str, d))} {tail}"


def enc_arr(tiles):
    return f'{len(tiles)} ' + ' '.join(f'{len(row)} ' + ' '.join(enc_udg(t) for t in row) if row else '0' for row in tiles)


def udgs_to_tiles(udgs):
    return [[(u.attr, list(u.data), None if u.mask is None else list(u.mask)) for u in row] for row in udgs]


def nums(seq):
    return ' '.join(map(str, seq))


def ok(seq):
    s = 'ok ' + nums(seq)
    return s if s != 'ok ' else 'ok '


def norm(lines):
    return None if lines is None else [l if l != 'ok' else 'ok ' for l in lines]


# ---- correspondence -----------------------------------------------------------------------

class Corr:
    def __init__(self, chk):
        self.chk = chk
        self.ops = []
        self.impl = []
        self.tags = []

    def add(self, tag, op, impl, key=None, sample=None):
        self.ops.append(op)
        self.impl.append(impl)
        self.chk.case(tag, key, sample)


def corr_crc(chk, co, pngwriter):
    rng = chk.rng
    w = pngwriter.PngWriter()
    for i in range(256):
        co.add('crctab', f'crctab {i}', f'ok {w.crc_table[i]}', ('crctab', i))
    msgs = [[], [0], [255], [0] * 9, [255] * 40, list(range(256)), [73, 69, 78, 68],
            [97, 99, 84, 76, 0, 0, 0, 2, 0, 0, 0, 0]]
    for b in (0, 1, 128, 255):
        msgs += [[b], [b, b], [0, b], [b, 0, 0, 0, 0]]
    for _ in range(chk.scale(250, 4000)):
        n = rng.choice((1, 2, 3, 4, 5, 8, 13, 33, 100, 700))
        msgs.append([rand_byte(rng) for _ in range(n)])
    for m in msgs:
        got = list(w._get_crc(m))
        co.add('crc', f'crc {len(m)} {nums(m)}', ok(got), ('crc', tuple(m)) if m else None,
               {'op': 'crc', 'len': len(m), 'impl': got})
        # the property on the real code: the CRC field is the CRC-32 of the bytes (zlib is the oracle)
        want = zlib.crc32(bytes(m)) & 0xFFFFFFFF
        if got != [want >> 24, (want >> 16) & 255, (want >> 8) & 255, want & 255]:
            chk.violation('crc-differs-from-crc32', f'PngWriter._get_crc({m[:20]}...) = {got}, CRC-32 is {want:08x}',
                          {'kind': 'crc', 'data': m})
        if len(m) >= 4:
            f = io.BytesIO()
            w._write_chunk(f, m)
            co.add('chunk', f'chunk {len(m)} {nums(m)}', ok(f.getvalue()), ('chunk', tuple(m)))
    for n in list(range(0, 52)) + [765, 768]:
        bd, ps = w._get_bit_depth([0] * n)
        co.add('bitdepth', f'bitdepth {n}', f'ok {bd} {ps}', ('bitdepth', n))


def corr_tiles(chk, co, image, graphics, pngwriter):
    rng = chk.rng
    masks = {0: image.NoMask(), 1: image.OrAndMask(), 2: image.AndOrMask()}
    # mask.apply: all data bytes for NoMask, a boundary-biased grid of (data, mask) pairs for the others
    grid = sorted(set([0, 1, 2, 3, 127, 128, 129, 254, 255, 0x0F, 0xF0, 0x55, 0xAA] +
                      [rng.randrange(256) for _ in range(chk.scale(20, 256))]))
    pairs = [(0, u, None) for u in range(256)]
    for k in (1, 2):
        pairs += [(k, u, None) for u in grid] + [(k, u, []) for u in grid[:4]]
        pairs += [(k, u, m) for u in grid for m in grid]
    if chk.thorough:
        pairs += [(k, u, m) for k in (1, 2) for u in range(256) for m in range(256)]
    for k, u, m in pairs:
        row = rng.randrange(8)
        data = [rng.randrange(256) for _ in range(8)]
        data[row] = u
        mask = None
        if m == []:
            mask = []
        elif m is not None:
            mask = [rng.randrange(256) for _ in range(8)]
            mask[row] = m
        paper, ink, trans = rng.choice(((0, 1, 2), (3, 5, 0), (1, 1, 0), (7, 7, 7)))
        udg = graphics.Udg(56, data, mask)
        got = masks[k].apply(udg, row, paper, ink, trans)
        co.add(f'mask{k}', f'mask {k} {enc_udg((56, data, mask))} {row} {paper} {ink} {trans}', ok(got),
               ('mask', k, u, None if m is None else tuple(m) if m == [] else m))
    for k in (0, 1, 2):
        for p, i, t in ((0, 1, 2), (5, 5, 0), (3, 2, 1)):
            try:
                r = ok(masks[k].colours((p, i, t), 0, 1, 2))
            except AttributeError:
                r = 'err attributeError'
            co.add('colours', f'colours {k} {p} {i} {t}', r, ('colours', k, p, i, t))
    iw = image.ImageWriter()
    for a in range(256):
        paper, ink = iw.attr_index[a]
        co.add('attridx', f'attridx {a}', f'ok {paper} {ink}', ('attridx', a))
        co.add('swapattr', f'swapattr {a}', f'ok {(a & 192) + (a & 7) * 8 + (a & 56) // 8}', ('swapattr', a))
        co.add('flipbyte', f'flipbyte {a}', f'ok {graphics.FLIP[a]}', ('flipbyte', a))
        co.add('bitpairs', f'bitpairs {a}', ok(pngwriter.BIT_PAIRS[a]), ('bitpairs', a))
    for n in range(16):
        co.add('bits4', f'bits4 {n}', ok(pngwriter.BITS4[n]), ('bits4', n))
    # Udg.flip / Udg.rotate
    for _ in range(chk.scale(300, 5000)):
        data = rand_tile_rows(rng)
        mask = rng.choice((None, None, [], rand_tile_rows(rng), rand_tile_rows(rng)))
        t = (rng.randrange(256), data, mask)
        for name, meth, arg in (('udgflip', 'flip', rng.choice((0, 1, 2, 3, 4, 5, 7))),
                                ('udgrot', 'rotate', rng.choice((0, 1, 2, 3, 4, 5, 6, 7)))):
            u = graphics.Udg(t[0], list(data), None if mask is None else list(mask))
            getattr(u, meth)(arg)
            co.add(name, f'{name} {arg} {enc_udg(t)}', 'ok ' + enc_udg((u.attr, u.data, u.mask)),
                   (name, arg, tuple(data), None if mask is None else tuple(mask)))
    # flip_udgs / rotate_udgs on arrays (incl. ragged ones for rotate)
    for _ in range(chk.scale(150, 2500)):
        rows, cols = rng.randrange(1, 5), rng.randrange(1, 5)
        tiles = rand_tiles(rng, cols, rows, rng.randrange(2))
        if rng.randrange(4) == 0:
            tiles = [row[:rng.randrange(1, cols + 1)] for row in tiles]
        f, r = rng.choice((0, 1, 2, 3, 3, 6)), rng.choice((0, 1, 2, 3, 5, 7))
        udgs = mk_udgs(graphics, tiles)
        graphics.flip_udgs(udgs, f)
        co.add('fliparr', f'fliparr {f} {enc_arr(tiles)}', 'ok ' + enc_arr(udgs_to_tiles(udgs)), ('fliparr', f, repr(tiles)))
        udgs = mk_udgs(graphics, tiles)
        graphics.rotate_udgs(udgs, r)
        co.add('rotarr', f'rotarr {r} {enc_arr(tiles)}', 'ok ' + enc_arr(udgs_to_tiles(udgs)), ('rotarr', r, repr(tiles)))
    for depth in (1, 2, 4):
        for scale in range(1, chk.scale(6, 9)):
            table = pngwriter._get_bytes(depth, scale)
            for v in range(256):
                if chk.thorough or (v * 7 + scale + depth) % 5 == 0 or v in (0, 1, 128, 255, 27, 0xE4):
                    co.add('getbytes', f'getbytes {depth} {scale} {v}', ok(table[v]), ('getbytes', depth, scale, v))
    for bd in (0, 1, 2, 4):
        for fs in (0, 1):
            for m in (0, 1):
                w = pngwriter.PngWriter(masks=masks)
                name = w.png_method_dict[bd][fs][m].__name__.replace('_build_image_data_', '')
                idx = METHODS.index('any' if name == 'bd_any' else name)
                co.add('dispatch', f'dispatch {bd} {fs} {m}', f'ok {idx}', ('dispatch', bd, fs, m))


def build_real(writer, masks, graphics, method, tiles, scale, mask_type, crop, attr_map, bit_depth):
    """Scanline bytes (before zlib) of one real builder."""
    frame = graphics.Frame(mk_udgs(graphics, tiles), scale, mask_type, *crop)
    frame.attr_map = attr_map
    name = '_build_image_data_' + ('bd_any' if method == 'any' else method)
    try:
        data = getattr(writer, name)(frame, masks[mask_type], bit_depth)
    except KeyError:
        return 'err keyError'
    except Exception as e:
        return 'err ' + type(e).__name__[:1].lower() + type(e).__name__[1:]
    return ok(zlib.decompress(bytes(data)))


def build_op(method, tiles, scale, bit_depth, rect, mask_type, attr_map):
    am = ' '.join(f'{a} {p} {i}' for a, (p, i) in sorted(attr_map.items()))
    return (f'build {METHODS.index(method)} {scale} {bit_depth} {rect[0]} {rect[1]} {rect[2]} {rect[3]} {mask_type} '
            f'{len(attr_map)} {am} {enc_arr(tiles)}')


def writer_view(image, graphics, tiles, scale, mask_type, crop, tindex=0, anim=1):
    """What ImageWriter decides for a single frame: (frame, palette, attr_map, has_trans, bit_depth, palette_size)."""
    iw = image.ImageWriter({'PNGEnableAnimation': anim})
    frame = graphics.Frame(mk_udgs(graphics, tiles), scale, mask_type, *crop, tindex=tindex)
    iw._get_colours(frame, bool(anim))
    palette, attr_map, has_trans = iw._get_palette(set(frame.colours), frame.attrs, frame.has_trans, tindex)
    bit_depth, psize = iw.writer._get_bit_depth(palette)
    return iw, frame, palette, attr_map, has_trans, bit_depth, psize


def corr_build(chk, co, image, graphics, pngwriter):
    rng = chk.rng
    masks = {0: image.NoMask(), 1: image.OrAndMask(), 2: image.AndOrMask()}
    writer = pngwriter.PngWriter(masks=masks)
    for n in range(chk.scale(1200, 9000)):
        cols, rows = rng.choice((1, 1, 2, 3, 4)), rng.choice((1, 1, 2, 3))
        mask_type = rng.randrange(3)
        tiles = rand_tiles(rng, cols, rows, mask_type and rng.randrange(4) > 0)
        scale = rng.choice((1, 1, 2, 2, 3, 4, 5, 8))
        crop = rand_crop(rng, scale, cols, rows)
        rect = zxrender.crop_rect(tiles, scale, *crop)
        mode = rng.randrange(3)
        if mode == 0:
            # the attribute map and bit depth ImageWriter itself would choose
            iw, frame, palette, attr_map, has_trans, bit_depth, psize = writer_view(image, graphics, tiles, scale, mask_type, crop)
        else:
            # any map with indices that fit the bit depth (covers every tile, or misses some: KeyError)
            bit_depth = rng.choice((1, 2, 4))
            attrs = sorted(set(t[0] for row in tiles for t in row))
            if mode == 2 and rng.randrange(6) == 0:
                attrs = attrs[:-1]
            top = 1 << bit_depth
            attr_map = {a: (rng.randrange(top), rng.randrange(top)) for a in attrs}
        eff_mask = mask_type if any(t[2] for row in tiles for t in row) else 0
        impl = build_real(writer, masks, graphics, 'any', tiles, scale, eff_mask, crop, attr_map, bit_depth)
        co.add(f'build-any-bd{bit_depth}', build_op('any', tiles, scale, bit_depth, rect, eff_mask, attr_map), impl,
               ('any', n), {'op': 'build any', 'scale': scale, 'crop': crop, 'bit_depth': bit_depth, 'bytes': len(impl) // 2})
        if rect == (0, 0, 8 * scale * cols, 8 * scale * rows):
            # full size: every specialised builder that is applicable to this map
            vals = set(v for pi in attr_map.values() for v in pi)
            cands = []
            if bit_depth == 1 and not eff_mask and vals <= {0, 1}:
                cands.append('bd1_nt')
            if bit_depth == 1 and vals <= {0, 1}:
                cands.append('bd1_at')
            if bit_depth == 2 and not eff_mask:
                cands.append('bd2_nt')
            if bit_depth == 2 and eff_mask:
                cands.append('bd2_at')
            if bit_depth == 4 and not eff_mask:
                cands.append('bd4_nt')
            if bit_depth == 1 and len(vals) == 1:
                cands.append('bd0')
            for meth in cands:
                simpl = build_real(writer, masks, graphics, meth, tiles, scale, eff_mask, crop, attr_map, bit_depth)
                co.add(f'build-{meth}', build_op(meth, tiles, scale, bit_depth, rect, eff_mask, attr_map), simpl, (meth, n))
                # the property on the real code: specialised encoder == generic encoder
                # (bd0 writes zeros: it is only selected when the single colour has index 0)
                if simpl != impl and not (meth == 'bd0' and vals != {0}) and not impl.startswith('err'):
                    chk.violation(f'specialised-differs-{meth}', f'_build_image_data_{meth} differs from _build_image_data_bd_any '
                                  f'on a full-size frame (scale {scale}, bit depth {bit_depth}, mask {eff_mask})',
                                  {'kind': 'special', 'method': meth, 'tiles': tiles, 'scale': scale, 'mask': eff_mask,
                                   'attr_map': sorted(attr_map.items()), 'bit_depth': bit_depth})


def corr_geom_flash(chk, co, image, graphics):
    rng = chk.rng
    for n in range(chk.scale(500, 6000)):
        cols, rows = rng.choice((1, 2, 3, 4, 9)), rng.choice((1, 2, 3, 8))
        if cols * rows > 30:
            rows = 1
        mask_type = rng.randrange(3)
        tiles = rand_tiles(rng, cols, rows, mask_type and rng.randrange(4) > 0, flashy=True)
        scale = rng.choice((1, 2, 2, 3, 4, 8))
        crop = rand_crop(rng, scale, cols, rows, far_origin=rng.randrange(3) == 0)
        frame = graphics.Frame(mk_udgs(graphics, tiles), scale, mask_type, *crop)
        o = lambda v: -1 if v is None else v
        co.add('geom', f'geom {scale} {crop[0]} {crop[1]} {o(crop[2])} {o(crop[3])} {enc_arr(tiles)}',
               f'ok {frame.full_width} {frame.full_height} {frame.width} {frame.height} {int(frame.cropped)}', ('geom', n))
        use_flash = rng.randrange(5) > 0
        iw = image.ImageWriter()
        iw._get_colours(frame, use_flash)
        fr = frame.flash_rect
        co.add('flashrect', f'flashrect {mask_type} {scale} {frame.x} {frame.y} {frame.width} {frame.height} {int(use_flash)} {enc_arr(tiles)}',
               'ok none' if fr is None else ok(fr), ('flashrect', n) if fr else None,
               {'op': 'flashrect', 'scale': scale, 'crop': crop, 'impl': fr})
        if fr:
            g = frame.swap_colours(frame.x + fr[0], frame.y + fr[1], fr[2], fr[3])
            if min(fr) >= 0:
                co.add('swapcol', f'swapcol {scale} {crop[0]} {crop[1]} {o(crop[2])} {o(crop[3])} '
                       f'{frame.x + fr[0]} {frame.y + fr[1]} {fr[2]} {fr[3]} {enc_arr(tiles)}',
                       f'ok {g._x} {g._y} {o(g._width)} {o(g._height)} {enc_arr(udgs_to_tiles(g.udgs))}', ('swapcol', n))


def corr_imgdata(chk, co, image, graphics):
    """PngWriter._build_image_data (dispatch + frame 1 + flash frame) on what ImageWriter feeds it."""
    rng = chk.rng
    o = lambda v: -1 if v is None else v
    for n in range(chk.scale(500, 6000)):
        cols, rows = rng.choice((1, 1, 2, 3, 4)), rng.choice((1, 1, 2, 3))
        mask_type = rng.randrange(3)
        flashy = rng.randrange(2) == 0
        tiles = rand_tiles(rng, cols, rows, rng.randrange(4) > 0 if mask_type else rng.randrange(4) == 0, flashy)
        scale = rng.choice((1, 1, 2, 2, 3, 4, 5))
        crop = rand_crop(rng, scale, cols, rows, far_origin=flashy and rng.randrange(3) == 0)
        iw, frame, palette, attr_map, has_trans, bit_depth, psize = writer_view(image, graphics, tiles, scale, mask_type, crop)
        if rng.randrange(8) == 0 and len(attr_map) > 1:
            attr_map = dict(sorted(attr_map.items())[:-1])      # incomplete map: KeyError
        fr = frame.flash_rect
        if fr is not None and min(fr) < 0:
            continue
        try:
            f1, f2 = iw.writer._build_image_data(frame, psize, bit_depth, attr_map, fr)
            impl = 'ok ' + nums(zlib.decompress(bytes(f1))) + ' | ' + ('none' if f2 is None else nums(zlib.decompress(bytes(f2))))
        except KeyError:
            impl = 'err keyError'
        except Exception as e:          # a crash of the real code is a difference from the model, not a crash of the check
            impl = 'err ' + type(e).__name__[:1].lower() + type(e).__name__[1:]
        am = ' '.join(f'{a} {p} {i}' for a, (p, i) in sorted(attr_map.items()))
        fl = '0' if fr is None else f'1 {fr[0]} {fr[1]} {fr[2]} {fr[3]}'
        op = (f'imgdata {scale} {crop[0]} {crop[1]} {o(crop[2])} {o(crop[3])} {mask_type} {int(bool(frame.has_masks))} {psize} '
              f'{bit_depth} {len(attr_map)} {am} {fl} {enc_arr(tiles)}')
        co.add('imgdata' + ('-flash' if fr else ''), ' '.join(op.split()), ' '.join(impl.split()), ('imgdata', n),
               {'op': 'imgdata', 'scale': scale, 'crop': crop, 'flash_rect': fr, 'bit_depth': bit_depth})
        f2map = dict(attr_map)
        for attr, (paper, ink) in attr_map.items():
            f2map[(attr & 192) + (attr & 7) * 8 + (attr & 56) // 8] = (ink, paper)
        co.add('frame2attrs', f'frame2attrs {len(attr_map)} {am}'.rstrip(),
               ok([v for a in sorted(f2map) for v in (a,) + tuple(f2map[a])]), ('frame2attrs', n))


def capture_write(image, graphics, frames_spec, options):
    """Run ImageWriter.write_image on real frames; returns (file bytes, args PngWriter.write_image got)."""
    iw = image.ImageWriter(options)
    frames = [graphics.Frame(mk_udgs(graphics, s['tiles']), s['scale'], s['mask'], *s['crop'],
                             delay=s.get('delay', 32), tindex=s.get('tindex', 0), alpha=s.get('alpha', -1),
                             x_offset=s.get('x_offset', 0), y_offset=s.get('y_offset', 0)) for s in frames_spec]
    seen = {}
    real = iw.writer.write_image
    def spy(frames_, img_file, palette, attr_map, has_trans, flash_rect):
        seen.update(palette=list(palette), has_trans=has_trans, flash_rect=flash_rect, attr_map=dict(attr_map))
        return real(frames_, img_file, palette, attr_map, has_trans, flash_rect)
    iw.writer.write_image = spy
    f = io.BytesIO()
    iw.write_image(frames, f)
    return f.getvalue(), seen, frames, iw


def corr_file(chk, co, image, graphics, cases):
    """Whole files: the container model is given the same zlib streams the real writer produced."""
    for spec, options, data, seen, frames, iw in cases:
        try:
            chunks = pngdec.split_chunks(data)
        except pngdec.PngError:
            continue
        blobs = [p for t, p in chunks if t == 'IDAT'] + [p[4:] for t, p in chunks if t == 'fdAT']
        if len([t for t, _ in chunks if t == 'IDAT']) != 1:
            continue
        def fi(fr, blob):
            return f'{fr.width} {fr.height} {fr.delay} {fr.x_offset} {fr.y_offset} {len(blob)} {nums(blob)}'
        fl = seen['flash_rect']
        rest = frames[1:]
        if fl and len(frames) == 1:
            flash = f'1 {fl[0]} {fl[1]} {fl[2]} {fl[3]} {len(blobs[1])} {nums(blobs[1])}'
            rest_blobs = []
        else:
            flash = '0'
            rest_blobs = blobs[1:]
        if len(rest_blobs) != len(rest):
            continue
        a1 = frames[0].alpha if frames[0].alpha >= 0 else -1
        op = (f'file {fi(frames[0], blobs[0])} {len(rest)} ' + ' '.join(fi(fr, b) for fr, b in zip(rest, rest_blobs)) +
              f" {len(seen['palette'])} {nums(seen['palette'])} {int(bool(seen['has_trans']))} {a1} {iw.writer.alpha} {flash}")
        co.add('file', ' '.join(op.split()), ok(data), ('file', len(co.ops)))


# ---- end to end -----------------------------------------------------------------------------

def first_diff(got, want):
    for y, (g, w) in enumerate(zip(got, want)):
        for x, (a, b) in enumerate(zip(g, w)):
            if a != b:
                return f'pixel ({x},{y}) is {a}, the display rules give {b}'
    return f'{len(got)} rows decoded, {len(want)} expected'


def expected_single(spec, options):
    tiles, scale, crop, mask_type = spec['tiles'], spec['scale'], spec['crop'], spec['mask']
    rect = zxrender.crop_rect(tiles, scale, *crop)
    s1 = zxrender.render(tiles, scale, rect, mask_type)
    s2 = zxrender.render(tiles, scale, rect, mask_type, swap=True)
    anyt = any(0 in r for r in s1)
    alpha = spec.get('alpha', -1)
    a = options.get('PNGAlpha', 255) & 255 if alpha < 0 else alpha & 255
    tindex = spec.get('tindex', 0)
    return rect, zxrender.to_rgba(s1, tindex, a, anyt), zxrender.to_rgba(s2, tindex, a, anyt), s1 != s2


def single_class(spec):
    rect = zxrender.crop_rect(spec['tiles'], spec['scale'], *spec['crop'])
    cls = f"{'cropped' if rect != (0, 0, 8 * spec['scale'] * len(spec['tiles'][0]), 8 * spec['scale'] * len(spec['tiles'])) else 'full'}"
    return cls + ('-masked' if spec['mask'] and any(t[2] for row in spec['tiles'] for t in row) else '-plain')


def verify_single(data, spec, options, expected=None):
    """[(key, description)] for the bytes of a single-frame image against the display rules."""
    rect, e1, e2, flashes = expected or expected_single(spec, options)
    cls = single_class(spec)
    anim = options.get('PNGEnableAnimation', 1)
    try:
        img = pngdec.decode(data)
    except pngdec.PngError as e:
        return [(f'invalid-png-{e.kind}', f'file is not a valid PNG/APNG: {e}')]
    cls = f"bd{img['bit_depth']}-{cls}"
    fails = []
    if (img['width'], img['height']) != (rect[2], rect[3]):
        return [(f'size-{cls}', f"image is {img['width']}x{img['height']}, crop rectangle is {rect[2]}x{rect[3]}")]
    comps = pngdec.composite(img)
    if comps[0] != e1:
        fails.append((f'pixels-{cls}', 'frame 1: ' + first_diff(comps[0], e1)))
    if anim and flashes:
        if len(comps) != 2:
            fails.append((f'flash-frame-missing-{cls}', f'{len(comps)} frame(s) written for an image with visibly flashing cells'))
        elif comps[1] != e2:
            fails.append((f'flash-frame-{cls}', 'after frame 2: ' + first_diff(comps[1], e2)))
    elif len(comps) > 1:
        if len(comps) > 2 or comps[1] != (e2 if anim else e1):
            fails.append((f'unexpected-frames-{cls}', f'{len(comps)} frames written, animation {"on" if anim else "off"}'))
    return fails


def check_single(image, graphics, spec, options):
    """[(key, description)] for one single-frame image written by ImageWriter.write_image."""
    expected = rect, e1, e2, flashes = expected_single(spec, options)
    cls = single_class(spec)
    anim = options.get('PNGEnableAnimation', 1)
    try:
        data, seen, frames, iw = capture_write(image, graphics, [spec], options)
    except Exception as e:
        if isinstance(e, (ValueError, KeyError)) and anim and flashes and (rect[2] < rect[0] or rect[3] < rect[1]):
            return [(KEY_F6, f'write_image raises {type(e).__name__} for a flashing image cropped at ({rect[0]},{rect[1]}) to {rect[2]}x{rect[3]}')], None
        return [(f'write-image-raises-{type(e).__name__}-{cls}', f'write_image raises {type(e).__name__}: {e}')], None
    fails = verify_single(data, spec, options, expected)
    if fails and fails[0][0].startswith(('invalid-png', 'size-')):
        return fails, None
    return fails, (spec, options, data, seen, frames, iw)


def rand_single(rng, flashy=False, far=False):
    cols, rows = rng.choice((1, 1, 2, 3, 4)), rng.choice((1, 1, 2, 3))
    mask_type = rng.randrange(3)
    # mask data may be present with mask type 0 too (it must then be ignored)
    tiles = rand_tiles(rng, cols, rows, rng.randrange(5) > 0 if mask_type else rng.randrange(3) == 0, flashy)
    scale = rng.choice((1, 1, 2, 2, 3, 4, rng.choice((5, 6, 7)), 8))
    spec = {'tiles': tiles, 'scale': scale, 'crop': rand_crop(rng, scale, cols, rows, far), 'mask': mask_type,
            'tindex': rng.choice((0, 0, 1, 8, rng.randrange(16))), 'alpha': rng.choice((-1, -1, 0, 128, 255, rng.randrange(256)))}
    options = {'PNGAlpha': rng.choice((255, 255, 0, 100)), 'PNGEnableAnimation': int(rng.randrange(4) > 0 or flashy)}
    return spec, options


def e2e_single(chk, image, graphics):
    rng = chk.rng
    files = []
    for n in range(chk.scale(2000, 16000)):
        stream = n % 4
        spec, options = rand_single(rng, flashy=stream >= 2, far=stream == 3)
        fails, art = check_single(image, graphics, spec, options)
        rect = zxrender.crop_rect(spec['tiles'], spec['scale'], *spec['crop'])
        chk.case(('e2e-single', 'e2e-single', 'e2e-flash', 'e2e-flash-far-origin')[stream], ('single', n),
                 {'scale': spec['scale'], 'crop': spec['crop'], 'mask': spec['mask'], 'tiles': f"{len(spec['tiles'][0])}x{len(spec['tiles'])}"})
        for key, desc in fails:
            chk.violation(key, desc + f" [scale {spec['scale']}, crop {spec['crop']}, mask {spec['mask']}]",
                          {'kind': 'single', 'spec': spec, 'options': options})
        if art and n % chk.scale(7, 40) == 0:
            files.append(art)
    return files


def verify_multi(data, specs, options):
    try:
        img = pngdec.decode(data)
    except pngdec.PngError as e:
        return [(f'invalid-png-{e.kind}', f'multi-frame file is not a valid APNG: {e}')]
    if len(img['frames']) != len(specs):
        return [('multi-frame-count', f"{len(img['frames'])} frames decoded, {len(specs)} written")]
    slots = []
    for s in specs:
        rect = zxrender.crop_rect(s['tiles'], s['scale'], *s['crop'])
        slots.append((rect, zxrender.render(s['tiles'], s['scale'], rect, s['mask'])))
    anyt = any(0 in r for _, sl in slots for r in sl)
    alpha = specs[0].get('alpha', -1)
    a = options.get('PNGAlpha', 255) & 255 if alpha < 0 else alpha & 255
    fails = []
    for n, (s, (rect, sl), fr) in enumerate(zip(specs, slots, img['frames'])):
        want = zxrender.to_rgba(sl, specs[0].get('tindex', 0), a, anyt)
        geo = (fr['x'], fr['y'], fr['w'], fr['h'])
        if geo != (s.get('x_offset', 0), s.get('y_offset', 0), rect[2], rect[3]):
            fails.append(('multi-frame-geometry', f'frame {n} placed at {geo}'))
        elif fr['rgba'] != want:
            fails.append((f"multi-pixels-bd{img['bit_depth']}", f'frame {n}: ' + first_diff(fr['rgba'], want)))
    return fails


def check_multi(image, graphics, specs, options):
    """Multi-frame APNG: every frame by the display rules, common palette / transparency."""
    try:
        data, seen, frames, iw = capture_write(image, graphics, specs, options)
    except Exception as e:
        return [(f'write-image-raises-{type(e).__name__}-multi', f'write_image raises {type(e).__name__}: {e}')], None
    fails = verify_multi(data, specs, options)
    if fails and fails[0][0].startswith(('invalid-png', 'multi-frame-count')):
        return fails, None
    return fails, (specs, options, data, seen, frames, iw)


def e2e_multi(chk, image, graphics):
    rng = chk.rng
    files = []
    for n in range(chk.scale(300, 1500)):
        spec0, options = rand_single(rng)
        r0 = zxrender.crop_rect(spec0['tiles'], spec0['scale'], *spec0['crop'])
        specs = [spec0]
        for _ in range(rng.choice((1, 1, 2, 3))):
            for _ in range(20):
                s, _o = rand_single(rng)
                r = zxrender.crop_rect(s['tiles'], s['scale'], *s['crop'])
                if r[2] <= r0[2] and r[3] <= r0[3]:
                    s['x_offset'] = rng.randrange(r0[2] - r[2] + 1)
                    s['y_offset'] = rng.randrange(r0[3] - r[3] + 1)
                    s['delay'] = rng.choice((1, 32, 255, 256, 1000))
                    specs.append(s)
                    break
        if len(specs) < 2:
            continue
        fails, art = check_multi(image, graphics, specs, options)
        chk.case('e2e-multi', ('multi', n), {'frames': len(specs)})
        for key, desc in fails:
            chk.violation(key, desc, {'kind': 'multi', 'specs': specs, 'options': options})
        if art and n % 5 == 0:
            files.append(art)
    return files


WIDE_SHAPES = ((9, 1), (1, 9), (8, 2), (16, 1), (2, 12), (32, 1), (1, 24), (10, 9), (32, 24))


def wide_specs(rng):
    """Directed group: arrays wider / taller than 8 tiles (up to the 32 x 24 of the statement) whose
    distinguishing content -- a flashing cell, a masked cell, a cell of another colour -- sits in the far
    columns / rows; uncropped, cropped to the far corner, and with a flashing band spanning the whole width."""
    for n, (cols, rows) in enumerate(WIDE_SHAPES):
        big = cols * rows > 100
        for variant in range(1 if big else 3):
            mask_type = (n + variant) % 3
            base = rng.choice((0x38, 0x07, 0x46, 0x29))
            other = rng.choice((0x16, 0x61, 0x0D))
            tiles = [[[base, rand_tile_rows(rng), None] for _ in range(cols)] for _ in range(rows)]
            far = [(cols - 1, rows - 1), (min(cols - 1, 7), min(rows - 1, 7)), (rng.randrange(cols), rng.randrange(rows))]
            if variant == 2:                    # a flashing band over the full width / height
                far += [(c, rows - 1) for c in range(cols)] if cols >= rows else [(cols - 1, r) for r in range(rows)]
            for k, (c, r) in enumerate(far):
                t = tiles[r][c]
                t[0] = (other if k % 2 else base) | 128
                if t[0] & 7 == (t[0] >> 3) & 7:
                    t[0] ^= 1
                t[1] = [rng.choice((0x0F, 0xF0, 0x55, 0x3C, rng.randrange(1, 255))) for _ in range(8)]
                if mask_type and k != 1:
                    t[2] = [rng.choice((0xFF, 0x0F, 0x5A, rng.randrange(256))) for _ in range(8)]
            c, r = rng.randrange(cols), rng.randrange(rows)
            tiles[r][c][0] = other
            tiles = [[tuple(t) for t in row] for row in tiles]
            scale = 1 if big else rng.choice((1, 2, 3))
            inc = 8 * scale
            if variant == 1:                    # crop to the far corner, not tile aligned
                x = max(0, inc * (cols - 2) + rng.randrange(inc))
                y = max(0, inc * (rows - 2) + rng.randrange(inc))
                crop = (x, y, rng.choice((None, inc * cols - x - rng.randrange(3))), rng.choice((None, inc * rows - y - rng.randrange(3))))
            elif variant == 2:
                crop = rand_crop(rng, scale, cols, rows)
            else:
                crop = (0, 0, None, None)
            yield {'tiles': tiles, 'scale': scale, 'crop': crop, 'mask': mask_type, 'tindex': 0, 'alpha': -1}


def e2e_wide(chk, image, graphics):
    for n, spec in enumerate(wide_specs(chk.rng)):
        options = {'PNGEnableAnimation': 1}
        fails, _art = check_single(image, graphics, spec, options)
        chk.case('e2e-wide', ('wide', n), {'scale': spec['scale'], 'crop': spec['crop'], 'mask': spec['mask'],
                                            'tiles': f"{len(spec['tiles'][0])}x{len(spec['tiles'])}"})
        for key, desc in fails:
            chk.violation(key, desc + f" [{len(spec['tiles'][0])}x{len(spec['tiles'])} tiles, scale {spec['scale']}, crop {spec['crop']}, mask {spec['mask']}]",
                          {'kind': 'single', 'spec': spec, 'options': options})


def scr_tiles(mem, x, y, w, h):
    """Tiles of the Spectrum display file in `mem` (ZX Spectrum screen layout)."""
    tiles = []
    for r in range(y, min(y + h, 24)):
        row = []
        for c in range(x, min(x + w, 32)):
            data = [mem[16384 + 2048 * (r // 8) + 256 * line + 32 * (r % 8) + c] for line in range(8)]
            row.append((mem[22528 + 32 * r + c], data, None))
        tiles.append(row)
    return tiles


def transform(tiles, flip, rotate):
    mx = zxrender.picture_bits(tiles)
    return zxrender.matrix_to_tiles(zxrender.rotate_matrix(zxrender.flip_matrix(mx, flip), rotate))


def check_sna2img(sna2img, scratch, mem, args, expect, anim):
    """Run sna2img.main on a 64K memory image; expect = (tiles, scale, crop, mask, tindex, alpha)."""
    src = os.path.join(scratch, 'in.bin')
    out = os.path.join(scratch, 'out.png')
    with open(src, 'wb') as f:
        f.write(bytes(mem[16384:]))
    if os.path.exists(out):
        os.remove(out)
    try:
        sna2img.main(['-B', '-O', '16384'] + args + [src, out])
        with open(out, 'rb') as f:
            data = f.read()
    except Exception as e:
        return [(f'sna2img-raises-{type(e).__name__}', f'sna2img {args} raises {type(e).__name__}: {e}')]
    try:
        img = pngdec.decode(data)
    except pngdec.PngError as e:
        return [(f'invalid-png-{e.kind}', f'sna2img {args}: not a valid PNG/APNG: {e}')]
    tiles, scale, crop, mask_type, tindex, alpha = expect
    spec = {'tiles': tiles, 'scale': scale, 'crop': crop, 'mask': mask_type, 'tindex': tindex, 'alpha': alpha}
    rect, e1, e2, flashes = expected_single(spec, {})
    if (img['width'], img['height']) != (rect[2], rect[3]):
        return [('sna2img-size', f"sna2img {args}: image is {img['width']}x{img['height']}, expected {rect[2]}x{rect[3]}")]
    comps = pngdec.composite(img)
    fails = []
    if comps[0] != e1:
        fails.append(('sna2img-pixels', f'sna2img {args}: ' + first_diff(comps[0], e1)))
    if anim and flashes:
        if len(comps) != 2 or comps[1] != e2:
            fails.append(('sna2img-flash-frame', f'sna2img {args}: second frame wrong or missing ({len(comps)} frames)'))
    elif len(comps) > 1 and comps[1] != (e2 if anim else e1):
        fails.append(('sna2img-unexpected-frames', f'sna2img {args}: {len(comps)} frames'))
    return fails


def rand_memory(rng):
    mem = [0] * 65536
    style = rng.randrange(3)
    for a in range(16384, 22528):
        mem[a] = rand_byte(rng) if style else rng.randrange(256)
    pool = rand_attr_pool(rng, flashy=rng.randrange(2))
    for a in range(22528, 23296):
        mem[a] = rng.choice(pool)
    for a in range(23296, 65536):
        mem[a] = rand_byte(rng)
    return mem


def macro_params(rng, names, values, defaults, required=1):
    """Parameter string of an image macro: a random tail of parameters whose value is the documented
    default is omitted, and some of the others are given as keyword arguments (name=value)."""
    n = len(values)
    while n > required and values[n - 1] == defaults[n - 1] and rng.randrange(4):
        n -= 1
    kw_from = rng.randrange(required, n + 1) if rng.randrange(4) == 0 else n
    parts = [str(v) for v in values[:kw_from]]
    kws = [(names[i], values[i]) for i in range(kw_from, n) if values[i] != defaults[i] or rng.randrange(2)]
    rng.shuffle(kws)
    parts += ['{}={}'.format(k, v) for k, v in kws]
    txt = ','.join(parts)
    # a negative value is an arithmetic expression: the parameter string must then be in parentheses
    return '(' + txt + ')' if '-' in txt or rng.randrange(3) == 0 else txt


def expand_range(start, end, hstep, vstep, width):
    """Documented meaning of an address range 'start-end-hstep-vstep' in an array `width` items wide."""
    out, r = [], 0
    while True:
        for c in range(width):
            a = start + c * hstep + r * vstep
            if a > end:
                return out
            out.append(a)
        r += 1


def rand_range(rng, n, width, lo=23296, hi=56000):
    """(text, addresses): an address range specification that denotes exactly n addresses."""
    form = rng.randrange(5) if n > 1 else rng.choice((0, 0, 4))
    a = rng.randrange(lo, hi)
    if form == 0 or n == 1:
        if n == 1:
            return (str(a) if form != 4 else f'{a}-{a}'), [a]
        return f'{a}x{n}', [a] * n
    if form == 1:                       # simple range
        return f'{a}-{a + n - 1}', list(range(a, a + n))
    if form == 2:                       # range with a step
        st = rng.choice((1, 2, 8, 16, 256))
        e = a + (n - 1) * st + rng.randrange(st)
        return f'{a}-{e}-{st}', [a + k * st for k in range(n)]
    if form == 3:                       # horizontal and vertical steps
        h = rng.choice((1, 2, 8, 32))
        v = h * (width - 1) + rng.choice((1, 8, 16, 300))
        addrs = [a + (k % width) * h + (k // width) * v for k in range(n)]
        nxt = a + (n % width) * h + (n // width) * v
        e = addrs[-1] + rng.randrange(nxt - addrs[-1])
        assert expand_range(a, e, h, v, width) == addrs
        return f'{a}-{e}-{h}-{v}', addrs
    # a repeated shorter range
    for m in (3, 2):
        if n % m == 0 and n > m:
            t, ad = rand_range(rng, n // m, width, lo, hi)
            if 'x' not in t:
                return f'{t}x{m}', ad * m
    return f'{a}-{a + 8 * (n - 1)}-8', [a + 8 * k for k in range(n)]


def sna2img_case(rng, mem):
    """(args, expectation, animated) for one invocation."""
    scale = rng.choice((1, 1, 2, 3))
    flip, rotate = rng.choice((0, 0, 1, 2, 3)), rng.choice((0, 0, 1, 2, 3))
    anim = rng.randrange(3) > 0
    extra = [] if anim else ['-n']
    if flip:
        extra += ['-f', str(flip)]
    if rotate:
        extra += ['-r', str(rotate)]
    kind = rng.randrange(6)
    if kind:
        macro, expect = macro_case(rng, mem, kind, scale, flip, rotate)
        return ['-e', macro] + extra, expect, anim
    if kind == 0:
        # plain screenshot region
        x, y = rng.randrange(32), rng.randrange(24)
        w, h = rng.randrange(1, 7), rng.randrange(1, 5)
        if rng.randrange(6) == 0:
            w, h = rng.choice(((12, 2), (32, 1), (9, 9), (3, 24)))      # wider / taller than 8 tiles
        invert = rng.randrange(3) == 0
        tiles = scr_tiles(mem, x, y, w, h)
        if invert:
            tiles = [[((a & 127, [b ^ 255 for b in d], m) if a & 128 else (a, d, m)) for a, d, m in row] for row in tiles]
            extra.append('-i')
        args = ['-o', f'{x},{y}', '-S', f'{w}x{h}', '-s', str(scale)] + extra
        return args, (transform(tiles, flip, rotate), scale, (0, 0, None, None), 0, 0, -1), anim


def macro_case(rng, mem, kind, scale, flip=0, rotate=0, fname='', nocrop=False):
    """(macro text, expectation) for #SCR (kind 1), #UDG (2), #FONT (3), #UDGARRAY (4 simple, 5 with address
    ranges etc.); flip / rotate are applied by the caller to the tile array after the macro's own."""
    crop_txt = lambda crop: '' if crop == (0, 0, None, None) and rng.randrange(2) else '{' + ','.join('' if v is None else str(v) for v in crop) + '}'
    if nocrop:
        rand_crop = lambda *a, **k: (0, 0, None, None)
    else:
        rand_crop = globals()['rand_crop']
    if kind == 1:
        # #SCR macro with crop; omitted parameters take the documented defaults
        x, y = rng.randrange(30), rng.randrange(22)
        w, h = rng.randrange(1, 6), rng.randrange(1, 4)
        tindex, alpha = rng.choice((0, 0, 1, 8, rng.randrange(16))), rng.choice((-1, 0, 77))
        values = [scale, x, y, w, h, 16384, 22528, tindex, alpha]
        defaults = (1, 0, 0, 32, 24, 16384, 22528, 0, -1)
        if rng.randrange(5) == 0:
            values[3:5] = [32, 24]
            values[1:3] = [rng.choice((0, 25)), rng.choice((0, 21))]
            scale = values[0] = 1
        x, y, w, h = values[1:5]
        tiles = scr_tiles(mem, x, y, w, h)
        final = transform(tiles, flip, rotate)
        crop = rand_crop(rng, scale, len(final[0]), len(final), far_origin=rng.randrange(4) == 0)
        names = ('scale', 'x', 'y', 'w', 'h', 'df', 'af', 'tindex', 'alpha')
        macro = f'#SCR{macro_params(rng, names, values, defaults, 0)}{crop_txt(crop)}{fname}'
        # the crop applies to the picture before sna2img's own -f/-r, which act on the tile array
        return macro, (final, scale, crop, 0, tindex, alpha)
    if kind == 2:
        # #UDG with mask, flip, rotate; omitted parameters take the documented defaults
        addr = rng.randrange(23296, 60000)
        attr = rng.choice((56, 56, 7, 0x47, 0xB8, rng.randrange(256)))
        uscale = rng.choice((4, 4, 1, 2, 3))
        step = rng.choice((1, 1, 2, 256))
        inc = rng.choice((0, 0, 1, 200))
        mflip, mrot = rng.choice((0, 0, 1, 2, 3)), rng.choice((0, 0, 1, 2, 3))
        mask_type = rng.choice((1, 1, 0, 2))
        tindex, alpha = rng.choice((0, 0, 2, rng.randrange(16))), rng.choice((-1, -1, 0, 200))
        values = [addr, attr, uscale, step, inc, mflip, mrot, mask_type, tindex, alpha]
        defaults = (None, 56, 4, 1, 0, 0, 0, 1, 0, -1)
        names = ('addr', 'attr', 'scale', 'step', 'inc', 'flip', 'rotate', 'mask', 'tindex', 'alpha')
        data = [(mem[addr + n * step] + inc) % 256 for n in range(8)]
        mask, mtxt = None, ''
        if rng.randrange(3):
            maddr = rng.randrange(23296, 60000)
            mstep = rng.choice((step, step, 1, 3))
            mtxt = f':{maddr}' if mstep == step and rng.randrange(2) else f':{maddr},{mstep}'
            if mask_type:
                mask = [mem[maddr + n * mstep] for n in range(8)]
        eff_mask = mask_type if mask else 0
        t2 = transform(transform([[(attr, data, mask)]], mflip, mrot), flip, rotate)
        crop = rand_crop(rng, uscale, 1, 1)
        macro = f'#UDG{macro_params(rng, names, values, defaults)}{mtxt}{crop_txt(crop)}{fname}'
        return macro, (t2, uscale, crop, eff_mask, tindex, alpha)
    if kind == 3:
        # #FONT: text or a number of characters from code 32
        base = rng.randrange(23296, 60000)
        attr = rng.choice((56, 56, 7, 0x47, rng.randrange(256)))
        fscale = rng.choice((2, 2, 1, 3))
        tindex, alpha = rng.choice((0, 0, 2, rng.randrange(16))), rng.choice((-1, -1, 0, 200))
        if rng.randrange(3) == 0:
            chars = rng.choice((1, 2, 5, 12, 12, rng.choice((95, 96, 97, 200))))     # at most the 96 characters 32..127
            text = ''.join(chr(32 + k) for k in range(min(chars, 96)))
            ttxt = ''
            if chars > 12:
                fscale = 1
        else:
            chars = 0
            text = ''.join(rng.choice('ABCXYZabcxyz0189 ~!') for _ in range(rng.randrange(1, 7)))
            ttxt = f'({text})'
        values = [base, chars, attr, fscale, tindex, alpha]
        defaults = (None, 0, 56, 2, 0, -1)
        names = ('addr', 'chars', 'attr', 'scale', 'tindex', 'alpha')
        tiles = [[(attr, [mem[base + 8 * (ord(c) - 32) + n] for n in range(8)], None) for c in text]]
        final = transform(tiles, flip, rotate)
        crop = rand_crop(rng, fscale, len(final[0]), len(final))
        macro = f'#FONT{macro_params(rng, names, values, defaults)}{ttxt}{crop_txt(crop)}{fname}'
        return macro, (final, fscale, crop, 0, tindex, alpha)
    # #UDGARRAY: address ranges (steps, repetition), per-specification attr/step/inc, mask ranges,
    # attribute addresses, per-macro flip/rotate, crop
    width, height = rng.randrange(1, 5), rng.randrange(1, 4)
    mask_type = rng.randrange(3)
    step = rng.choice((1, 1, 2, 256))
    inc = rng.choice((0, 0, 1, 200))
    attr = rng.choice((56, 7, 0x47, 0xB8, rng.randrange(256)))
    total = width * height
    if height == 1 and rng.randrange(3) == 0:
        total = rng.randrange(1, width + 1)           # a single short row: the array is that wide
    tiles_flat, specs = [], []
    left = total
    while left:
        n = rng.randrange(1, left + 1) if kind == 5 else 1
        atxt, addrs = rand_range(rng, n, width) if kind == 5 else (None, [rng.randrange(23296, 60000)])
        if atxt is None:
            atxt = str(addrs[0])
        s_attr, s_step, s_inc = attr, step, inc
        sp = atxt
        k = rng.randrange(4) if kind == 5 else rng.choice((0, 1))
        if k >= 1:
            s_attr = rng.choice((attr, rng.randrange(256)))
            sp += f',{s_attr}'
        if k >= 2:
            s_step = rng.choice((step, 1, 2, 256))
            sp += f',{s_step}'
        if k >= 3:
            s_inc = rng.choice((inc, 0, 3))
            sp += f',{s_inc}'
        maddrs, mstep = [], s_step
        if (mask_type or rng.randrange(6) == 0) and rng.randrange(4):
            mn = n if rng.randrange(4) else rng.randrange(1, n + 1)      # fewer mask addresses: the rest are unmasked
            mtxt, maddrs = rand_range(rng, mn, width) if kind == 5 else (None, [rng.randrange(23296, 60000)])
            if mtxt is None:
                mtxt = str(maddrs[0])
            sp += ':' + mtxt
            if rng.randrange(2):
                mstep = rng.choice((s_step, 1, 3))
                sp += f',{mstep}'
        for i, u in enumerate(addrs):
            data = [(mem[u + j * s_step] + s_inc) % 256 for j in range(8)]
            mask = None
            if mask_type and i < len(maddrs):
                mask = [mem[maddrs[i] + j * mstep] for j in range(8)]
            tiles_flat.append([s_attr, data, mask])
        specs.append(sp)
        left -= n
    atxt = ''
    if kind == 5 and rng.randrange(3) == 0:
        # attribute addresses: the first len(addresses) tiles (row by row) take their attribute from memory
        na = rng.choice((total, total, rng.randrange(1, total + 1)))
        parts, aaddrs = [], []
        while len(aaddrs) < na:
            n = rng.randrange(1, na - len(aaddrs) + 1)
            t, ad = rand_range(rng, n, width, 22528, 23296 - 16 * width)
            parts.append(t)
            aaddrs += ad
        atxt = '[' + ';'.join(parts) + ']'
        for t, a in zip(tiles_flat, aaddrs):
            t[0] = mem[a]
    w = min(width, total)
    tiles = [[tuple(t) for t in tiles_flat[r * w:(r + 1) * w]] for r in range((total + w - 1) // w)]
    mflip, mrot = rng.choice((0, 0, 1, 2, 3)), rng.choice((0, 0, 1, 2, 3))
    has_masks = any(t[2] for row in tiles for t in row)
    eff_mask = mask_type if has_masks else 0
    t1 = transform(tiles, mflip, mrot)
    t2 = transform(t1, flip, rotate)
    crop = rand_crop(rng, scale, len(t2[0]), len(t2))     # the crop applies to the final picture
    tindex, alpha = rng.choice((0, 0, 2, rng.randrange(16))), rng.choice((-1, -1, 0, 200))
    values = [width, attr, scale, step, inc, mflip, mrot, mask_type, tindex, alpha]
    defaults = (None, 56, 2, 1, 0, 0, 0, 1, 0, -1)
    names = ('width', 'attr', 'scale', 'step', 'inc', 'flip', 'rotate', 'mask', 'tindex', 'alpha')
    if mask_type == 1 and rng.randrange(2):
        pass                                # mask may then be left to its default (1)
    macro = f"#UDGARRAY{macro_params(rng, names, values, defaults)}({';'.join(specs)}){atxt}{crop_txt(crop)}{fname}"
    return macro, (t2, scale, crop, eff_mask, tindex, alpha)


# ---- image macros in HTML mode (HtmlWriter.expand): #COPY, #PLOT, #OVER, #UDGS, #FRAMES ---------

class HtmlEnv:
    """A real HtmlWriter on a tiny skool file whose snapshot is replaced by `mem`."""
    def __init__(self, mods, scratch, mem, tag):
        skoolhtml, skoolparser, refparser = mods
        self.root = os.path.join(scratch, 'html' + tag)
        os.makedirs(self.root, exist_ok=True)
        skool = os.path.join(self.root, 'c15.skool')
        with open(skool, 'w') as f:
            f.write('; Routine\nc32768 RET\n')
        parser = skoolparser.SkoolParser(skool, html=True)
        self.writer = skoolhtml.HtmlWriter(parser, refparser.RefParser(), skoolhtml.FileInfo(self.root, 'out', False, False))
        self.writer.skoolkit['page_id'] = 'c15'          # format_template needs a current page
        for a in range(16384, 65536):
            self.writer.snapshot[a] = mem[a]

    def run(self, text):
        """Expand `text`; returns the bytes of the (single) image it writes."""
        out = self.writer.expand(text, '')
        m = re.findall(r'src="([^"]+)"', out)
        if len(m) != 1:
            raise ValueError(f'{len(m)} <img> elements in the expansion {out[:120]!r}')
        with open(os.path.join(self.root, 'out', m[0]), 'rb') as f:
            return f.read()


def crop_text(crop):
    return '{' + ','.join('' if v is None else str(v) for v in crop) + '}'


def uniform_fg(rng, mem, n):
    """A foreground frame whose tiles all have mask data, or none has (see overlay_expected)."""
    fw, fr = rng.randrange(1, 4), rng.randrange(1, 3)
    mask_type = rng.randrange(3)
    masked = mask_type and rng.randrange(3) > 0
    specs, flat = [], []
    for _ in range(fw * fr):
        a = rng.randrange(23296, 60000)
        data = [mem[a + k] for k in range(8)]
        mask = None
        sp = str(a)
        if masked:
            ma = rng.randrange(23296, 60000)
            mask = [mem[ma + k] for k in range(8)]
            sp += f':{ma}'
        specs.append(sp)
        flat.append((rng.choice((7, 0x46)), data, mask))
    attr = flat[0][0]
    flat = [(attr, d, m) for _a, d, m in flat]
    tiles = [flat[r * fw:(r + 1) * fw] for r in range(fr)]
    macro = f"#UDGARRAY{fw},{attr},1,1,0,0,0,{mask_type}({';'.join(specs)})(*fg{n})"
    return macro, tiles, (mask_type if masked else 0)


OVER_ATTR = {'$f': 'f', '($b&248)|($f&7)': 'bf'}
OVER_BYTE = {'$b^$f': 'xor', '$f': 'f', '($b&$m)|$f': 'mf', '$m': 'm'}


def html_case(rng, mem, n):
    """{'text', 'kind': 'single' | 'multi', 'expect' | 'specs', 'tag'} for one expansion in HTML mode."""
    kind = rng.randrange(6)
    spec_of = lambda e: {'tiles': e[0], 'scale': e[1], 'crop': e[2], 'mask': e[3], 'tindex': e[4], 'alpha': e[5]}
    scale = rng.choice((1, 1, 2, 3))
    if kind == 0:
        k = rng.randrange(1, 6)
        macro, e = macro_case(rng, mem, k, scale, fname=f'(img{n})')
        return {'text': macro, 'kind': 'single', 'expect': spec_of(e), 'tag': 'direct'}
    if kind == 1:
        # #COPY of a part of a frame with new scale / mask / tindex / alpha / crop (omitted: inherited)
        inherit_crop = rng.randrange(3) == 0
        macro, e = macro_case(rng, mem, rng.choice((4, 5)), scale, fname=f'(*base{n})', nocrop=inherit_crop)
        t, bscale, bcrop, bmask, btindex, balpha = e
        W, H = len(t[0]), len(t)
        x, y = rng.randrange(W), rng.randrange(H)
        w = rng.choice((None, rng.randrange(1, W - x + 1), W + 2))
        h = rng.choice((None, rng.randrange(1, H - y + 1), H + 2))
        if inherit_crop and rng.randrange(2):
            x = y = 0
        new = {'scale': rng.choice((None, None, 1, 2, 4)), 'mask': rng.choice((None, None, 0, 1, 2)),
               'tindex': rng.choice((None, None, 0, 3)), 'alpha': rng.choice((None, None, 0, 128))}
        parts = [str(x), str(y)]
        kw = []
        if w is not None and h is not None and rng.randrange(2):
            parts += [str(w), str(h)]
        else:
            kw += [(k2, v) for k2, v in (('width', w), ('height', h)) if v is not None]
        kw += [(k2, v) for k2, v in new.items() if v is not None]
        rng.shuffle(kw)
        ptxt = ','.join(parts + [f'{k2}={v}' for k2, v in kw])
        sub = [row[x:x + (w or W)] for row in t[y:y + (h or H)]]
        nscale = new['scale'] or bscale
        if inherit_crop:
            ncrop, ctxt = bcrop, ''
        else:
            ncrop = rand_crop(rng, nscale, len(sub[0]), len(sub))
            ctxt = crop_text(ncrop)
        e2 = (sub, nscale, ncrop, bmask if new['mask'] is None else new['mask'], btindex if new['tindex'] is None else new['tindex'],
              balpha if new['alpha'] is None else new['alpha'])
        text = f'{macro}#COPY{ptxt}{ctxt}(base{n},copy{n})#FRAMES(copy{n})(img{n})'
        return {'text': text, 'kind': 'single', 'expect': spec_of(e2), 'tag': 'copy'}
    if kind == 2:
        # #PLOT: set / reset / flip pixels of a frame
        macro, e = macro_case(rng, mem, rng.choice((2, 4, 4)), scale, fname=f'(*base{n})')
        t = [[(a, list(d), m) for a, d, m in row] for row in e[0]]
        W, H = 8 * len(t[0]), 8 * len(t)
        plots = ''
        rx, ry, rw, rh = zxrender.crop_rect(t, e[1], *e[2])
        visible = [(x, y) for y in range(H) for x in range(W)
                   if x * e[1] < rx + rw and (x + 1) * e[1] > rx and y * e[1] < ry + rh and (y + 1) * e[1] > ry]
        for k in range(rng.randrange(2, 7)):
            x, y = rng.randrange(W + 3), rng.randrange(H + 3)
            v = rng.choice((None, 0, 1, 2, 5))
            if k < 4 and visible:
                # a visible pixel in the state that tells set / reset / flip apart: set on a set pixel, reset on a
                # clear one, flip on either
                want = {None: 1, 1: 1, 0: 0}.get(v, rng.randrange(2))
                cands = [(px, py) for px, py in visible if (t[py // 8][px // 8][1][py % 8] >> (7 - px % 8)) & 1 == want]
                far = [c for c in cands if c[0] >= 8 and c[1] >= 8] or [c for c in cands if c[1] >= 8]
                if far and rng.randrange(3):
                    cands = far                      # beyond the first tile row / column
                if cands:
                    x, y = rng.choice(cands)
            plots += f'#PLOT{x},{y}' + ('' if v is None else f',{v}') + f'(base{n})'
            if x < W and y < H:
                d = t[y // 8][x // 8][1]
                bit = 1 << (7 - x % 8)
                if v == 0:
                    d[y % 8] &= ~bit & 255
                elif v in (None, 1):
                    d[y % 8] |= bit
                else:
                    d[y % 8] ^= bit
        e2 = (t,) + tuple(e[1:])
        return {'text': f'{macro}{plots}#FRAMES(base{n})(img{n})', 'kind': 'single', 'expect': spec_of(e2), 'tag': 'plot'}
    if kind == 3:
        # #OVER: foreground frame superimposed on a background frame
        macro, e = macro_case(rng, mem, 4, scale, fname=f'(*bg{n})')
        fmacro, fg, fmask = uniform_fg(rng, mem, n)
        bg = e[0]
        x, y = rng.randrange(-len(fg[0]), len(bg[0]) + 1), rng.randrange(-len(fg), len(bg) + 1)
        xo, yo = rng.choice((0, 0, rng.randrange(-9, 10))), rng.choice((0, 0, rng.randrange(-9, 10)))
        ptxt = f'{x},{y}' + (f',{xo},{yo}' if xo or yo or rng.randrange(2) else '')
        rattr = rbyte = None
        extra = ''
        if (xo, yo) == (0, 0) and rng.randrange(2):
            rmode = rng.randrange(1, 4)
            ptxt = f'{x},{y},0,0,{rmode}'
            if rmode & 1:
                a = rng.choice(sorted(OVER_ATTR))
                rattr, extra = RATTRS[OVER_ATTR[a]], f'({a})'
            if rmode & 2:
                b = rng.choice(sorted(OVER_BYTE))
                rbyte, extra = RBYTES[OVER_BYTE[b]], extra + f'({b})'
        want = overlay_expected(bg, fg, 8 * x + xo, 8 * y + yo, fmask, rattr, rbyte)
        e2 = (want,) + tuple(e[1:])
        text = f'{macro}{fmacro}#OVER({ptxt}){extra}(bg{n},fg{n})#FRAMES(bg{n})(img{n})'
        return {'text': text, 'kind': 'single', 'expect': spec_of(e2), 'tag': 'over'}
    if kind == 4:
        # #UDGS: an array built from single-tile frames; the same frame may fill several cells
        nf = rng.choice((1, 2, 2, 3))
        macros, es = '', []
        for i in range(nf):
            m, e = macro_case(rng, mem, 2, scale, fname=f'(*u{n}x{i})', nocrop=True)
            macros += m
            es.append(e)
        w, h = rng.randrange(1, 4), rng.randrange(1, 3)
        idx = lambda x, y: (x + 2 * y) % nf
        last = es[idx(w - 1, h - 1)]
        new = {'scale': rng.choice((None, 1, 2, 3)), 'flip': rng.choice((None, 0, 1, 2, 3)), 'rotate': rng.choice((None, 0, 1, 2, 3)),
               'mask': rng.choice((None, None, 0, 1, 2)), 'tindex': rng.choice((None, None, 0, 2)), 'alpha': rng.choice((None, None, 0, 200))}
        kw = [(k2, v) for k2, v in new.items() if v is not None]
        rng.shuffle(kw)
        ptxt = ','.join([str(w), str(h)] + [f'{k2}={v}' for k2, v in kw])
        tiles = [[es[idx(x, y)][0][0][0] for x in range(w)] for y in range(h)]
        t2 = transform(tiles, new['flip'] or 0, new['rotate'] or 0)
        nscale = new['scale'] if new['scale'] is not None else last[1]
        ncrop = rand_crop(rng, nscale, len(t2[0]), len(t2))
        e2 = (t2, nscale, ncrop, last[3] if new['mask'] is None else new['mask'], last[4] if new['tindex'] is None else new['tindex'],
              last[5] if new['alpha'] is None else new['alpha'])
        text = f'{macros}#UDGS({ptxt}){crop_text(ncrop)}(img{n})(u{n}x#EVAL(($x+2*$y)%{nf}))'
        return {'text': text, 'kind': 'single', 'expect': spec_of(e2), 'tag': 'udgs'}
    # #FRAMES with several frames, delays and offsets
    s1 = rng.choice((2, 3, 4))
    m1, e1 = macro_case(rng, mem, 4, s1, fname=f'(*fa{n})', nocrop=True)
    specs = [spec_of(e1)]
    W, H = 8 * s1 * len(e1[0][0]), 8 * s1 * len(e1[0])
    text, ftxt = m1, f'fa{n}' + rng.choice(('', ',50'))
    for i in range(rng.choice((1, 1, 2))):
        m2, e2 = macro_case(rng, mem, 2, 1, fname=f'(*fb{n}x{i})')
        sp = spec_of(e2)
        r = zxrender.crop_rect(sp['tiles'], sp['scale'], *sp['crop'])
        if r[2] > W or r[3] > H:
            continue
        sp['x_offset'], sp['y_offset'] = rng.randrange(W - r[2] + 1), rng.randrange(H - r[3] + 1)
        sp['delay'] = rng.choice((1, 32, 300))
        text += m2
        ftxt += f";fb{n}x{i},{sp['delay']},{sp['x_offset']},{sp['y_offset']}"
        specs.append(sp)
    if len(specs) == 1:
        return {'text': f'{text}#FRAMES({ftxt})(img{n})', 'kind': 'single', 'expect': specs[0], 'tag': 'frames1'}
    return {'text': f'{text}#FRAMES({ftxt})(img{n})', 'kind': 'multi', 'specs': specs, 'tag': 'frames'}


def check_html(env, case):
    try:
        data = env.run(case['text'])
    except Exception as e:
        return [(f"html-macro-raises-{type(e).__name__}-{case['tag']}", f"expanding {case['text'][:200]} raises {type(e).__name__}: {str(e)[:200]}")]
    if case['kind'] == 'multi':
        fails = verify_multi(data, case['specs'], {})
    else:
        fails = verify_single(data, case['expect'], {})
    return [(f"html-{case['tag']}-{key}", f"{case['text'][:300]}: {desc}") for key, desc in fails]


def e2e_html(chk, mods):
    rng = chk.rng
    env = mem = None
    for n in range(chk.scale(420, 4000)):
        if n % 140 == 0:
            mem = rand_memory(rng)
            env = HtmlEnv(mods, chk.scratch, mem, str(n))
        case = html_case(rng, mem, n)
        e = case.get('expect') or case['specs'][0]
        rect = zxrender.crop_rect(e['tiles'], e['scale'], *e['crop'])
        chk.case('e2e-html-' + case['tag'], ('html', n), {'text': case['text'][:200]})
        for key, desc in check_html(env, case):
            if 'raises-ValueError' in key or 'raises-KeyError' in key:
                if rect[2] < rect[0] or rect[3] < rect[1]:
                    key = KEY_F6
            chk.violation(key, desc, {'kind': 'html', 'case': case, 'mem': bytes(mem[16384:]).hex()})


MACRO_DEFAULTS = {
    # name: (parameter names, documented defaults (None = required), index of the scale parameter)
    'SCR': (('scale', 'x', 'y', 'w', 'h', 'df', 'af', 'tindex', 'alpha'), (1, 0, 0, 32, 24, 16384, 22528, 0, -1)),
    'UDG': (('addr', 'attr', 'scale', 'step', 'inc', 'flip', 'rotate', 'mask', 'tindex', 'alpha'), (None, 56, 4, 1, 0, 0, 0, 1, 0, -1)),
    'FONT': (('addr', 'chars', 'attr', 'scale', 'tindex', 'alpha'), (None, 0, 56, 2, 0, -1)),
    'UDGARRAY': (('width', 'attr', 'scale', 'step', 'inc', 'flip', 'rotate', 'mask', 'tindex', 'alpha'), (None, 56, 2, 1, 0, 0, 0, 1, 0, -1)),
}


def directed_macros(rng, mem):
    """Directed group: every optional parameter of #SCR / #UDG / #FONT / #UDGARRAY omitted on its own (the ones
    before it positional, the ones after it as keyword arguments with non-default values), so that each
    documented default decides the picture; and the #FONT character-count boundary (96 characters, 32..127).
    Yields (macro, expectation)."""
    nd = {'scale': 3, 'x': 2, 'y': 21, 'w': 3, 'h': 2, 'df': 16384 + 2048, 'af': 22528 + 32, 'tindex': 2, 'alpha': 77, 'attr': 0x47,
          'step': 2, 'inc': 3, 'flip': 1, 'rotate': 1, 'mask': 2, 'chars': 3}
    for name, (names, defaults) in MACRO_DEFAULTS.items():
        for j, dflt in enumerate(defaults):
            if dflt is None:
                continue
            vals = {}
            for k, pname in enumerate(names):
                if defaults[k] is None:
                    vals[pname] = rng.randrange(30000, 50000) if pname == 'addr' else 2
                elif k == j:
                    vals[pname] = dflt
                else:
                    vals[pname] = nd[pname]
            if name == 'SCR' and names[j] in ('w', 'h'):
                vals['scale'] = 1
                vals['x' if names[j] == 'w' else 'y'] = 0        # the default 32 / 24 reaches the edge of the screen
            if name == 'FONT' and names[j] != 'chars':
                vals['chars'] = 3
            if names[j] == 'mask':
                vals['mask'] = dflt                               # default 1
            pos = [str(vals[p]) for p in names[:j]]
            kws = ['{}={}'.format(p, vals[p]) for p in names[j + 1:]]
            ptxt = '(' + ','.join(pos + kws) + ')'
            sc = vals['scale']
            if name == 'SCR':
                x, y, w, h = vals['x'], vals['y'], vals['w'], vals['h']
                tiles = []
                for r in range(y, min(y + h, 24)):
                    row = []
                    for c in range(x, min(x + w, 32)):
                        a = vals['df'] + 2048 * (r // 8) + 32 * (r % 8) + c
                        row.append((mem[vals['af'] + 32 * r + c], [mem[a + 256 * n] for n in range(8)], None))
                    tiles.append(row)
                yield f'#SCR{ptxt}', (tiles, sc, (0, 0, None, None), 0, vals['tindex'], vals['alpha'])
            elif name == 'UDG':
                maddr = rng.randrange(30000, 50000)
                data = [(mem[vals['addr'] + n * vals['step']] + vals['inc']) % 256 for n in range(8)]
                mask = [mem[maddr + n * vals['step']] for n in range(8)] if vals['mask'] else None
                t = transform([[(vals['attr'], data, mask)]], vals['flip'], vals['rotate'])
                yield f'#UDG{ptxt}:{maddr}', (t, sc, (0, 0, None, None), vals['mask'], vals['tindex'], vals['alpha'])
            elif name == 'FONT':
                n = min(vals['chars'], 96)
                if names[j] == 'chars':
                    text, ttxt = 'Az', '(Az)'
                else:
                    text, ttxt = ''.join(chr(32 + k) for k in range(n)), ''
                tiles = [[(vals['attr'], [mem[vals['addr'] + 8 * (ord(c) - 32) + k] for k in range(8)], None) for c in text]]
                yield f'#FONT{ptxt}{ttxt}', (tiles, sc, (0, 0, None, None), 0, vals['tindex'], vals['alpha'])
            else:
                a1, a2, m1 = (rng.randrange(30000, 50000) for _ in range(3))
                tl = []
                for a, m in ((a1, m1), (a2, None)):
                    data = [(mem[a + n * vals['step']] + vals['inc']) % 256 for n in range(8)]
                    mask = [mem[m + n * vals['step']] for n in range(8)] if m is not None and vals['mask'] else None
                    tl.append((vals['attr'], data, mask))
                t = transform([tl], vals['flip'], vals['rotate'])
                yield f'#UDGARRAY{ptxt}({a1}:{m1};{a2})', (t, sc, (0, 0, None, None), vals['mask'], vals['tindex'], vals['alpha'])
    base = rng.randrange(30000, 50000)
    for chars in (95, 96, 97, 200):
        n = min(chars, 96)
        tiles = [[(56, [mem[base + 8 * k + j] for j in range(8)], None) for k in range(n)]]
        yield f'#FONT{base},{chars},56,1', (tiles, 1, (0, 0, None, None), 0, 0, -1)
    yield '#SCR', (scr_tiles(mem, 0, 0, 32, 24), 1, (0, 0, None, None), 0, 0, -1)


def e2e_sna2img(chk, sna2img):
    rng = chk.rng
    mem = rand_memory(rng)
    for n, (macro, expect) in enumerate(directed_macros(rng, mem)):
        args = ['-e', macro]
        fails = check_sna2img(sna2img, chk.scratch, mem, args, expect, True)
        chk.case('e2e-sna2img-directed', ('sna2img-directed', n), {'args': args})
        for key, desc in fails:
            chk.violation(key, desc, {'kind': 'sna2img', 'args': args, 'mem': bytes(mem[16384:]).hex(), 'expect': list(expect), 'anim': True})
    mem = None
    for n in range(chk.scale(450, 4000)):
        if n % 25 == 0:
            mem = rand_memory(rng)
        args, expect, anim = sna2img_case(rng, mem)
        seed = [chk.seed, n]
        fails = check_sna2img(sna2img, chk.scratch, mem, args, expect, anim)
        chk.case('e2e-sna2img-' + (re.match('#([A-Z]+)', args[1]).group(1).lower() if args[0] == '-e' else 'screen'), ('sna2img', n), {'args': args})
        for key, desc in fails:
            tiles, scale, crop, mask_type, tindex, alpha = expect
            rect = zxrender.crop_rect(tiles, scale, *crop)
            if key in ('sna2img-raises-ValueError', 'sna2img-raises-KeyError') and anim and (rect[2] < rect[0] or rect[3] < rect[1]):
                key = KEY_F6
            chk.violation(key, desc, {'kind': 'sna2img', 'args': args, 'mem': bytes(mem[16384:]).hex(), 'expect': list(expect), 'anim': anim})


def geometry_udgs(graphics, tiles, shared):
    """Udg array for `tiles`; the positions listed in `shared` hold the *same* Udg object as the position
    they name (as #UDGS builds arrays from named frames): flip_udgs / rotate_udgs must transform it once."""
    udgs = mk_udgs(graphics, tiles)
    for (r, c), (r0, c0) in shared:
        udgs[r][c] = udgs[r0][c0]
    return udgs


def e2e_geometry(chk, graphics):
    """flip_udgs / rotate_udgs / Udg.flip / Udg.rotate against the documented geometry."""
    rng = chk.rng
    for n in range(chk.scale(300, 4000)):
        rows, cols = rng.randrange(1, 4), rng.randrange(1, 4)
        tiles = rand_tiles(rng, cols, rows, rng.randrange(2))
        shared = []
        if n % 3 == 0 and rows * cols > 1:
            for _ in range(rng.randrange(1, rows * cols)):
                (r, c), (r0, c0) = (rng.randrange(rows), rng.randrange(cols)), (rng.randrange(rows), rng.randrange(cols))
                if (r, c) != (r0, c0) and all((r0, c0) != a and (r, c) != b and (r, c) != a for a, b in shared):
                    tiles[r][c] = tiles[r0][c0]
                    shared.append(((r, c), (r0, c0)))
        flip, rotate = rng.randrange(4), rng.randrange(4)
        udgs = geometry_udgs(graphics, tiles, shared)
        try:
            graphics.flip_udgs(udgs, flip)
            graphics.rotate_udgs(udgs, rotate)
            got = udgs_to_tiles(udgs)
        except Exception as e:
            got = type(e).__name__
        want = transform(tiles, flip, rotate)
        chk.case('e2e-geometry' + ('-shared' if shared else ''), ('geometry', n))
        if got != want:
            chk.violation(f'flip-rotate-geometry-f{flip}-r{rotate}', f'flip_udgs({flip}) then rotate_udgs({rotate}) does not move pixels as documented'
                          + (' (array with a Udg object used in several positions)' if shared else ''),
                          {'kind': 'geometry', 'tiles': tiles, 'flip': flip, 'rotate': rotate, 'shared': shared})


# ---- #OVER / overlay_udgs -------------------------------------------------------------------

def overlay_expected(bg, fg, x, y, mask_type, rattr=None, rbyte=None):
    """Documented semantics (skool-macros.rst #OVER, graphics.overlay_udgs): the foreground is placed with its
    top-left pixel at (x, y) of the background; where it has no mask (or mask type 0) its bits are ORed in,
    with an OR-AND mask the result is (b | f) & m, with an AND-OR mask (b & m) | f; background outside the
    foreground is unchanged.  rattr / rbyte (tile-aligned only) replace the attribute / graphic bytes of every
    background tile under a foreground tile."""
    B = zxrender.picture_bits(bg)
    F = zxrender.picture_bits(fg)
    H, W = len(B), len(B[0])
    bits = [[b[1] for b in row] for row in B]
    if rbyte is None:
        for fy, row in enumerate(F):
            for fx, (_a, u, m) in enumerate(row):
                X, Y = x + fx, y + fy
                if 0 <= X < W and 0 <= Y < H:
                    b = bits[Y][X]
                    if m is None or mask_type == 0:
                        bits[Y][X] = b | u
                    elif mask_type == 1:
                        bits[Y][X] = (b | u) & m
                    else:
                        bits[Y][X] = (b & m) | u
    out = []
    for r, row in enumerate(bg):
        orow = []
        for c, (attr, data, mask) in enumerate(row):
            data = [sum(bits[8 * r + k][8 * c + j] << (7 - j) for j in range(8)) for k in range(8)]
            fr, fc = r - y // 8, c - x // 8
            if (rattr or rbyte) and 0 <= fr < len(fg) and 0 <= fc < len(fg[0]):
                fa, fd, fm = fg[fr][fc]
                if rbyte:
                    data = [rbyte(bg[r][c][1][k], fd[k], fm[k] if fm else 0) for k in range(8)]
                if rattr:
                    attr = rattr(attr, fa)
            orow.append((attr, data, mask))
        out.append(orow)
    return out


RATTRS = {'f': lambda b, f: f, 'bf': lambda b, f: (b & 0xF8) | (f & 7), 'c': lambda b, f: 0x47}
RBYTES = {'xor': lambda b, f, m: b ^ f, 'mf': lambda b, f, m: (b & m) | f, 'f': lambda b, f, m: f, 'm': lambda b, f, m: m}


def check_overlay(graphics, d):
    bg, fg = d['bg'], d['fg']
    bg_udgs, fg_udgs = mk_udgs(graphics, bg), mk_udgs(graphics, fg)
    rattr, rbyte = RATTRS.get(d.get('rattr')), RBYTES.get(d.get('rbyte'))
    try:
        if d.get('via_frame'):
            graphics.Frame(bg_udgs).overlay(graphics.Frame(fg_udgs, mask=d['mask']), d['x'], d['y'], rattr, rbyte)
        else:
            graphics.overlay_udgs(bg_udgs, fg_udgs, d['x'], d['y'], d['mask'], rattr, rbyte)
    except Exception as e:
        return f'raises {type(e).__name__}: {e}'
    got = udgs_to_tiles(bg_udgs)
    want = overlay_expected(bg, fg, d['x'], d['y'], d['mask'], rattr, rbyte)
    if got != want:
        for r, (grow, wrow) in enumerate(zip(got, want)):
            for c, (g, w) in enumerate(zip(grow, wrow)):
                if g != w:
                    return f'background tile ({c},{r}) becomes {g}, documented result {w}'
        return 'array shapes differ'
    if udgs_to_tiles(fg_udgs) != fg:
        return 'the foreground array was modified'
    return None


def e2e_overlay(chk, graphics):
    """#OVER: a foreground array (uniformly masked or unmasked) superimposed at any pixel offset, also partly
    or wholly outside the background; attribute / byte replacement functions at tile-aligned offsets."""
    rng = chk.rng
    # directed: the mask byte handed to a byte-replacement function is the foreground mask byte, or 0 for every
    # row of a foreground tile without mask data
    for masked in (False, True):
        mk = [rand_byte(rng) | 1 for _ in range(8)]
        d = {'bg': [[(56, [255] * 8, None)]], 'fg': [[(7, [0x81] * 8, mk if masked else None)]], 'mask': 1, 'x': 0, 'y': 0, 'rbyte': 'm'}
        chk.case('e2e-overlay-directed', ('overlay-m', masked))
        msg = check_overlay(graphics, d)
        if msg:
            chk.violation('overlay-replace-aligned', f'overlay_udgs with a byte replacement function that returns the mask byte: {msg}', dict(d, kind='overlay'))
    for n in range(chk.scale(400, 4000)):
        brows, bcols = rng.randrange(1, 4), rng.randrange(1, 5)
        frows, fcols = rng.randrange(1, 3), rng.randrange(1, 4)
        bg = rand_tiles(rng, bcols, brows, rng.randrange(3) == 0)
        masked = rng.randrange(3) > 0
        fg = [[(rng.randrange(256), rand_tile_rows(rng), rand_tile_rows(rng) if masked else None) for _ in range(fcols)] for _ in range(frows)]
        # an all-zero mask row list is "no mask" for skoolkit only if the list is empty; keep 8 bytes
        mask_type = rng.randrange(3)
        d = {'bg': bg, 'fg': fg, 'mask': mask_type, 'via_frame': n % 2 == 0,
             'x': rng.choice((0, 8, rng.randrange(-8 * fcols - 2, 8 * bcols + 2), rng.randrange(-9, 8 * bcols))),
             'y': rng.choice((0, 8, rng.randrange(-8 * frows - 2, 8 * brows + 2), rng.randrange(-9, 8 * brows)))}
        if n % 4 == 3:
            d['x'], d['y'] = 8 * rng.randrange(-fcols, bcols + 1), 8 * rng.randrange(-frows, brows + 1)
            if rng.randrange(2):
                d['rattr'] = rng.choice(sorted(RATTRS))
            if rng.randrange(2):
                d['rbyte'] = rng.choice(sorted(RBYTES))
        aligned = d['x'] % 8 == 0 and d['y'] % 8 == 0
        chk.case('e2e-overlay-' + ('aligned' if aligned else 'shifted') + ('-masked' if masked and mask_type else ''), ('overlay', n))
        msg = check_overlay(graphics, d)
        if msg:
            kind = 'replace' if d.get('rattr') or d.get('rbyte') else f"mask{mask_type if masked else 0}"
            chk.violation(f"overlay-{kind}-{'aligned' if aligned else 'shifted'}",
                          f"overlay_udgs at ({d['x']},{d['y']}), mask type {mask_type}: {msg}", dict(d, kind='overlay'))


# ---- entry points -------------------------------------------------------------------------

def run(chk):
    chk.rule = ('tile arrays 1..4 x 1..3 with boundary-biased bytes (0/255/1/128/0F/F0/55/AA/random), attribute pools that force '
                'bit depths 1/2/4 and ink==paper, masks present/absent/partial, scale in {1,2,3,4,5,8}, crops on/next to tile and '
                'scaled-pixel boundaries, width/height 1, None, oversize; flashing streams incl. crop origin > crop size; '
                'multi-frame APNGs with offsets; mask data present with mask type 0; a directed group of arrays wider / taller than 8 '
                'tiles (9x1 ... 32x24) with the flashing / masked / odd-coloured cells in the far columns and rows; sna2img on random '
                'memory (screen region incl. 32x1 / 3x24, #SCR, #UDG, #FONT, #UDGARRAY with address ranges a-b-step-vstep and xN, per-UDG '
                'attr/step/inc, mask ranges and steps, attribute addresses, omitted (default) and keyword parameters (a directed sweep omits every optional parameter of the four macros on its own; #FONT with 95/96/97/200 characters), flip, rotate, '
                'invert, crop); the image macros in HTML mode on a real HtmlWriter (#COPY, #PLOT, #OVER, #UDGS with a frame used in '
                'several cells, #FRAMES with delays and offsets); overlay_udgs at every pixel offset incl. outside the background; '
                'flip_udgs / rotate_udgs on arrays that hold one Udg object in several cells. '
                'non-trivial = every generated picture (distinct by generator index); correspondence ops are distinct by content')
    chk.trusted += ['hand models lean/SkoolVerif/Model/{PngCrc,ZxTile,PngScan}.lean tied by correspondence (harness/props/c15.py)',
                    'zlib (deflate streams; zlib.crc32 is the CRC oracle of the independent decoder), CPython',
                    'independent decoder harness/indep/pngdec.py and display-rule renderer harness/indep/zxrender.py']
    chk.assumptions += [
        'zlib.decompress(zlib.compress(x)) == x and zlib emits valid streams: the theorems speak about the bytes handed to zlib '
        '(scanlines) and about the container around opaque zlib streams',
        'palette construction is not modelled: ImageWriter._get_colours colour sets (incl. the early-break optimisation), '
        '_get_palette ordering (Python set order) and the attr_map it builds are checked end to end by decoding (every pixel must '
        'come out in the right RGBA), not by theorem; the pixel theorems take the attribute map as a parameter and need it to cover '
        'the visited tiles with indices that fit the bit depth (FlashAttrOk for frame 2: mirror-image entries for swapped attributes)',
        'flash rectangle: proved inside the frame, non-empty and covering every flashing visited tile on the model of the rectangle '
        'arithmetic of _get_colours (has_non_trans modelled without the early break, which cannot change it)',
        'flip/rotate: pixel maps, involution and composition are proved per tile (Udg.flip/rotate); flip_udgs / rotate_udgs pixel maps are proved '
        'for rectangular arrays (ragged arrays, which rotate_udgs tolerates, are tied by correspondence only)',
        'tindex / alpha / tRNS semantics, multi-frame APNG assembly beyond chunk order + sequence numbers, and skoolmacro parameter '
        'parsing are outside the theorems (e2e: ImageWriter.write_image, sna2img.main with #SCR/#UDG/#FONT/#UDGARRAY, and '
        'HtmlWriter.expand with #COPY/#PLOT/#OVER/#UDGS/#FRAMES against oracles written from skool-macros.rst)',
        'overlay_udgs / #OVER has no Lean model: it is checked end to end only, for foreground arrays whose tiles all have mask '
        'data or none has (for mixed arrays the documentation does not fix the result at pixel offsets that are not multiples of 8), '
        'and attribute / byte replacement only at tile-aligned offsets',
        'byte-domain: tile data/mask bytes and attributes are 0..255 and tiles have 8 rows (WfUdg); Frame arithmetic assumes the crop '
        'origin lies inside the picture (skoolkit does not validate crop specifications)']
    pngwriter, image, graphics, sna2img, *htmlmods = fresh_import('skoolkit.pngwriter', 'skoolkit.image', 'skoolkit.graphics', 'skoolkit.sna2img',
                                                                 'skoolkit.skoolhtml', 'skoolkit.skoolparser', 'skoolkit.refparser')
    built = chk.lake_build([PROPS, 'SkoolVerif.Prelude.Proto'])
    chk.audit(PROPS)
    if chk.thorough and built:
        chk.leanchecker([PROPS])
    co = Corr(chk)

    def guarded(f, *args):
        # an exception escaping from the real code inside a correspondence generator is a difference from the
        # model (a break), not a failure of the check; the e2e streams below look for the concrete input
        try:
            f(chk, co, *args)
        except Exception as e:
            chk.breaks.append({'kind': 'correspondence', 'name': f'{f.__name__}: the real code raised {type(e).__name__}',
                               'detail': traceback.format_exc()[-1500:]})

    guarded(corr_crc, pngwriter)
    guarded(corr_tiles, image, graphics, pngwriter)
    guarded(corr_build, image, graphics, pngwriter)
    guarded(corr_geom_flash, image, graphics)
    guarded(corr_imgdata, image, graphics)
    files = e2e_single(chk, image, graphics)
    files += e2e_multi(chk, image, graphics)
    e2e_wide(chk, image, graphics)
    corr_file(chk, co, image, graphics, files)
    model = chk.run_driver('C15', co.ops)
    chk.compare('PngCrc/ZxTile/PngScan models vs skoolkit.pngwriter/image/graphics', co.ops, norm(co.impl), norm(model))
    e2e_geometry(chk, graphics)
    e2e_overlay(chk, graphics)
    e2e_sna2img(chk, sna2img)
    e2e_html(chk, htmlmods)


def replay(chk, data):
    pngwriter, image, graphics, sna2img, *htmlmods = fresh_import('skoolkit.pngwriter', 'skoolkit.image', 'skoolkit.graphics', 'skoolkit.sna2img',
                                                                 'skoolkit.skoolhtml', 'skoolkit.skoolparser', 'skoolkit.refparser')
    kind = data['kind']
    def tl(tiles):
        return [[(a, list(d), None if m is None else list(m)) for a, d, m in row] for row in tiles]
    if kind == 'crc':
        w = pngwriter.PngWriter()
        want = zlib.crc32(bytes(data['data'])) & 0xFFFFFFFF
        return list(w._get_crc(data['data'])) != [want >> 24, (want >> 16) & 255, (want >> 8) & 255, want & 255]
    if kind == 'single':
        spec = dict(data['spec'])
        spec['tiles'] = tl(spec['tiles'])
        spec['crop'] = tuple(spec['crop'])
        fails, _ = check_single(image, graphics, spec, data['options'])
        for key, desc in fails:
            print(f'  {key}: {desc}')
        return bool(fails)
    if kind == 'multi':
        specs = []
        for s in data['specs']:
            s = dict(s)
            s['tiles'] = tl(s['tiles'])
            s['crop'] = tuple(s['crop'])
            specs.append(s)
        fails, _ = check_multi(image, graphics, specs, data['options'])
        for key, desc in fails:
            print(f'  {key}: {desc}')
        return bool(fails)
    if kind == 'sna2img':
        mem = [0] * 16384 + list(bytes.fromhex(data['mem']))
        tiles, scale, crop, mask_type, tindex, alpha = data['expect']
        fails = check_sna2img(sna2img, chk.scratch, mem, data['args'], (tl(tiles), scale, tuple(crop), mask_type, tindex, alpha), data['anim'])
        for key, desc in fails:
            print(f'  {key}: {desc}')
        return bool(fails)
    if kind == 'html':
        case = dict(data['case'])
        def sp(e):
            e = dict(e)
            e['tiles'] = tl(e['tiles'])
            e['crop'] = tuple(e['crop'])
            return e
        if 'expect' in case:
            case['expect'] = sp(case['expect'])
        if 'specs' in case:
            case['specs'] = [sp(e) for e in case['specs']]
        mem = [0] * 16384 + list(bytes.fromhex(data['mem']))
        fails = check_html(HtmlEnv(htmlmods, chk.scratch, mem, 'replay'), case)
        for key, desc in fails:
            print(f'  {key}: {desc}')
        return bool(fails)
    if kind == 'overlay':
        d = dict(data, bg=tl(data['bg']), fg=tl(data['fg']))
        msg = check_overlay(graphics, d)
        if msg:
            print('  ' + msg)
        return bool(msg)
    if kind == 'geometry':
        tiles = tl(data['tiles'])
        udgs = geometry_udgs(graphics, tiles, [(tuple(a), tuple(b)) for a, b in data.get('shared', ())])
        try:
            graphics.flip_udgs(udgs, data['flip'])
            graphics.rotate_udgs(udgs, data['rotate'])
        except Exception:
            return True
        return udgs_to_tiles(udgs) != transform(tiles, data['flip'], data['rotate'])
    if kind == 'special':
        masks = {0: image.NoMask(), 1: image.OrAndMask(), 2: image.AndOrMask()}
        writer = pngwriter.PngWriter(masks=masks)
        tiles = tl(data['tiles'])
        am = {a: tuple(pi) for a, pi in data['attr_map']}
        args = (tiles, data['scale'], data['mask'], (0, 0, None, None), am, data['bit_depth'])
        return build_real(writer, masks, graphics, 'any', *args) != build_real(writer, masks, graphics, data['method'], *args)
    return False
