"""C02 — assembler and disassembler are mutual inverses.

Theorems: lean/SkoolVerif/Props/C02.lean.  Operand text layer: `_num_str` output of every value /
base / case / hex default is read back by `_parse_expr` (also after `convert_case`); quote-aware
splitting meets a character-level spec and inverts comma-joining; `get_message` / DEFB / DEFM / DEFW /
DEFS statements assemble back to the bytes for every byte list; `split_operation` tokenises rendered
instructions.  Arithmetic layer: relative-jump range incl. 64K wrap (stated outright), jr_arg /
_address_offset inverse, index offsets for all 256 displacements, converse corollaries, assembled
operand values are bytes.
Tie: hand models Model/OpText.lean (disassembler side) + Model/AsmEval.lean (assembler side),
correspondence below against skoolkit.disassembler / skoolkit.z80 / skoolkit.textutils /
skoolkit.get_int_param.
Instruction level: the opcode tables of real Disassembler objects are dumped on every run
(translate/gen_c02.py -> Gen/C02Tables.lean); `instruction_roundtrip` (every slot of the seven tables x
every additional-opcode set x every operand byte / displacement / jump offset x every address incl. the
64K boundary x every base pair x case x number format): a kernel-evaluated check of every slot
(Proofs/AsmInstrChk) + one soundness lemma per encoder rule of the assembler model
(Model/AsmInstr.lean = Assembler._assemble and all encoders; Model/DisText.lean = one
Disassembler.disassemble step down to the text).  Both models are tied here: every text the forward
enumeration renders is also assembled by the model, a malformed / variant instruction stream goes through
model and real `_assemble` (same bytes or same kind of rejection), and the model's rendering is compared
with the real `disassemble`.
E2E: the property itself on the real Disassembler/Assembler: every opcode slot (all prefixes) x
operand bytes x addresses (incl. the 64K boundary) x bases x case x hex x opcode sets; every
DEFB/DEFM/DEFW/DEFS rendering; and the converse on grammar-generated instruction texts."""
import io
import itertools
import os
import re
import sys
import warnings

from framework import VERIF, REPO, LeanLock, fresh_import

sys.path.insert(0, os.path.join(VERIF, 'translate'))

PROPS = 'SkoolVerif.Props.C02'
BASES = ('n', 'b', 'c', 'd', 'h', 'm')
BASES2 = BASES + tuple(a + b for a in BASES for b in BASES)
EDGE_BYTES = (0, 1, 2, 9, 10, 31, 32, 34, 44, 65, 92, 94, 96, 97, 126, 127, 128, 129, 160, 162, 172, 193,
              220, 222, 224, 254, 255)
EDGE_ADDRS = (0, 1, 2, 125, 126, 127, 128, 129, 130, 254, 255, 256, 16383, 16384, 32767, 32768,
              65405, 65406, 65407, 65408, 65409, 65410, 65411, 65533, 65534, 65535)
OPCODE_SETS = ('', 'ALL', 'ED63', 'ED6B', 'ED70', 'ED71', 'IM', 'NEG', 'RETN', 'XYCB')
OPTIONS = ('ED63', 'ED6B', 'ED70', 'ED71', 'IM', 'NEG', 'RETN', 'XYCB')     # bit n of the model's `opts`
SPACES = (9, 10, 11, 12, 13, 28, 29, 30, 31, 32, 133, 160)


class Ins:
    def __init__(self, address, operation, data):
        self.address = address
        self.operation = operation
        self.bytes = data


class Cfg:
    def __init__(self, asm_hex=False, asm_lower=False, opcodes='', wrap=False, defb_size=8, defm_size=66,
                 defw_size=1):
        self.asm_hex = asm_hex
        self.asm_lower = asm_lower
        self.defb_size = defb_size
        self.defm_size = defm_size
        self.defw_size = defw_size
        self.handle_rst = False
        self.opcodes = opcodes
        self.wrap = wrap
        self.imaker = Ins


def cps(text):
    return ' '.join(str(ord(c)) for c in text)


def ok_txt(text):
    return ('ok ' + cps(text)).strip()


def ok_list(vals):
    return ('ok ' + ' '.join(map(str, vals))).strip()


def ok_pieces(pieces):
    return ('ok ' + ' | '.join(cps(p) for p in pieces)).strip()


# --------------------------------------------------------------------------------------------
# text generators (assembler side)
# --------------------------------------------------------------------------------------------

def spell(rng, v, fancy=True):
    """A spelling of the non-negative integer v in the assembler's operand grammar."""
    k = rng.randrange(12 if fancy else 5)
    if k == 0:
        return str(v)
    if k == 1:
        return '$' + rng.choice(('{:X}', '{:x}', '{:04X}', '{:02x}')).format(v)
    if k == 2:
        return '%' + rng.choice(('{:b}', '{:08b}', '{:016b}')).format(v)
    if k == 3:
        return '0' * rng.randrange(1, 3) + str(v)
    if k == 4 and 32 <= v < 127:
        c = chr(v)
        if c in '"\\' or rng.random() < 0.1:
            return '"\\' + c + '"'
        return '"' + c + '"'
    if k == 5:
        a = rng.randrange(0, v + 1)
        return '{}+{}'.format(spell(rng, a, False), spell(rng, v - a, False))
    if k == 6:
        a = rng.randrange(0, 300)
        return '{}-{}'.format(spell(rng, v + a, False), spell(rng, a, False))
    if k == 7:
        d = rng.choice((1, 2, 3, 7, 16, 256))
        return '{}*{}+{}'.format(spell(rng, v // d, False), spell(rng, d, False), spell(rng, v % d, False))
    if k == 8:
        d = rng.choice((1, 2, 3, 7, 16))
        return '({})/{}'.format(spell(rng, v * d + rng.randrange(d), False), d)
    if k == 9:
        m = v + 1 + rng.randrange(1000)
        return '({}){}{}'.format(spell(rng, v + m * rng.randrange(4), False), rng.choice(('%', ' % ')), m)
    if k == 10:
        return '-(-{})'.format(spell(rng, v, False))
    if k == 11:
        return '+{}'.format(str(v))
    return str(v)


def pad_ws(rng, text):
    """Insert odd whitespace outside quotes."""
    out = []
    quoted = False
    i = 0
    while i < len(text):
        c = text[i]
        if c == '"':
            quoted = not quoted
        elif c == '\\' and quoted:
            out.append(c)
            i += 1
            c = text[i] if i < len(text) else ''
        if not quoted and c in '+-*/(),' and rng.random() < 0.3:
            c = rng.choice((' ', '\t', '  ')) + c + rng.choice(('', ' '))
        out.append(c)
        i += 1
    return ''.join(out)


ALPHA_EVAL = ['0', '1', '2', '7', '9', '10', '255', '256', '65535', '65536', '$', '%', '$F', '$ff', '%1', '%0',
              '"', '"', '\\', 'A', 'a', 'F', 'G', 'x', 'X', 'b', 'B', '0x', '0b', '_', '+', '-', '*', '/', '%',
              '(', ')', '(', ')', ' ', '\t', '\n', ',', '"a"', '"\\""', '"\\\\"', '"\\', '""', '$1_0', '1_0',
              '\xa0', '\x1f', '\x85', '\xa3', '.', 'e', ' ', '  ']


def random_text(rng, alpha=ALPHA_EVAL, maxlen=7):
    return ''.join(rng.choice(alpha) for _ in range(rng.randrange(maxlen + 1)))


def structured_expr(rng, depth=0):
    k = rng.randrange(10 if depth < 3 else 4)
    if k < 4:
        return spell(rng, rng.choice((0, 1, 2, 5, 127, 128, 255, 256, 4660, 65535, 65536, rng.randrange(70000))), False)
    if k == 4:
        return '(' + structured_expr(rng, depth + 1) + ')'
    if k == 5:
        return rng.choice('+-') + structured_expr(rng, depth + 1)
    if k == 6:
        return rng.choice(('()', '1(2)', '(1)(2)', '()()', '(2)()', '3()', '()*2', '2*()', '()+()', '()-()', '()%2',
                           '2%()', '-()', '(1/0)', '1/0', '1%0', '1(1/0)', '()+1/0', '0/0', '(', ')', '', '+', '1+',
                           '*2', '1//2', '7/2', '-7/2', '7/-2', '-7%3', '7%-3', '-7%-3', '-7/-2', '5%101', '(3)%101',
                           '(3) %101', '3%101', '%101%101', '3+%101', '3*%11', '%102', '$1G', '$', '%', '$-5', '%2',
                           '08', '00', '0', '-0', '--5', '-+-5', '1e3', '1.5', '0x10', '$0x10', '$0X1f', '%0b11',
                           '$0b11', '%0x1', '0b11', '1_0', '$1_0', '$_1', '$1_', '$1__0', '$0x_1', '%0b_1', '$ 5',
                           '$5 ', ' 5', '5 ', '- 5', '-5', '+5', '$+5', '$-', '""', '"', '"\\"', '"\\\\"', '"ab"',
                           '"a"b', 'b"a"', '"a""b"', '"a"+"b"', '"a"*2', '"\\n"', '" "', '","', '"\n"', '"\\\n"',
                           '1 2', '1\t+\n2', '\x1f5', '5\xa0', '"\xa3"', '"\xa3"+1', '65535+1', '-65536', '-65535'))
    op = rng.choice(('+', '-', '*', '/', '%', '+', '-', ' + ', ' * ', '/ '))
    return structured_expr(rng, depth + 1) + op + structured_expr(rng, depth + 1)


def eval_texts(chk):
    rng = chk.rng
    for _ in range(chk.scale(10000, 60000)):
        yield 'expr', structured_expr(rng)
    for _ in range(chk.scale(10000, 60000)):
        yield 'soup', random_text(rng)
    for _ in range(chk.scale(1500, 12000)):
        v = rng.choice((0, 1, 34, 92, 127, 128, 255, 256, 65535, rng.randrange(65536)))
        yield 'spell', pad_ws(rng, spell(rng, v))


def has_pow(text):
    return '**' in ''.join(c for c in text if not c.isspace())


# --------------------------------------------------------------------------------------------
# correspondence
# --------------------------------------------------------------------------------------------

def call(f, *a, fmt=str):
    try:
        r = f(*a)
    except ValueError:
        return 'valErr'
    except Exception:
        return 'otherErr'
    return fmt(r)


def correspondence(chk, mods):
    skoolkit, z80, disassembler, textutils = mods
    rng = chk.rng
    asm = z80.Assembler()
    ops, impl = [], []

    def add(op, res, tag, key=None, sample=None):
        ops.append(op)
        impl.append(res)
        chk.case(tag, key, sample)

    # --- disassembler side: _num_str / index_offset / jr_arg / DEF* rendering
    fmts = {}
    diss = {}
    mem = [0] * 65536
    for hx in (0, 1):
        for lo in (0, 1):
            cfg = Cfg(bool(hx), bool(lo), 'ALL', True)
            fmts[hx, lo] = disassembler.OperandFormatter(cfg)
            diss[hx, lo] = disassembler.Disassembler(mem, cfg)
    values1 = list(range(256)) + [256, 257, 1000, 32768, 65535, 65536]
    for (hx, lo), f in fmts.items():
        for base in BASES:
            for v in values1:
                if chk.thorough or (v + hx + 2 * lo) % 2 == 0 or v in EDGE_BYTES:
                    add(f'num {hx} {lo} {v} 1 {base}', ok_txt(f._num_str(v, 1, base)), 'num1',
                        ('num', hx, lo, v, 1, base) if base in 'cm' or v > 255 else None,
                        {'op': 'num', 'hex': hx, 'lower': lo, 'value': v, 'nbytes': 1, 'base': base,
                         'impl': f._num_str(v, 1, base)})
            words = set(EDGE_ADDRS) | {rng.randrange(65536) for _ in range(chk.scale(40, 1500))} | {65536, 70000}
            for v in sorted(words):
                add(f'num {hx} {lo} {v} 2 {base}', ok_txt(f._num_str(v, 2, base)), 'num2',
                    ('num', hx, lo, v, 2, base))
            d = diss[hx, lo]
            for i in range(256):
                mem[1] = i
                add(f'idx {hx} {lo} {i} {base}', ok_txt(d.index_offset(0, base)), 'idx', ('idx', hx, lo, i, base))
            mem[1] = 0
    d = diss[0, 0]
    for a in EDGE_ADDRS + tuple(rng.randrange(65536) for _ in range(chk.scale(10, 200))):
        for off in range(256):
            if chk.thorough or off in EDGE_BYTES or (a + off) % 3 == 0:
                mem[(a + 1) & 65535] = off
                op, length = d.jr_arg('JR {}', a, 'd')
                mem[(a + 1) & 65535] = 0
                add(f'jr {a} {off}', 'none' if op.startswith('DEFB') else 'ok ' + op[3:], 'jr',
                    ('jr', a, off) if op.startswith('DEFB') or a > 65400 or a < 130 else None)
    for n in range(chk.scale(1500, 20000)):
        hx, lo = rng.randrange(2), rng.randrange(2)
        d = diss[hx, lo]
        data, subs = rand_data_subs(rng)
        defm = rng.randrange(2)
        text = d.defb_dir(data, tuple(subs), bool(defm))
        add('defb {} {} {} {} {} {}'.format(hx, lo, defm, len(data), ' '.join(map(str, data)),
                                            ' '.join(f'{s} {b}' for s, b in subs)),
            ok_txt(text), 'defb-render', ('defb', n), {'op': 'defb', 'data': data[:12], 'subs': subs, 'impl': text})
        words = [rng.choice((0, 1, 255, 256, 32768, 65535, rng.randrange(65536))) for _ in range(rng.randrange(1, 5))]
        wdata = [b for w in words for b in (w % 256, w // 256)]
        base = rng.choice(BASES)
        mem[100:100 + len(wdata)] = wdata
        ins = d._defw_lines(100, 100 + len(wdata), ((len(wdata), base),))
        mem[100:100 + len(wdata)] = [0] * len(wdata)
        add(f'defw {hx} {lo} {base} ' + ' '.join(map(str, wdata)), ok_txt(ins[0].operation), 'defw-render', ('defw', n))
        count = rng.choice((1, 2, 127, 128, 255, 256, 257, 1000, 40000))
        value = rng.choice((0, 0, 1, 34, 65, 128, 193, 255, rng.randrange(256)))
        sb = rng.choice(BASES)
        vb = rng.choice(BASES + ('-',))
        mem[1000:1000 + count] = [value] * count
        sub = ((rng.choice((0, count)), sb),) + (((1, vb),) if vb != '-' else ())
        ins = d.defs_range(1000, 1000 + count, sub)
        mem[1000:1000 + count] = [0] * count
        add(f'defs {hx} {lo} {count} {value} {sb} {vb}', ok_txt(ins[0].operation), 'defs-render', ('defs', n))

    # --- assembler side
    fmt_int = lambda v: f'ok {v}'
    with warnings.catch_warnings():
        warnings.simplefilter('ignore')
        n_pow = 0
        for tag, t in eval_texts(chk):
            if has_pow(t) or any(ord(c) > 255 for c in t):
                n_pow += 1
                continue
            r = call(z80.eval_int, t, fmt=fmt_int)
            add('eval ' + cps(t), r, 'eval-' + tag + '-' + r.split()[0], ('eval', t), {'op': 'eval', 'text': t, 'impl': r})
            k = rng.randrange(8)
            if k == 0:
                add('gip ' + cps(t), call(skoolkit.get_int_param, t, fmt=fmt_int), 'gip', ('gip', t))
            elif k == 1:
                try:
                    r = ok_txt(z80._convert_chars(t))
                except TypeError:
                    r = 'valErr'
                add('cchars ' + cps(t), r, 'cchars', ('cchars', t))
            elif k == 2:
                add('cnums ' + cps(t), ok_txt(z80._convert_nums(t)), 'cnums', ('cnums', t))
            elif k == 3:
                lim, br, nn = rng.choice((256, 65536, 8, 3, 57)), rng.randrange(2), rng.randrange(2)
                t2 = rng.choice((t, '(' + t + ')', '(' + t, t + ')'))
                add(f'pexpr {lim} {br} {nn} ' + cps(t2), call(asm._parse_expr, t2, lim, bool(br), bool(nn), None, fmt=fmt_int),
                    'pexpr', ('pexpr', t2, lim, br, nn))
            elif k == 4:
                t2 = rng.choice(('(IX+', '(IX-', '(IY+', '(IY-', '(IX', '(IZ+', '(ix+')) + t + rng.choice((')', ')', ')', ''))
                add('off ' + cps(t2), call(asm._parse_offset, t2, fmt=fmt_int), 'off', ('off', t2))
            elif k == 5:
                a = rng.choice(EDGE_ADDRS)
                add(f'aoff {a} ' + cps(t), call(asm._address_offset, a, t, fmt=fmt_int), 'aoff', ('aoff', a, t))
        chk.extra['eval_texts_skipped_pow'] = n_pow
        # relative jumps: all boundary targets
        for a in EDGE_ADDRS:
            for delta in (-65536, -65411, -65410, -65409, -65408, -65407, -65406, -130, -128, -127, -126, -125, -1, 0, 1, 2,
                          127, 128, 129, 130, 131, 65405, 65406, 65407, 65408, 65409, 65410, 65411, 65535):
                t = a + delta
                if 0 <= t < 65536:
                    add(f'aoff {a} ' + cps(str(t)), call(asm._address_offset, a, str(t), fmt=fmt_int), 'aoff-edge', ('aoff', a, t))
        # strings, splitting, case conversion
        alpha_q = ['"', '"', '\\', ',', ',', 'a', 'B', ' ', '\t', '5', '\\"', '\\\\', '","', '"a,b"', '\n', '+', '$ff', '\xa3']
        for _ in range(chk.scale(12000, 60000)):
            t = random_text(rng, alpha_q, 9)
            k = rng.randrange(5)
            if k == 0:
                add('str ' + cps(t), call(z80.eval_string, t, fmt=lambda r: ok_txt(''.join(map(chr, r)))), 'str', ('str', t))
            elif k == 1:
                add('sq ' + cps(t), ok_pieces(textutils.split_quoted(t)), 'sq', ('sq', t))
            elif k == 2:
                add('split ' + cps(t), ok_pieces(z80.split_operands(t)), 'split', ('split', t),
                    {'op': 'split', 'text': t, 'impl': z80.split_operands(t)})
            elif k == 3:
                lo, tr = rng.randrange(2), rng.randrange(2)
                add(f'cc {lo} {tr} ' + cps(t), ok_txt(asm.convert_case(t, bool(lo), bool(tr))), 'cc', ('cc', t, lo, tr))
                t3 = rng.choice(('ld', 'LD', ' add', 'Jp\t', 'x', '')) + rng.choice((' ', ' ', '\t ', '', '  ')) + t
                add('sop ' + cps(t3), ok_pieces(asm.split_operation(t3, True)), 'sop', ('sop', t3),
                    {'op': 'sop', 'text': t3, 'impl': asm.split_operation(t3, True)})
            else:
                t2 = rng.choice(('DEFB ', 'DEFM ', 'defb ', 'DeFw ', 'DEFS ', 'DEFW ', 'defs ', 'DEFB', 'DEFX ', 'DEFB\t')) + \
                    rng.choice((t, random_text(rng, ALPHA_EVAL + [',', ',', ','], 8)))
                if has_pow(t2) or (t2[:4].upper() == 'DEFS' and len(t2) > 12):
                    continue
                add('data ' + cps(t2), data_impl(asm, t2), 'data', ('data', t2))

    model = chk.run_driver('C02', ops)
    chk.compare('OpText/AsmEval models vs skoolkit.disassembler / z80 / textutils', ops, impl, model)
    if model is not None:
        chk.extra['model_unsupported'] = sum(1 for m in model if m == 'unsupported')


def data_impl(asm, text):
    if not text.upper().startswith(('DEFB ', 'DEFM ', 'DEFS ', 'DEFW ')):
        return 'nodir'
    try:
        r = asm._assemble(text, 0)
    except ValueError:
        return 'valErr'
    except Exception:
        return 'otherErr'
    return ok_list(r or ())


def rand_data_subs(rng):
    n = rng.choice((1, 1, 2, 3, 4, 5, 8, 12))
    pool = rng.choice(((0, 1, 34, 92, 44, 65, 32, 126, 127, 128, 255, 94, 96, 162, 193, 220),
                       (34, 92, 44, 65), tuple(range(256)), (65, 66, 67, 32, 0)))
    data = [rng.choice(pool) for _ in range(n)]
    if rng.random() < 0.35:
        subs = [(0, rng.choice(BASES))]
    else:
        subs = []
        left = n
        while left > 0:
            k = rng.randint(1, left)
            subs.append((k, rng.choice(BASES + ('c', 'c'))))
            left -= k
    return data, subs


# --------------------------------------------------------------------------------------------
# instruction level: table dump, model correspondence
# --------------------------------------------------------------------------------------------

def regen(chk):
    """Dump the opcode tables of real Disassembler objects into Gen/C02Tables.lean (every run)."""
    import importlib
    for m in ('gen_c07', 'gen_c02'):
        if m in sys.modules:
            importlib.reload(sys.modules[m])
    import gen_c02
    try:
        text = gen_c02.gen_tables(REPO)
    except Exception as e:
        chk.breaks.append({'kind': 'translator', 'name': 'Disassembler tables -> Gen/C02Tables.lean',
                           'detail': f'{type(e).__name__}: {e}'})
        return False
    with LeanLock():
        if chk.write_gen(os.path.join('SkoolVerif', 'Gen', 'C02Tables.lean'), text):
            chk.note('regenerated (source changed): C02Tables.lean')
    chk.extra['generated_files'] = sorted(set(chk.extra.get('generated_files', [])) | {'C02Tables.lean'})
    return True


def opts_mask(opcodes):
    """The model's `opts` bit set for a Disassembler `opcodes` configuration string."""
    names = [e.strip() for e in opcodes.upper().split(',')]
    if 'ALL' in names:
        return 255
    return sum(1 << i for i, o in enumerate(OPTIONS) if o in names)


def asm_impl(asm, text, addr):
    """`Assembler._assemble` classified like the model: bytes (None = empty), ValueError, any other exception."""
    try:
        r = asm._assemble(text, addr)
    except ValueError:
        return 'valErr'
    except Exception:
        return 'otherErr'
    return ok_list(r or ())


MNEMONICS = ('ADC', 'ADD', 'AND', 'BIT', 'CALL', 'CCF', 'CP', 'CPD', 'CPDR', 'CPI', 'CPIR', 'CPL', 'DAA', 'DEC', 'DI', 'DJNZ',
             'EI', 'EX', 'EXX', 'HALT', 'IM', 'IN', 'INC', 'IND', 'INDR', 'INI', 'INIR', 'JP', 'JR', 'LD', 'LDD', 'LDDR',
             'LDI', 'LDIR', 'NEG', 'NOP', 'OR', 'OTDR', 'OTIR', 'OUT', 'OUTD', 'OUTI', 'POP', 'PUSH', 'RES', 'RET', 'RETI',
             'RETN', 'RL', 'RLA', 'RLC', 'RLCA', 'RLD', 'RR', 'RRA', 'RRC', 'RRCA', 'RRD', 'RST', 'SBC', 'SCF', 'SET', 'SLA',
             'SLL', 'SRA', 'SRL', 'SUB', 'XOR')
BAD_MNEMONICS = ('FOO', '', 'LDX', 'L', 'DEFB', 'DEFM', 'DEFW', 'DEFS', 'DEF', 'DEFX', 'JRR', 'NOPE', 'I', 'EXA', 'SL1')
OPERAND_POOL = (
    'A', 'B', 'C', 'D', 'E', 'H', 'L', '(HL)', '(BC)', '(DE)', '(SP)', '(C)', '(IX)', '(IY)', 'BC', 'DE', 'HL', 'SP', 'AF',
    "AF'", 'IX', 'IY', 'IXH', 'IXL', 'IYH', 'IYL', 'IXh', 'ixl', 'I', 'R', 'F', '0', 'NZ', 'Z', 'NC', 'PO', 'PE', 'P', 'M',
    '(IX+1)', '(IX-0)', '(IX+0)', '(IY+$7F)', '(IY-128)', '(IX+128)', '(IX-129)', '(IX+255)', '(IX+256)', '(IX-255)',
    '(IX-256)', '(IX+-5)', '(IX--5)', '(IX+"a")', '(IY-"\\"")', '(IZ+1)', '(IX+1', '(IX+)', '(IX+1/0)', '(I', '(IXH)', '( IX+1)',
    '(IX +1)', '(IX+ 1 )', '(IX+%101)', '(iy+$0a)', '(Ix+3*4)', '(IX+(2))',
    '5', '0', '1', '2', '3', '4', '7', '8', '12', '16', '20', '24', '32', '40', '48', '52', '56', '57', '58', '60', '63', '64', '-0', '-1', '-8', '255', '256', '-255',
    '-256', '65535', '65536', '-65535', '-65536', '$FF', '$ff', '%101', '"a"', '"\\""', '","', '" "', '"("', '1+2', '(1+2)',
    '(5)', '((5))', '(5)+(6)', '1/0', '(1/0)', '()', '(', '', '(255)', '(256)', '(-1)', '(-0)', '(65535)', '(65536)', '("a")',
    '($4000)', '(16384)', '( 16384 )', '3+%101', '2*3', '-(-5)', '08', '1 2', '$', '%', '"', '\\', "'", "af'", '(hl)', '(Hl)',
    'ixh', 'b', '(c)', 'nz', '$38', '%00111000', '"8"', '+8', '32768', '$8000', '"0"')


def malformed_stream(chk, n):
    """Instruction texts around the assembler's grammar: every mnemonic (and some that are none) with 0..4
    operands drawn from registers in either case, index operands incl. `(IX-0)` / `(IY+$7F)` / out-of-range
    displacements, numbers at the limits of every range, expressions, strings, empty and malformed operands,
    odd separators and white space."""
    rng = chk.rng
    spaces = (' ', ' ', ' ', '\t', '  ', ' \t ', '', '\x0b', '\xa0', '\x1f', '\n')
    for _ in range(n):
        mn = rng.choice(MNEMONICS) if rng.random() < 0.9 else rng.choice(BAD_MNEMONICS)
        k = rng.choice((0, 1, 1, 1, 2, 2, 2, 2, 3, 4))
        ops = [rng.choice(OPERAND_POOL) if rng.random() < 0.85 else spell(rng, rng.choice((0, 1, 7, 8, 56, 255, 256, 65535)))
               for _ in range(k)]
        sep = rng.choice((',', ',', ',', ',', ' ,', ', ', ' , ', ',,', ';'))
        t = mn + (rng.choice(spaces) if k or rng.random() < 0.2 else '') + sep.join(ops)
        if rng.random() < 0.1:
            t = rng.choice(spaces) + t
        if rng.random() < 0.1:
            t += rng.choice(spaces)
        if rng.random() < 0.05:
            t += ','
        r = rng.randrange(6)
        if r == 0:
            t = t.lower()
        elif r == 1 and '"' not in t:
            t = ''.join(c.lower() if rng.random() < 0.5 else c.upper() for c in t)
        if has_pow(t) or any(ord(c) > 255 or c in 'µßÿ' for c in t):
            continue
        yield t, rng.choice((0, 1, 100, 32768, 65534, 65535, rng.randrange(65536)))


def variant_sequences(disassembler):
    """Every opcode sequence the disassembler flags VARIANT under Opcodes=ALL (found by probing the tables)."""
    d = disassembler.Disassembler([0] * 65536, Cfg(opcodes='ALL'))
    seqs = [(0xED, k) for k, v in sorted(d.after_ED.items()) if len(v) > 2 and v[2] & 1]
    for pre in (0xDD, 0xFD):
        seqs += [(pre, 0xCB, dd, k) for k, v in sorted(d.after_DDCB.items()) if len(v) > 2 and v[2] & 1 for dd in (0, 5, 255)]
    return seqs


def correspondence_instr(chk, mods, texts):
    """Model of the assembler's instruction path and of the disassembler's rendering vs the real code."""
    skoolkit, z80, disassembler, textutils = mods
    rng = chk.rng
    asm = z80.Assembler()
    ops, impl = [], []

    def add(op, res, tag, key=None, sample=None):
        ops.append(op)
        impl.append(res)
        chk.case(tag, key, sample)

    # (a) + (c): what the forward enumeration rendered: per slot x base x configuration x boundary class the first
    # text (quick) / first four texts (thorough) and 2% of the others (selected in check_forward)
    for (operation, akey), (hx, lo, opc, wrap, base, addr, seq, variant, data, back) in texts.items():
        if any(ord(c) > 255 for c in operation):
            continue
        add(f'asm {addr} ' + cps(operation), asm_impl(asm, operation, addr), 'asm-rendered', ('asm', operation, akey),
            {'op': 'asm', 'text': operation, 'addr': addr, 'impl': list(back)} if len(ops) % 20011 == 7 else None)
        add('dis {} {} {} {} {} {} {} '.format(int(hx), int(lo), opts_mask(opc), int(wrap), base[0], base[-1], addr)
            + ' '.join(map(str, seq)),
            'ok {} {} | {}'.format(variant, ','.join(map(str, data)), cps(operation)), 'dis-rendered',
            ('dis', operation, akey, hx, lo, opc, wrap, base))
    chk.extra['rendered_texts_to_model'] = len(ops) // 2

    # (b) malformed / variant stream
    with warnings.catch_warnings():
        warnings.simplefilter('ignore')
        for t, a in malformed_stream(chk, chk.scale(40000, 400000)):
            r = asm_impl(asm, t, a)
            add(f'asm {a} ' + cps(t), r, 'asm-stream-' + ('ok' if r.startswith('ok ') else 'none' if r == 'ok' else r),
                ('asmx', t, a if t.strip()[:2].upper() in ('JR', 'DJ') else 0),
                {'op': 'asm', 'text': t, 'addr': a, 'impl': r} if len(ops) % 5003 == 11 else None)
        # directed: every condition (and some that are none) with every conditional mnemonic
        for mn in ('JR', 'JP', 'CALL', 'RET', 'DJNZ', 'jr', 'Jp'):
            for cc in ('NZ', 'Z', 'NC', 'C', 'PO', 'PE', 'P', 'M', 'nz', 'po', 'm', 'X', 'HL', 'A', '', '0'):
                for a in (0, 32768, 65535):
                    for t in (f'{mn} {cc},{(a + 5) % 65536}', f'{mn} {cc}', f'{mn} {cc},{(a + 5) % 65536},1'):
                        r = asm_impl(asm, t, a)
                        add(f'asm {a} ' + cps(t), r, 'asm-conditions-' + r.split()[0], ('asmc', t, a))
        # grammar-generated spellings of every template (the converse generator's language)
        tmpls = templates(disassembler)
        for n in range(chk.scale(12000, 120000)):
            tmpl, kind = tmpls[rng.randrange(len(tmpls))]
            a = rng.choice(EDGE_ADDRS) if rng.random() < 0.7 else rng.randrange(65536)
            t = mangle(rng, fill(rng, tmpl, kind, a)[0])
            if has_pow(t) or any(ord(c) > 255 or c in 'µßÿ' for c in t):
                continue
            r = asm_impl(asm, t, a)
            add(f'asm {a} ' + cps(t), r, 'asm-spelled-' + r.split()[0], ('asms', t, a if kind == 'jr_arg' else 0))

    # the @bytes directive of a variant instruction, as sna2skool writes it and skool2* read it
    snaskool, ctlparser, skoolutils = fresh_modules('skoolkit.snaskool', 'skoolkit.ctlparser', 'skoolkit.skoolutils')
    vseqs = variant_sequences(disassembler)
    snap = [0] * 65536
    a = 32768
    for q in vseqs:
        snap[a:a + len(q)] = q       # followed by two zero bytes: operand of the 4-byte ED63/ED6B, NOPs otherwise
        a += len(q) + 2
    cp = ctlparser.CtlParser()
    cp.parse_ctls([io.StringIO(f'c 32768\ni {a}\n')])
    for hx in (0, 1):
        for lo in (0, 1):
            dis = snaskool.Disassembly(snap, cp, {'Opcodes': 'ALL'}, asm_hex=bool(hx), asm_lower=bool(lo))
            n_var = 0
            for entry in dis.entries:
                for ins in entry.instructions:
                    bd = [x for x in ins.asm_directives if x.startswith('bytes=')]
                    if not bd:
                        continue
                    n_var += 1
                    add(f'bdir {hx} {lo} ' + ' '.join(map(str, ins.bytes)), ok_txt(bd[0][6:]), 'bytes-directive',
                        ('bdir', tuple(ins.bytes), hx, lo))
                    back = skoolutils.parse_asm_bytes_directive(bd[0])
                    add('pbdir ' + cps(bd[0][6:]), ok_list(back), 'bytes-directive-parse', ('pbdir', bd[0]))
                    if list(back) != list(ins.bytes):
                        chk.violation('variant-bytes-directive', f'@{bd[0]} written for {ins.operation!r} at {ins.address} is read back '
                                      f'as {list(back)}, not {list(ins.bytes)}', {'kind': 'bdir', 'hex': hx, 'lower': lo, 'bytes': list(ins.bytes)})
            if n_var != len(vseqs):
                chk.breaks.append({'kind': 'correspondence', 'name': '@bytes directives of variant instructions',
                                   'detail': f'{n_var} directives for {len(vseqs)} variant sequences (hex={hx}, lower={lo})'})
    for _ in range(chk.scale(400, 4000)):
        t = rng.choice((','.join(spell(rng, rng.randrange(256), False) for _ in range(rng.randrange(1, 5))),
                        random_text(rng, ['1', '$F', ',', ',', ' ', '"a"', '%1', 'x', '-2', '255', '$ff'], 6)))
        add('pbdir ' + cps(t), ok_list(skoolutils.parse_asm_bytes_directive('bytes=' + t)), 'bytes-directive-parse', ('pbdir', t))

    model = chk.run_driver('C02', ops)
    chk.compare('AsmInstr/DisText models vs Assembler._assemble / Disassembler.disassemble / @bytes', ops, impl, model)
    if model is not None:
        chk.extra['model_unsupported_instr'] = sum(1 for m in model if m == 'unsupported')


def fresh_modules(*names):
    import importlib
    return [importlib.import_module(n) for n in names]


# --------------------------------------------------------------------------------------------
# e2e: forward direction (disassemble -> assemble)
# --------------------------------------------------------------------------------------------

def m_excluded(operation, base):
    """The property covers the negative base only "where a signed operand is meaningful":
    the assembler requires RST / IN A,(n) / OUT (n),A operands to be non-negative."""
    return 'm' in base and operation.split(None, 1)[0].upper() in ('RST', 'IN', 'OUT') and '-' in operation


M_ZERO = re.compile(r'-(256|65536|\$0?100|\$10000)\b')   # how a zero operand was rendered in base m before the fix


def arg_kind(d, seq):
    """Name of the decoder the disassembler's tables use for this opcode sequence."""
    try:
        e = d.ops[seq[0]]
        if seq[0] == 0xED:
            e = d.after_ED.get(seq[1], (None,))
        elif seq[0] in (0xDD, 0xFD):
            e = d.after_DD.get(seq[1], (None,))
            if seq[1] == 0xCB:
                e = d.after_DDCB.get(seq[3], (None,))
        return e[0].__name__ if e[0] else 'defb'
    except Exception:
        return 'unknown'


def fwd_fail(chk, stats, d, ins_op, base, seq, desc, replay):
    """Record a forward failure; reported at the end (collapsed per decoder kind if many slots fail)."""
    mn = ins_op.split(None, 1)[0].upper() if ins_op else '?'
    slot = '%02X' % seq[0] + ('%02X' % seq[1] if seq[0] in (0xCB, 0xDD, 0xED, 0xFD) and len(seq) > 1 else '')
    kind = arg_kind(d, seq)
    npre = 2 if seq[0] in (0xCB, 0xDD, 0xED, 0xFD) else 1
    operands = list(seq[npre:npre + 2]) if kind in ('word_arg', 'index_arg') else list(seq[npre:npre + 1])
    mz = M_ZERO.search(ins_op.upper()) if ins_op and 'm' in base else None
    # -65536 / -$10000 can only be a zero word; -256 / -$0100 is a zero byte (or the word 65280)
    if mz and (mz.group(1) in ('65536', '$10000') or (kind != 'word_arg' and 0 in operands)):
        kind = 'm-base-zero-operand'
    stats.setdefault('failures', {}).setdefault(kind, {}).setdefault((mn, slot), (desc, replay))


def report_forward(chk, stats):
    for kind, slots in stats.pop('failures', {}).items():
        items = sorted(slots.items())
        if kind == 'm-base-zero-operand':
            desc, replay = items[0][1]
            chk.violation(kind, desc + f' ({len(items)} slots)', replay)
        elif len(items) <= 4:
            for (mn, slot), (desc, replay) in items:
                chk.violation(f'fwd:{kind}:{mn}:{slot}', desc, replay)
        else:
            desc, replay = items[0][1]
            chk.violation(f'fwd:{kind}:many-slots', desc + f' (and {len(items) - 1} more slots of decoder kind {kind}: '
                          + ' '.join(sl for (_, sl), _ in items[1:12]) + ')', replay)


def check_forward(chk, asm, d, mem, cfgd, seq, addr, base, stats):
    """One case of part 1 of the property; returns True when it holds."""
    rp = {'kind': 'fwd', 'cfg': cfgd, 'seq': list(seq), 'addr': addr, 'base': base}
    try:
        ins = d.disassemble(addr, addr + 1, base)[0]
        data = list(ins.bytes)
        back = list(asm.assemble(ins.operation, addr))
    except Exception as e:
        fwd_fail(chk, stats, d, 'EXC-' + type(e).__name__, base, seq,
                 f"{cfgd}: disassembling/assembling bytes {list(seq)} at {addr} (base {base!r}) raised {type(e).__name__}: {e}", rp)
        return False
    # remember the case for the model correspondence (one representative per text and address class)
    texts = stats.get('_texts')
    if texts is not None:
        mn = ins.operation[:5].upper()
        akey = addr if mn.startswith(('JR ', 'DJNZ ')) else -1
        key = (ins.operation, akey)
        hk = hash(key)
        if hk not in stats['_seen']:
            stats['_seen'].add(hk)
            # bucket = slot x base x configuration x boundary class (x offset for relative jumps); the first
            # `_cap` texts of a bucket and 2% of the others go to the model
            if seq[0] in (0xDD, 0xFD) and len(seq) > 3 and seq[1] == 0xCB:
                sk = (seq[0], 0xCB, seq[3])
            elif seq[0] in (0xCB, 0xED, 0xDD, 0xFD):
                sk = tuple(seq[:2])
            else:
                sk = (seq[0],)
            b = (sk, base, cfgd['hex'], cfgd['lower'], cfgd['opcodes'].strip().upper()[:3], addr > 65531,
                 akey >= 0 and seq[1] in EDGE_BYTES and seq[1])
            buckets = stats['_buckets']
            nb = buckets.get(b, 0)
            stats['_distinct'] += 1
            if nb < stats['_cap'] or chk.rng.random() < 0.02:
                buckets[b] = nb + 1
                texts[key] = (cfgd['hex'], cfgd['lower'], cfgd['opcodes'], cfgd['wrap'], base, addr, tuple(seq), ins.variant,
                              tuple(data), tuple(back))
    if ins.variant:
        stats['variant'] += 1
        if not back:
            stats['variant-unassemblable'] += 1
        return True
    if back == data:
        return True
    if m_excluded(ins.operation, base):
        stats['excluded-m-nonneg'] += 1
        return True
    fwd_fail(chk, stats, d, ins.operation, base, seq,
             f"{cfgd}: bytes {data} at {addr} disassemble (base {base!r}) to {ins.operation!r}, which assembles to {back}", rp)
    return False


def slot_sequences(chk, disassembler, full):
    """Every opcode slot: all 256 first bytes, all second bytes after CB/ED/DD/FD, all fourth bytes
    after DDCB/FDCB, each with operand bytes from the edge set (`full`: all 256 values of the
    first operand byte).  Operand positions are found by probing the real decoder."""
    ev = tuple(range(256)) if full else EDGE_BYTES
    few = EDGE_BYTES if full else (0, 34, 128, 255)
    mem = [0] * 65536
    d = disassembler.Disassembler(mem, Cfg(False, False, 'ALL', True))

    def length(pre):
        mem[32768:32768 + len(pre)] = pre
        mem[32768 + len(pre):32772] = [1] * (4 - len(pre))
        n = len(d.disassemble(32768, 32769, 'n')[0].bytes)
        mem[32768:32772] = [0] * 4
        return n

    res = []
    for op in range(256):
        pres = [(op,)]
        if op in (0xCB, 0xED, 0xDD, 0xFD):
            pres = [(op, b2) for b2 in range(256)]
        for pre in pres:
            if op in (0xDD, 0xFD) and pre[1] == 0xCB:
                res.extend((op, 0xCB, b3, b4) for b4 in range(256) for b3 in ev)
                continue
            n = max(length(pre) - len(pre), 0)
            pad = (0,) * (4 - len(pre))
            if n == 0:
                res.append(pre + tuple((pre[-1] ^ 0x5A,) * 1) + pad[1:])
            elif n == 1:
                res.extend(pre + (b,) + pad[1:] for b in ev)
            else:
                res.extend(pre + (b, c) + pad[2:] for b in ev for c in few)
    return res


def e2e_forward(chk, mods):
    skoolkit, z80, disassembler, textutils = mods
    rng = chk.rng
    asm = z80.Assembler()
    stats = {'variant': 0, 'variant-unassemblable': 0, 'excluded-m-nonneg': 0, '_texts': {}, '_buckets': {}, '_seen': set(), '_distinct': 0,
             '_cap': chk.scale(1, 4)}
    seqs_small = slot_sequences(chk, disassembler, False)
    seqs_full = slot_sequences(chk, disassembler, True) if chk.thorough else seqs_small
    chk.extra['slot_sequences'] = [len(seqs_small), len(seqs_full)]
    plan = []   # (hex, lower, opcodes, wrap, sequences, addresses-per-sequence)
    for hx in (False, True):
        for lo in (False, True):
            plan.append((hx, lo, 'ALL', True, seqs_full, 3))
            plan.append((hx, lo, '', True, seqs_full if hx == lo else seqs_small, chk.scale(1, 2)))
            if chk.thorough or hx == lo:
                plan.append((hx, lo, 'ALL' if hx else '', False, seqs_small, chk.scale(1, 3)))
    for i, opc in enumerate(OPCODE_SETS[2:] + ('im,neg', ' xycb , ed70 ')):
        # individual opcode sets: only the ED and DDCB/FDCB slots depend on them
        sub = [q for q in seqs_small if q[0] == 0xED or (q[0] in (0xDD, 0xFD) and q[1] == 0xCB)]
        plan.append((bool(i & 1), bool(i & 2), opc, True, sub, chk.scale(1, 3)))
    mem = [0] * 65536
    n = 0
    for ci, (hx, lo, opc, wrap, seqs, per) in enumerate(plan):
        d = disassembler.Disassembler(mem, Cfg(hx, lo, opc, wrap))
        cfgd = {'hex': hx, 'lower': lo, 'opcodes': opc, 'wrap': wrap}
        for si, seq in enumerate(seqs):
            two = seq[0] in (0xDD, 0xFD) and seq[1] == 0x36
            for k in range(per if not two else per + 2):
                if not wrap or (k == 0 and si % 3 == 0):
                    addr = 65535 - (si + k) % 4
                elif rng.random() < 0.1:
                    addr = rng.randrange(65536)
                else:
                    addr = EDGE_ADDRS[(si + k * 7 + ci) % len(EDGE_ADDRS)]
                if two or rng.random() < 0.08:
                    base = BASES2[(si * 5 + ci + k * 11 + n) % len(BASES2)]
                else:
                    base = BASES[(si + ci + k + n) % len(BASES)]
                for i, b in enumerate(seq):
                    mem[(addr + i) & 65535] = b
                check_forward(chk, asm, d, mem, cfgd, seq, addr, base, stats)
                for i in range(4):
                    mem[(addr + i) & 65535] = 0
                n += 1
                tagp = '%02X' % seq[0] if seq[0] in (0xCB, 0xDD, 0xED, 0xFD) else 'main'
                chk.case('fwd-' + tagp + ('-64K' if addr > 65531 else ''),
                         ('fwd', seq, addr, base, hx, lo, opc, wrap),
                         {'kind': 'fwd', 'cfg': cfgd, 'seq': list(seq), 'addr': addr, 'base': base} if n % 50021 == 1 else None)
    # complete sweeps of the operand-bearing dimensions
    sweep_operands(chk, asm, disassembler, stats)
    report_forward(chk, stats)
    texts = stats.pop('_texts')
    stats.pop('_buckets')
    stats.pop('_seen')
    stats.pop('_cap')
    stats['distinct_texts'] = stats.pop('_distinct')
    chk.extra['forward_stats'] = stats
    return texts


def sweep_operands(chk, asm, disassembler, stats):
    """Exhaustive along the operand axes: every byte operand x every base (incl. all 36 two-letter
    combinations for LD (IX+d),n), every displacement, every jump offset at boundary addresses."""
    mem = [0] * 65536
    for hx, lo in ((False, False), (True, True), (True, False), (False, True)):
        cfgd = {'hex': hx, 'lower': lo, 'opcodes': 'ALL', 'wrap': True}
        d = disassembler.Disassembler(mem, Cfg(hx, lo, 'ALL', True))
        reps = {'byte': (0x3E, 0xD6, 0xDB, 0xD3, 0x06), 'word': (0x01, 0x22, 0xC3, 0xCD), 'jr': (0x10, 0x18, 0x38)}
        for v in range(256):
            for base in BASES:
                for op in reps['byte']:
                    for addr in (0, 65535):
                        mem[addr], mem[(addr + 1) & 65535] = op, v
                        check_forward(chk, asm, d, mem, cfgd, (op, v), addr, base, stats)
                        mem[addr], mem[(addr + 1) & 65535] = 0, 0
                        chk.case('fwd-sweep-byte', ('sb', op, v, base, addr, hx, lo))
                for op in reps['jr']:
                    for addr in (EDGE_ADDRS if chk.thorough or hx == lo else EDGE_ADDRS[::3]):
                        mem[addr], mem[(addr + 1) & 65535] = op, v
                        check_forward(chk, asm, d, mem, cfgd, (op, v), addr, base, stats)
                        mem[addr], mem[(addr + 1) & 65535] = 0, 0
                        chk.case('fwd-sweep-jr', ('sj', op, v, base, addr, hx, lo))
                for pre in (0xDD, 0xFD):
                    for op in (0x46, 0x77, 0x86, 0x34):
                        seq = (pre, op, v)
                        mem[0:3] = seq
                        check_forward(chk, asm, d, mem, cfgd, seq, 0, base, stats)
                        chk.case('fwd-sweep-index', ('si', seq, base, hx, lo))
                    seq = (pre, 0xCB, v, (v * 8 + 6) & 255)
                    mem[0:4] = seq
                    check_forward(chk, asm, d, mem, cfgd, seq, 0, base, stats)
                    chk.case('fwd-sweep-index', ('si', seq, base, hx, lo))
                    mem[0:4] = [0] * 4
            # LD (IX+d),n: all 36 base pairs, d = v, n from the edge set (all n in thorough)
            for base in BASES2[6:]:
                for nn in (range(256) if chk.thorough and hx == lo else (v ^ 0xA5, 34, 128 + 65) if hx == lo else (v ^ 0xA5,)):
                    seq = (0xDD, 0x36, v, nn)
                    mem[0:4] = seq
                    check_forward(chk, asm, d, mem, cfgd, seq, 0, base, stats)
                    chk.case('fwd-sweep-index-arg', ('sia', v, nn, base, hx, lo))
            mem[0:4] = [0] * 4
        words = sorted(set(EDGE_ADDRS) | {256 * h + l for h in EDGE_BYTES for l in (0, 34, 255)})
        if chk.thorough:
            words = range(65536) if hx == lo else range(0, 65536, 7)
        for w in words:
            for base in BASES:
                for op in reps['word'][:(4 if not chk.thorough else 1)]:
                    seq = (op, w % 256, w // 256)
                    mem[65534], mem[65535], mem[0] = seq
                    check_forward(chk, asm, d, mem, cfgd, seq, 65534, base, stats)
                    chk.case('fwd-sweep-word', ('sw', seq, base, hx, lo))
        mem[65534], mem[65535], mem[0] = 0, 0, 0


# --------------------------------------------------------------------------------------------
# e2e: DEFB / DEFM / DEFW / DEFS statements
# --------------------------------------------------------------------------------------------

def data_case(chk, asm, d, mem, cfgd, kind, start, data, subs):
    """Render `data` at `start` with the real *_range method, assemble every statement back."""
    n = len(data)
    mem[start:start + n] = data
    try:
        inss = getattr(d, kind + '_range')(start, start + n, tuple(subs))
    finally:
        mem[start:start + n] = [0] * n
    bad = None
    for ins in inss:
        back = list(asm.assemble(ins.operation, ins.address))
        if back != list(ins.bytes):
            op = ins.operation
            if kind == 'defs' and subs[0][1] == 'm' and (ins.operation[:4].upper() == 'DEFS'):
                continue   # 'm' on a DEFS size: a signed size is not meaningful
            if M_ZERO.search(op.upper()) and any(b == 'm' for _, b in subs):
                key = 'm-base-zero-operand'
            else:
                key = f'data:{op[:4].upper()}'
            bad = key
            chk.violation(key, f'{cfgd}: {kind}_range over {data[:20]} sublengths {subs}: {op[:80]!r} '
                               f'assembles to {back[:20]} not {list(ins.bytes)[:20]}',
                          {'kind': 'data', 'cfg': cfgd, 'dkind': kind, 'start': start, 'data': data, 'subs': [list(s) for s in subs]})
    got = [b for ins in inss for b in ins.bytes]
    if got != data and bad is None:
        chk.violation(f'data:{kind}:coverage', f'{kind}_range statements do not cover the range: {data[:20]} -> {got[:20]}',
                      {'kind': 'data', 'cfg': cfgd, 'dkind': kind, 'start': start, 'data': data, 'subs': [list(s) for s in subs]})
    return inss


def e2e_data(chk, mods):
    skoolkit, z80, disassembler, textutils = mods
    rng = chk.rng
    asm = z80.Assembler()
    mem = [0] * 65536
    for hx in (False, True):
        for lo in (False, True):
            cfgd = {'hex': hx, 'lower': lo, 'opcodes': '', 'wrap': False}
            d = disassembler.Disassembler(mem, Cfg(hx, lo, '', False, defb_size=rng.choice((1, 3, 8)), defm_size=rng.choice((2, 5, 66)),
                                                   defw_size=rng.choice((1, 2, 4))))
            cfgd['sizes'] = [d.defb_size, d.defm_size, d.defw_size]
            # complete: every single byte value in every base as DEFB and DEFM, every pair of special bytes as a string
            for v in range(256):
                for base in BASES:
                    for kind in ('defb', 'defm'):
                        data_case(chk, asm, d, mem, cfgd, kind, 65535 if v & 1 else 0, [v], [(1, base)])
                        chk.case('data-' + kind + '-1', ('d1', kind, v, base, hx, lo))
                    data_case(chk, asm, d, mem, cfgd, 'defs', 40000, [v] * (v + 1), [(0, base), (1, base)])
                    data_case(chk, asm, d, mem, cfgd, 'defs', 40000, [v] * 3, [(3, 'd')])
                    chk.case('data-defs', ('ds', v, base, hx, lo))
                    for hi in (0, 1, 127, 128, 255, v):
                        data_case(chk, asm, d, mem, cfgd, 'defw', 50000, [v, hi], [(2, base)])
                        chk.case('data-defw-1', ('dw', v, hi, base, hx, lo))
            special = (34, 92, 44, 32, 65, 94, 0, 200, 127, 126)
            for tup in itertools.product(special, repeat=chk.scale(3, 4)):
                for kind in ('defb', 'defm'):
                    data_case(chk, asm, d, mem, cfgd, kind, 30000, list(tup), [(0, 'c')])
                chk.case('data-string-exh', ('dx', tup, hx, lo))
            for n in range(chk.scale(700, 12000)):
                data, subs = rand_data_subs(rng)
                kind = rng.choice(('defb', 'defm', 'defb', 'defm', 'defw', 'defs'))
                start = rng.choice((0, 30000, 65536 - len(data)))
                if kind == 'defw':
                    if len(data) % 2:
                        data.append(rng.randrange(256))
                    subs = [(0, rng.choice(BASES))] if rng.random() < 0.5 else [(2, rng.choice(BASES)) for _ in range(len(data) // 2)]
                elif kind == 'defs':
                    data = [data[0]] * rng.choice((1, 2, 255, 256, 300, len(data)))
                    start = 20000
                    subs = [(rng.choice((0, len(data))), rng.choice(BASES))] + ([(1, rng.choice(BASES))] if rng.random() < 0.6 else [])
                inss = data_case(chk, asm, d, mem, cfgd, kind, start, data, subs)
                chk.case('data-' + kind, ('dr', kind, tuple(data), tuple(subs), hx, lo),
                         {'kind': 'data', 'dkind': kind, 'data': data[:12], 'subs': subs, 'ops': [i.operation for i in inss][:3]}
                         if n % 400 == 7 else None)


# --------------------------------------------------------------------------------------------
# e2e: converse direction (assemble -> disassemble -> assemble)
# --------------------------------------------------------------------------------------------

def templates(disassembler):
    """Instruction templates taken from the disassembler's own tables (all opcode sets)."""
    d = disassembler.Disassembler([0] * 65536, Cfg(opcodes='ALL'))
    res = []
    for tbl, fix in ((d.ops, None), (d.after_DD, 'x'), (d.after_ED, None), (d.after_DDCB, 'x')):
        for k, v in tbl.items():
            t = v[1]
            if t:
                res.append((t, v[0].__name__))
                if fix:
                    res.append((t.replace('IX', 'IY'), v[0].__name__))
    for t in d.after_CB.values():
        res.append((t, 'no_arg'))
    return sorted(set(res))


def fill(rng, tmpl, kind, addr):
    """Substitute operand spellings the assembler grammar admits."""
    if kind in ('byte_arg',):
        v = rng.choice((0, 1, 34, 92, 127, 128, 255, rng.randrange(256)))
        if rng.random() < 0.15:
            return tmpl.format('-' + spell(rng, 256 - v if v else 0, False)), v
        return tmpl.format(spell(rng, v)), v
    if kind == 'word_arg':
        v = rng.choice((0, 1, 255, 256, 32768, 65535, rng.randrange(65536)))
        if rng.random() < 0.1:
            return tmpl.format('-' + spell(rng, 65536 - v if v else 0, False)), v
        return tmpl.format(spell(rng, v)), v
    if kind == 'jr_arg':
        delta = rng.choice((-126, -127, -125, 129, 130, 128, 0, 1, 2, -1, rng.randrange(-126, 130), rng.randrange(-140, 140)))
        t = (addr + delta) % 65536 if rng.random() < 0.8 else addr + delta
        if not 0 <= t < 65536:
            t %= 65536
        return tmpl.format(spell(rng, t)), t
    if kind in ('index', 'index_arg'):
        dd = rng.choice((0, 0, 1, 127, 128, 129, 255, rng.randrange(256)))
        if rng.random() < 0.5:
            off = rng.choice('+-') + spell(rng, rng.choice((0, dd % 128, dd)), rng.random() < 0.5)
        elif dd < 128:
            off = '+' + spell(rng, dd)
        else:
            off = '-' + spell(rng, 256 - dd)
        if kind == 'index_arg':
            return tmpl.format(off, spell(rng, rng.choice((0, 34, 255, rng.randrange(256))))), dd
        return tmpl.format(off), dd
    if kind == 'rst_arg':
        v = int(tmpl[4:])
        return 'RST ' + spell(rng, v), v
    return tmpl, None


def mangle(rng, text):
    k = rng.randrange(6)
    if k == 0:
        text = text.lower()
    elif k == 1:
        text = ''.join(c.lower() if rng.random() < 0.5 else c for c in text) if '"' not in text else text
    if rng.random() < 0.4:
        text = pad_ws(rng, text)
    if rng.random() < 0.2:
        text = text.replace(' ', rng.choice(('\t', '  ', ' \t ')), 1)
    if rng.random() < 0.1:
        text = ' ' + text + ' '
    return text


def conv_fail(chk, fails, kind, key, desc, rp):
    fails.setdefault(kind, {}).setdefault(key, (desc, rp))


def report_converse(chk, fails):
    for kind, keys in fails.items():
        items = sorted(keys.items())
        if len(items) <= 4:
            for key, (desc, rp) in items:
                chk.violation(key, desc, rp)
        else:
            desc, rp = items[0][1]
            chk.violation(f'conv:{kind}:many-mnemonics', desc + f' (and {len(items) - 1} more: '
                          + ' '.join(k for k, _ in items[1:10]) + ')', rp)
    fails.clear()


def conv_case(chk, asm, diss, mem, text, addr, fails, kind='?'):
    """Part 2 of the property for one text; returns a tag."""
    rp = {'kind': 'conv', 'text': text, 'addr': addr}
    mn = (text.split(None, 1) or ['?'])[0].upper()
    try:
        b1 = asm.assemble(text, addr)
    except Exception as e:
        conv_fail(chk, fails, kind, f'conv:exception:{type(e).__name__}:{mn}', f'assemble({text!r}, {addr}) raised {e!r}', rp)
        return 'exception'
    if not b1:
        return 'rejected'
    b1 = list(b1)
    if any(not (isinstance(b, int) and 0 <= b < 256) for b in b1):
        if 256 in b1 and re.search(r'\(\s*I[XY]\s*-', text.upper()):
            chk.violation('asm-index-minus-zero-byte-256', f'assemble({text!r}, {addr}) = {b1}: not a sequence of byte values', rp)
        else:
            conv_fail(chk, fails, kind, 'conv:non-byte:' + mn, f'assemble({text!r}, {addr}) = {b1}: not a sequence of byte values', rp)
        return 'non-byte'
    n = len(b1)
    for i, b in enumerate(b1):
        mem[(addr + i) & 65535] = b
    try:
        for name, d in diss:
            # disassemble exactly the assembled bytes (several statements if the decoder splits them)
            a, out, texts = addr, [], []
            try:
                while a < addr + n:
                    ins = d.disassemble(a & 65535, (a & 65535) + 1, 'n')[0]
                    texts.append(ins.operation)
                    out.extend(asm.assemble(ins.operation, a & 65535) if not ins.variant else ins.bytes)
                    a += len(ins.bytes)
            except Exception as e:
                conv_fail(chk, fails, kind, f'conv:exception:{type(e).__name__}:{mn}',
                          f'{name}: assemble({text!r}, {addr}) = {b1}; disassembling/reassembling them raised {e!r}', rp)
                return 'exception'
            if len(out) > n and a - len(ins.bytes) >= 65536 and out[:n] == b1:
                # the produced bytes wrap past 65535 and the decoder split them there: the tail
                # statement was decoded from the bytes at address 0.. (it reads on beyond the
                # produced bytes); only the produced prefix is comparable
                return 'ok-split-at-64K'
            if out != b1:
                conv_fail(chk, fails, kind, 'conv:' + mn,
                          f'{name}: assemble({text!r}, {addr}) = {b1}; disassembled as {texts}; reassembled to {out}', rp)
                return 'mismatch'
    finally:
        for i in range(n + 4):
            mem[(addr + i) & 65535] = 0
    return 'ok'


def e2e_converse(chk, mods):
    skoolkit, z80, disassembler, textutils = mods
    rng = chk.rng
    asm = z80.Assembler()
    mem = [0] * 65536
    diss = [(f'hex={hx},lower={lo}', disassembler.Disassembler(mem, Cfg(hx, lo, 'ALL', True)))
            for hx, lo in ((False, False), (True, True))]
    tmpls = templates(disassembler)
    chk.extra['templates'] = len(tmpls)
    fails = {}
    with warnings.catch_warnings():
        warnings.simplefilter('ignore')
        # complete: every template x every index/byte operand value in canonical spelling, incl. the (IX-0) forms
        for tmpl, kind in tmpls:
            if kind in ('index', 'index_arg'):
                cb = tmpl.count(',') == 2 or tmpl.split()[0] in ('RLC', 'RRC', 'RL', 'RR', 'SLA', 'SRA', 'SLL', 'SRL', 'BIT', 'RES', 'SET')
                for dd in (range(256) if chk.thorough or not cb else EDGE_BYTES):
                    for off in ('+%d' % dd, '-%d' % dd, '-$%02X' % dd, '+"%s"' % chr(dd) if 32 < dd < 127 and dd not in (34, 92) else '+%d' % dd):
                        text = tmpl.format(off, '1') if kind == 'index_arg' else tmpl.format(off)
                        r = conv_case(chk, asm, diss, mem, text, 32768, fails, kind)
                        chk.case('conv-index-' + r, ('ci', text))
            elif kind == 'no_arg':
                r = conv_case(chk, asm, diss, mem, tmpl, 0, fails, kind)
                chk.case('conv-noarg-' + r, ('cn', tmpl))
            elif kind == 'jr_arg':
                for a in EDGE_ADDRS:
                    for delta in range(-130, 134):
                        text = tmpl.format((a + delta) % 65536)
                        r = conv_case(chk, asm, diss, mem, text, a, fails, kind)
                        chk.case('conv-jr-' + r, ('cj', text, a))
        # relative jumps exist for NZ, Z, NC and C only: any other condition must be rejected, otherwise the
        # produced bytes are `LD r,B` + a stray byte, which do not disassemble to themselves
        for cc in ('PO', 'PE', 'P', 'M', 'po'):
            for a, tgt in ((0, 3), (32768, 32771), (65535, 2)):
                text = f'JR {cc},{tgt}'
                b = list(asm.assemble(text, a))
                chk.case('conv-jr-invalid-condition-' + ('accepted' if b else 'rejected'), ('cjx', text, a))
                if b:
                    chk.violation('asm-jr-invalid-condition',
                                  f"assemble({text!r}, {a}) = {b}: the Z80 has no JR {cc.upper()}; the bytes are LD r,B and a stray "
                                  "offset byte, which disassemble to other instructions (running past the produced bytes)",
                                  {'kind': 'conv', 'text': text, 'addr': a})
        # any instruction text the assembler accepts out of the malformed stream (registers in odd places, third
        # operands, bracketed numbers, limits of every operand range, ...); DEFx statements are data (e2e_data)
        jr_bad = re.compile(r'\s*JR\s+(PO|PE|P|M)\s*,', re.I)
        for text, addr in malformed_stream(chk, chk.scale(30000, 300000)):
            if text.strip()[:3].upper() == 'DEF' or jr_bad.match(text):
                continue
            r = conv_case(chk, asm, diss, mem, text, addr, fails, 'stream')
            chk.case('conv-stream-' + r, ('cs', text, addr if text.strip()[:2].upper() in ('JR', 'DJ') else 0),
                     {'kind': 'conv', 'text': text, 'addr': addr, 'result': r} if r == 'ok' and chk.rng.random() < 0.002 else None)
        by_kind = {}
        for tk in tmpls:
            by_kind.setdefault(tk[1], []).append(tk)
        kinds = sorted(by_kind)
        for n in range(chk.scale(50000, 400000)):
            tmpl, kind = rng.choice(by_kind[rng.choice(kinds)])
            addr = rng.choice(EDGE_ADDRS) if rng.random() < 0.7 else rng.randrange(65536)
            text, v = fill(rng, tmpl, kind, addr)
            text = mangle(rng, text)
            if has_pow(text):
                continue
            r = conv_case(chk, asm, diss, mem, text, addr, fails, kind)
            chk.case('conv-' + kind + '-' + r, ('cv', text, addr),
                     {'kind': 'conv', 'text': text, 'addr': addr, 'result': r} if n % 1500 == 3 else None)
    report_converse(chk, fails)


# --------------------------------------------------------------------------------------------

def run(chk):
    chk.rule = ('forward: every opcode slot (256 unprefixed, all CB/ED/DD/FD second bytes, all DDCB/FDCB fourth bytes) x operand '
                'bytes (edge set; all 256 in thorough) x boundary addresses 0..65535 incl. 65533-65535 x bases (6 + 36 two-letter) '
                'x {upper,lower} x {dec,hex} x opcode sets x wrap; full sweeps of every byte operand / displacement / jump offset '
                'in every base; DEFB/DEFM/DEFW/DEFS: every byte in every base, all strings over 10 special bytes of length 3 (4), '
                'random sublength structures; converse: every template of the disassembler tables x canonical index operands '
                '(all 256, + and -) and jump targets, plus grammar-generated spellings ($hex, %bin, "c", "\\"", expressions, odd '
                'whitespace, case). correspondence: model drivers vs real functions on rendered numbers (all byte values x bases x '
                'cfg), expression/soup texts, strings, splitting, case conversion; instruction level: Assembler._assemble vs asmInstr '
                'on rendered texts (1 (thorough: 4) per slot x base x cfg x boundary class + 2% of the rest), a malformed '
                'instruction stream (all mnemonics x operand pool incl. (IX-0), (IY+$7F), out-of-range values, wrong operand '
                'counts, odd separators/case) and grammar-generated spellings; Disassembler.disassemble vs disText on the same '
                'slots; @bytes directives of all variant sequences. non-trivial = distinct by content')
    chk.trusted += ['hand models lean/SkoolVerif/Model/OpText.lean + AsmEval.lean + AsmInstr.lean (Assembler._assemble and every '
                    'encoder) + DisText.lean/InstrDecode.lean (one Disassembler.disassemble step) tied by correspondence '
                    '(harness/props/c02.py)',
                    'translate/gen_c02.py: dump of the opcode tables of real Disassembler objects (Gen/C02Tables.lean), tied by '
                    'the `dis` correspondence (model rendering vs real disassemble on every slot)',
                    'CPython int()/eval()/re (modelled: pyInt, evalArith, scanQuoted, convNumsAux)']
    chk.assumptions += [
        'part 1 at instruction level is a theorem (instruction_roundtrip) for every slot x operand x address x base x '
        'configuration; the e2e sweep of the slots on the real code is kept as an independent check',
        'Gap: part 2 (assemble -> disassemble -> assemble) at instruction level is proved for the texts the disassembler emits, '
        'under any second configuration (instruction_converse), and at operand level for every spelling (operand_converse, '
        'index_converse, jr_converse); for arbitrary accepted spellings of whole instructions (odd white space, third operands, '
        '`LD B,(5)`, ...) it is e2e only',
        "model restrictions: code points < 256, no '**' operator in expressions (generators never emit it), ASCII-only case mapping",
        "'m' base on operands the assembler requires to be non-negative (RST n, IN A,(n), OUT (n),A, DEFS size) is outside the "
        "property ('negative where a signed operand is meaningful') and only counted",
        'variant opcode sequences (instruction.variant) are re-created from instruction.bytes, not from the text']
    mods = fresh_import('skoolkit', 'skoolkit.z80', 'skoolkit.disassembler', 'skoolkit.textutils')
    regen(chk)
    ok = chk.lake_build([PROPS, 'SkoolVerif.Prelude.Proto'])
    chk.audit(PROPS)
    if chk.thorough and ok:
        chk.leanchecker([PROPS])
    t = {'build+audit': round(chk.elapsed(), 1)}
    texts = {}
    for name, f in (('correspondence', correspondence), ('e2e_data', e2e_data), ('e2e_converse', e2e_converse),
                    ('e2e_forward', e2e_forward)):
        t0 = chk.elapsed()
        r = f(chk, mods)
        if name == 'e2e_forward':
            texts = r
        t[name] = round(chk.elapsed() - t0, 1)
    t0 = chk.elapsed()
    correspondence_instr(chk, mods, texts)
    t['correspondence_instr'] = round(chk.elapsed() - t0, 1)
    chk.extra['phase_seconds'] = t


def replay(chk, data):
    mods = fresh_import('skoolkit', 'skoolkit.z80', 'skoolkit.disassembler', 'skoolkit.textutils')
    skoolkit, z80, disassembler, textutils = mods
    asm = z80.Assembler()
    mem = [0] * 65536
    before = len(chk.violations)
    if data['kind'] == 'fwd':
        c = data['cfg']
        d = disassembler.Disassembler(mem, Cfg(c['hex'], c['lower'], c['opcodes'], c['wrap']))
        for i, b in enumerate(data['seq']):
            mem[(data['addr'] + i) & 65535] = b
        stats = {'variant': 0, 'variant-unassemblable': 0, 'excluded-m-nonneg': 0}
        check_forward(chk, asm, d, mem, c, tuple(data['seq']), data['addr'], data['base'], stats)
        report_forward(chk, stats)
    elif data['kind'] == 'data':
        c = data['cfg']
        sz = c.get('sizes', [8, 66, 1])
        d = disassembler.Disassembler(mem, Cfg(c['hex'], c['lower'], '', False, *sz))
        data_case(chk, asm, d, mem, c, data['dkind'], data['start'], list(data['data']), [tuple(s) for s in data['subs']])
    elif data['kind'] == 'bdir':
        snaskool, ctlparser, skoolutils = fresh_modules('skoolkit.snaskool', 'skoolkit.ctlparser', 'skoolkit.skoolutils')
        bs = list(data['bytes'])
        mem[32768:32768 + len(bs)] = bs
        cp = ctlparser.CtlParser()
        cp.parse_ctls([io.StringIO(f'c 32768\ni {32768 + len(bs) + 2}\n')])
        dis = snaskool.Disassembly(mem, cp, {'Opcodes': 'ALL'}, asm_hex=bool(data['hex']), asm_lower=bool(data['lower']))
        ins = dis.entries[0].instructions[0]
        bd = [x for x in ins.asm_directives if x.startswith('bytes=')]
        back = list(skoolutils.parse_asm_bytes_directive(bd[0])) if bd else None
        if ins.variant and back != list(ins.bytes):
            chk.violation('variant-bytes-directive', f'@bytes directive {bd} of {ins.operation!r} is read back as {back}, not '
                          f'{list(ins.bytes)}', data)
    elif data['kind'] == 'conv':
        diss = [(f'hex={hx},lower={lo}', disassembler.Disassembler(mem, Cfg(hx, lo, 'ALL', True)))
                for hx, lo in ((False, False), (True, True))]
        with warnings.catch_warnings():
            warnings.simplefilter('ignore')
            fails = {}
            conv_case(chk, asm, diss, mem, data['text'], data['addr'], fails)
            report_converse(chk, fails)
    return len(chk.violations) > before
