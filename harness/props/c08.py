"""C08 — no ROM corruption, register ranges, correct 128K paging.

Theorems: lean/SkoolVerif/Props/C08.lean over the models generated from simulator.py /
cmiosimulator.py (translator tie, validated per slot against the four real simulators here) and the
hand model of pagingtracer.Memory + PagingTracer.write_port (correspondence here).
E2E: random programs on the real simulators with the property's own oracle."""
import simcorr
import simgen
from framework import fresh_import
from simcheck import t_bias, check_step_oracle, single_step, guarded

PROPS = 'SkoolVerif.Props.C08'
PROPS_C = 'SkoolVerif.Props.C08C'


def paging_variants(chk, pagingtracer, skoolutils, skoolmacro, only=None):
    """The same write histories through the sibling code paths that decode port 0x7FFD on their own:
    PagingTracer.write_port_with_border_list (trace.py's tracer when a border list is kept) on pagingtracer.Memory, and
    skoolmacro.PagingTracer on skoolutils.Memory (the memory of a 128K skool file: #SIM, #AUDIO, #TSTATES).  Oracle: the
    property's statement (mapping = last accepted write, lock absorbing, banks 5 and 2 fixed, one bank written)."""
    rng = chk.rng

    class Sim:
        pass

    class BorderTr(pagingtracer.PagingTracer):
        def __init__(self, memory, out7ffd):
            self.simulator = Sim()
            self.simulator.memory = memory
            self.out7ffd = out7ffd
            self.border = []
            self.frame_duration = 70908
            self.outfe = 0
            self.outfffd = 0
            self.ay = [0] * 16

        def write(self, p, v):
            regs = [0] * 30
            self.write_port_with_border_list(regs, p, v, 0)

    def make(kind, o0):
        if kind == 'border-list':
            mem = pagingtracer.Memory([[b] * 16384 for b in range(8)], o0)
            mem.roms = ([100] * 16384, [101] * 16384)
            mem.out7ffd(o0)
            tr = BorderTr(mem, o0)
            return mem, tr.write
        mem = skoolutils.Memory(banks=[[b] * 16384 for b in range(8)], roms=([100] * 16384, [101] * 16384))
        mem.out7ffd(o0)
        tr = skoolmacro.PagingTracer(mem, o0, 0, [0] * 16)
        return mem, lambda p, v: tr.write_port([0] * 30, p, v, 0)

    ports = (0x7FFD, 0x7FFF, 0xFFFD, 0x3FFD, 0x0000, 0x00FD, 0x8000, 0x0002, 0x7FFC, 0xBFFD, 0x1FFD)
    vals = (0, 1, 7, 8, 0x10, 0x17, 0x20, 0x27, 0x30, 0x3F, 0xFF, 0xC0, 0x04, 0x0C)
    hists = []
    for o0 in (0, 0x10, 0x20, 7):
        for p1 in ports:
            for v1 in vals:
                hists.append((o0, [(p1, v1)]))
                for v2 in (0, 5, 0x10, 0x25):
                    hists.append((o0, [(p1, v1), (0x7FFD, v2)]))
    for _ in range(chk.scale(200, 5000)):
        hists.append((rng.randrange(256), [(rng.choice(ports + (rng.randrange(65536),)), rng.randrange(256)) for _ in range(rng.randrange(1, 6))]))
    if only:
        hists = [(only[1], [tuple(w) for w in only[2]])]
    for kind in ('border-list', 'skool-memory'):
        if only and kind != only[0]:
            continue
        for o0, ws in hists:
            try:
                mem, write = make(kind, o0)
                last = o0
                bad = None
                for i, (p, v) in enumerate(ws):
                    write(p, v)
                    if (p >> 15) & 1 == 0 and (p >> 1) & 1 == 0 and (last >> 5) & 1 == 0:
                        last = v
                    if mem[0] != 100 + ((last >> 4) & 1):
                        bad = 'paging-rom-slot'
                    elif mem[0xC000] != last & 7:
                        bad = 'paging-bank-at-c000'
                    elif mem[0x4000] != 5 or mem[0x8000] != 2:
                        bad = 'paging-fixed-banks'
                    elif mem.o7ffd != last:
                        bad = 'paging-latch'
                    if bad:
                        break
                if not bad:
                    # writes reach exactly one physical bank
                    mem[0xC001] = 0xAA
                    hit = [b for b in range(8) if mem.banks[b][1] == 0xAA]
                    if hit != [last & 7]:
                        bad = 'paging-one-bank-written'
                desc = f'visible ROM {mem[0]}, bank at C000 {mem[0xC000]}, latch {mem.o7ffd}, spec last accepted {last}'
            except Exception as e:
                bad, desc = 'paging-exception', f'{type(e).__name__}: {e}'
            chk.case(f'hist:{kind}', (kind, o0, tuple(ws)), {'path': kind, 'o7ffd0': o0, 'writes': ws} if len(ws) == 2 and o0 == 0x10 and ws[0][1] == 0x27 else None)
            if bad:
                chk.violation(f'{bad}:{kind}', f'{kind}: o7ffd0={o0} writes={ws}: {desc}', {'kind': 'paging-variant', 'path': kind, 'o0': o0, 'ws': ws})
                break


def paging(chk, pagingtracer):
    """pagingtracer.Memory + PagingTracer.write_port vs the Mem128 model, and the property's own
    oracle (mapping = f(last accepted write), lock absorbing) on the real classes."""
    rng = chk.rng
    ops, impl = [], []

    class Sim:
        pass

    class Tr(pagingtracer.PagingTracer):
        def __init__(self, memory, out7ffd):
            self.simulator = Sim()
            self.simulator.memory = memory
            self.out7ffd = out7ffd
            self.border = 0
            self.outfe = 0
            self.outfffd = 0
            self.ay = [0] * 16

    banks = [[b] * 16384 for b in range(8)]
    def hist(o0, ws):
        mem = pagingtracer.Memory([list(b[:4]) + b[4:] for b in banks] and banks, o0)
        mem.roms = ([100] * 16384, [101] * 16384)
        mem.out7ffd(o0)
        tr = Tr(mem, o0)
        last = o0
        for p, v in ws:
            tr.write_port([0] * 30, p, v, 0)
            # independent spec
            if (p >> 15) & 1 == 0 and (p >> 1) & 1 == 0 and (last >> 5) & 1 == 0:
                last = v
            key = None
            if mem[0] != 100 + ((last >> 4) & 1):
                key = 'paging-rom-slot'
            elif mem[0xC000] != last & 7:
                key = 'paging-bank-at-c000'
            elif mem[0x4000] != 5 or mem[0x8000] != 2:
                key = 'paging-fixed-banks'
            if key:
                chk.violation(key, f'o7ffd0={o0} writes={ws}: visible ROM {mem[0]}, bank at C000 {mem[0xC000]}, spec last accepted {last}',
                              {'kind': 'paging', 'o0': o0, 'ws': ws})
                break
        return mem.o7ffd, tr.out7ffd

    def add(o0, ws, tag):
        a, b = hist(o0, ws)
        ops.append(f'hist {o0} ' + ' '.join(f'{p}:{v}' for p, v in ws))
        impl.append(f'{a} {b}')
        chk.case(tag, (o0, tuple(ws)), {'o7ffd0': o0, 'writes': ws[:4]} if len(ws) == 2 else None)

    ports = (0x7FFD, 0x7FFF, 0xFFFD, 0x3FFD, 0x0000, 0x00FD, 0x8000, 0x0002, 0x7FFC, 0xBFFD, 0x1FFD)
    vals = (0, 1, 7, 8, 0x10, 0x17, 0x20, 0x27, 0x30, 0x3F, 0xFF, 0xC0)
    # exhaustive over length <= 2 on the boundary alphabets (quick) / all 256 values at the decoding port (thorough)
    for o0 in (0, 0x10, 0x20, 7):
        for p1 in ports:
            for v1 in vals:
                add(o0, [(p1, v1)], 'hist1')
                for p2 in (0x7FFD, 0x7FFF, 0x00FD):
                    for v2 in (0, 5, 0x10, 0x25):
                        add(o0, [(p1, v1), (p2, v2)], 'hist2')
    if chk.thorough:
        for v1 in range(256):
            for v2 in range(256):
                add(0, [(0x7FFD, v1), (0x7FFD, v2)], 'hist2-all')
    for _ in range(chk.scale(400, 20000)):
        ws = [(rng.choice(ports + (rng.randrange(65536),)), rng.randrange(256)) for _ in range(rng.randrange(1, 6))]
        add(rng.randrange(256), ws, 'hist-rand')
    for _ in range(chk.scale(300, 5000)):
        o, a = rng.randrange(256), rng.choice(simcorr.BOUND16 + (rng.randrange(65536),))
        mem = pagingtracer.Memory(banks, o)
        mem.roms = (['r0'] * 16384, ['r1'] * 16384)
        mem.out7ffd(o)
        arr = mem.memory[a // 0x4000]
        if arr is mem.roms[0] or arr is mem.roms[1]:
            r = f'rom {0 if arr is mem.roms[0] else 1} {a % 16384}'
        else:
            r = f'bank {[i for i in range(8) if mem.banks[i] is arr][0]} {a % 16384}'
        ops.append(f'slot {o} {a}')
        impl.append(r)
        chk.case('slot', None)
    model = chk.run_driver('Paging', ops)
    chk.compare('Mem128 model vs pagingtracer.Memory/PagingTracer', ops, impl, model)


def paging_programs(chk, classes, pagingtracer, only=None, skool=None):
    """The paging clause on the four real simulators (the C ones page by themselves, with or without a
    tracer): a Z80 program writes a history of values to ports with OUT (C),A, then reads 0xC000 (every
    bank holds its own number), reads the ROM slot, and writes a marker to 0xC001.  Oracle: the
    property's own statement (mapping = last accepted write; lock absorbing; one physical bank written;
    banks 5 and 2 fixed)."""
    rng = chk.rng
    ORG, RES, MARK = 0x8000, 0x8100, 0xAA

    class Tr(pagingtracer.PagingTracer):
        def __init__(self, simulator, out7ffd):
            self.simulator = simulator
            self.out7ffd = out7ffd
            self.outfffd = 0
            self.outfe = 0
            self.border = 0
            self.ay = [0] * 16

    def program(ws):
        code = []
        for p, v in ws:
            code += [0x01, p & 255, p >> 8, 0x3E, v, 0xED, 0x79]      # LD BC,p; LD A,v; OUT (C),A
        code += [0x3A, 0x00, 0xC0, 0x32, RES & 255, RES >> 8]          # LD A,(C000); LD (RES),A
        code += [0x3A, 0x00, 0x00, 0x32, (RES + 1) & 255, RES >> 8]    # LD A,(0000); LD (RES+1),A
        code += [0x3E, MARK, 0x32, 0x01, 0xC0]                         # LD A,MARK; LD (C001),A
        return code

    def one(name, cls, tracer, o0, ws, kind='paging'):
        code = program(ws)
        try:
            if kind == 'skool':
                # the memory of a 128K skool file with the tracer #SIM attaches (skoolutils.Memory + skoolmacro.PagingTracer)
                skoolutils, skoolmacro = skool
                memory = skoolutils.Memory(banks=[[b] * 0x4000 for b in range(8)], roms=([100] * 0x4000, [101] * 0x4000))
                memory.out7ffd(o0)
            else:
                memory = pagingtracer.Memory([[b] * 0x4000 for b in range(8)], o0)
                memory.roms = ([100] * 0x4000, [101] * 0x4000)
                memory.out7ffd(o0)
            for i, b in enumerate(code):
                memory[ORG + i] = b
            sim = cls(memory, {'PC': ORG, 'SP': 0xBFF0}, config={'frame_duration': 70908, 'int_active': 36})
            if tracer:
                sim.set_tracer(skoolmacro.PagingTracer(sim.memory, o0, 0, [0] * 16) if kind == 'skool' else Tr(sim, o0))
            sim.run(ORG, ORG + len(code))
        except Exception as e:
            chk.violation(f'paging-program-exception:{name}:{kind}', f'{name} ({kind} memory): 7ffd={o0:#x}, OUT history {ws}: {type(e).__name__}: {e}',
                          {'kind': 'paging-program', 'impl': name, 'tracer': tracer, 'o0': o0, 'ws': ws, 'mem': kind})
            return False
        mem = sim.memory
        last = o0
        for p, v in ws:
            if p & 0x8002 == 0 and last & 0x20 == 0:
                last = v
        # the program itself lives in bank 2: paged at 0xC000 its first byte is read back there
        want = (code[0] if last & 7 == 2 else last & 7, 100 + ((last >> 4) & 1), [last & 7])
        got = (mem.banks[2][RES - 0x8000], mem.banks[2][RES + 1 - 0x8000], [b for b in range(8) if mem.banks[b][1] == MARK and not (b == 2 and code[1] == MARK and last & 7 != 2)])   # bank 2 holds the program: its own byte 1 may equal the marker
        if tracer:
            # the memory object as the tools read it afterwards (snapshot writers, #PEEK after #SIM): same mapping
            want += ((last & 7, 100 + ((last >> 4) & 1)),)
            got += ((mem[0xF000], mem[0x0005]),)
        fixed = all(v == 5 for v in mem.banks[5][2:64]) and all(mem.banks[2][i] == 2 for i in range(0x200, 0x240)) \
            and all(v == 100 for v in mem.roms[0][:8]) and all(v == 101 for v in mem.roms[1][:8])
        chk.case(f'paging-prog:{name}' + (':skool-memory' if kind == 'skool' else ''), (name, kind, tracer, o0, tuple(ws)), {'impl': name, 'tracer': tracer, 'o7ffd0': o0, 'writes': ws} if len(ws) == 3 and o0 == 0 else None)
        if got != want or not fixed:
            chk.violation(f'paging-program:{name}' + (':skool-memory' if kind == 'skool' else ''), f'{name}{"+tracer" if tracer else ""} ({kind} memory): 7ffd={o0:#x}, OUT history {[(hex(p), hex(v)) for p, v in ws]}: '
                          f'bank read at C000 / ROM read at 0000 / banks written = {got}, last accepted write {last:#x} gives {want}; fixed banks and ROMs intact: {fixed}',
                          {'kind': 'paging-program', 'impl': name, 'tracer': tracer, 'o0': o0, 'ws': ws, 'mem': kind})
            return False
        return True

    if only:
        name, tracer, o0, ws = only[:4]
        return one(name, dict(classes)[name], tracer, o0, [tuple(w) for w in ws], only[4] if len(only) > 4 else 'paging')
    vals = (0x00, 0x01, 0x07, 0x10, 0x11, 0x17, 0x20, 0x21, 0x30, 0x31, 0x27, 0xFF, 0xC3)
    ports = (0x7FFD, 0x7FFD, 0x7FFD, 0x00FD, 0x3FFD, 0x7FFF, 0xFFFD, 0x7FFC)
    hists = []
    for o0 in (0x00, 0x03, 0x10):
        for v1 in vals:
            for v2 in ((0x01, 0x04, 0x10, 0x14, 0x20, 0x33) if chk.thorough else (0x01, 0x14)):
                hists.append((o0, [(0x7FFD, v1), (0x7FFD, v2)]))
                hists.append((o0, [(0x7FFD, v1), (0x7FFD, v1 | 0x20), (0x7FFD, v2)]))    # lock while keeping the mapping
                hists.append((o0, [(0x7FFD, v1), (0x7FFD, v1 ^ 0x20), (0x7FFD, v2)]))
    for _ in range(chk.scale(60, 4000)):
        hists.append((rng.choice((0, 0, 0x10, 0x07, 0x20, rng.randrange(256))),
                      [(rng.choice(ports + (rng.randrange(65536),)), rng.choice(vals + (rng.randrange(256),))) for _ in range(rng.randrange(1, 5))]))
    # the mapping a simulator starts from (Memory.convert() for the C ones: its own copy of the bank / ROM selection): every
    # bank x ROM x lock value with no write at all, and with a write that must be rejected
    init_hists = [(o0, []) for o0 in range(64)] + [(o0, [(0x7FFF, o0 ^ 7)]) for o0 in (0x07, 0x14, 0x25, 0x3E)]
    for name, cls in classes:
        # the Python simulators page through the tracer only; the C ones also without it
        for tracer in ((True,) if name.startswith('py') else (False, True)):
            hs = hists if not name.startswith('py') or chk.thorough else hists[::3]
            hs = (init_hists[::5] if name.startswith('py') else init_hists) + hs
            for o0, ws in hs:
                if not one(name, cls, tracer, o0, ws):
                    break
            if skool and tracer:
                # #SIM / #AUDIO / #TSTATES run the same simulators on the skool file's own Memory class
                for o0, ws in (init_hists[::5] if name.startswith('py') else init_hists) + hists[1::4]:
                    if not one(name, cls, tracer, o0, ws, 'skool'):
                        break


def programs(chk, classes):
    """E2E: random programs on the real simulators; ROM/ranges/T checked after every instruction."""
    rng = chk.rng
    for name, cls in classes:
        for n in range(chk.scale(40, 1500)):
            mem = [rng.randrange(256) for _ in range(65536)] if n % 3 else [0] * 65536
            rom = list(mem[:0x4000])
            start = rng.choice((0x8000, 0x3FF0, 0x4000, 0xFFF0, rng.randrange(65536)))
            for k in range(300):
                mem[(start + k) % 65536] = rng.choice((rng.randrange(256), 0x36, 0x77, 0xED, 0xB0, 0xDD, 0xFD, 0xCB, 0xE5, 0xCD, 0x22, 0x32, 0xD3, 0xDB))
            rom = list(mem[:0x4000]) if start >= 0x4000 or True else rom
            sim = cls(list(mem) if name.startswith('py') else mem[:], {'SP': rng.choice((0x4001, 0x0002, 0x3FFF, 0xFFFF, rng.randrange(65536))),
                                                                        'HL': rng.randrange(65536), 'DE': rng.randrange(65536),
                                                                        'BC': rng.randrange(65536), 'IX': rng.randrange(65536)},
                      {'iff': rng.randrange(2), 'im': rng.randrange(3), 'tstates': rng.randrange(70000)})
            pc = start
            t_prev = sim.registers[25]
            bad = None
            for step in range(chk.scale(150, 400)):
                try:
                    sim.run(pc)
                except Exception as e:       # the code under test must not raise, whatever the program does
                    bad = ('exception', f'{type(e).__name__}: {e} (PC={pc})')
                    break
                r = sim.registers
                pc = r[24]
                if r[25] < t_prev:
                    bad = ('clock-decreased', f'T {t_prev} -> {r[25]}')
                t_prev = r[25]
                for i in range(24):
                    if not 0 <= r[i] < (65536 if i == 12 else 256):
                        bad = ('register-range', f'register {i} = {r[i]}')
                if not (0 <= r[24] < 65536 and r[26] in (0, 1) and r[27] in (0, 1, 2) and r[28] in (0, 1) and 0 <= r[29] < 65536):
                    bad = ('state-range', f'PC/IFF/IM/HALT/MEMPTR = {list(r[24:30])}')
                if bad:
                    break
            m = sim.memory
            if bad and bad[0] == 'exception':
                pass
            elif not bad and list(m[:0x4000]) != rom:
                a = [i for i in range(0x4000) if m[i] != rom[i]][0]
                bad = ('rom-write', f'ROM address {a} changed from {rom[a]} to {m[a]}')
            if not bad and any(not 0 <= v < 256 for v in m):
                bad = ('cell-range', 'memory cell out of 0..255')
            chk.case(f'prog:{name}', ('prog', name, n), {'impl': name, 'start': start, 'steps': step + 1} if n < 2 else None)
            if bad:
                chk.violation(f'{bad[0]}:{name}:program', f'{name}: program at {start} after {step + 1} instructions: {bad[1]}',
                              {'kind': 'program', 'impl': name, 'seed': [chk.seed, n]})


def run(chk):
    chk.rule = ('single-step: all 1792 dispatch slots x N boundary-biased random in-range states (registers, SP/PC at 16K/64K '
                'boundaries, frame positions around the contention window) on Python plain/cmio and C plain/cmio simulators, '
                'each result checked against the property oracle and against the generated Lean model; paging: write '
                'histories (exhaustive over boundary alphabets up to length 2; all 256^2 at the decoding port in thorough; random '
                'up to length 5), also through PagingTracer.write_port_with_border_list and through skoolutils.Memory + skoolmacro.PagingTracer (the 128K skool-file memory of #SIM), '
                'and as Z80 programs on all four simulators on both memory classes; programs: random code executed on the real simulators with ROM/range/T checks; '
                'loop-at-once closures djnz_fast/ldir_fast (config fast_djnz/fast_ldir) on DJNZ/LDIR/LDDR cases crossing the ROM boundary, the 64K wrap and their own opcode; '
                'after a broken proof: every slot whose Python closure / C handler changed x operand-byte boundaries x address operands on every 16K/64K edge x counters x interrupt-window edges. '
                'non-trivial = distinct (impl, slot, state) / distinct history')
    chk.trusted += ['translator translate/py2lean.py (Python AST subset -> Lean; validated per slot each run)',
                    'translate/cdispatch.py (C dispatch initialisers -> Instr)',
                    'hand model Prelude/Machine.lean Mem128 (pagingtracer.Memory + PagingTracer.write_port) tied by correspondence',
                    'translate/c2lean.py (C handler bodies -> Lean, see C06): Props/C08C.lean lifts ROM/range/clock to runs of the translated C handlers; the C run loops are differential only']
    chk.assumptions += ['range invariant is proved for every closure of both simulators with every well-formed argument tuple '
                        '(ranges_preserved, no closure excluded: translate/gen_range.py PENDING is empty; the closures in its '
                        'MANUAL table are proved by the closure-independent tactic rinv_manual of Proofs/RangeManual.lean)',
                        'C simulators: ROM/range/clock over runs of the translated C handlers are theorems (Props/C08C.lean, under the C clock bound and, on 128K, an attached tracer); the C paging latch (OUT macro) is covered by the paging programs e2e and C06 correspondence, not by theorem',
                        'skoolutils.Memory (@bank/#BANK) is not modelled in Lean: its out7ffd/convert are covered by the write histories and paging programs (e2e oracle = the property statement)',
                        'Simulator.djnz_fast / ldir_fast (whole loop per call) are not translated: property oracle on directed loop cases (e2e), equality with the per-iteration closures in C06']
    simulator, cmiosimulator, pagingtracer, skoolutils, skoolmacro = fresh_import(
        'skoolkit.simulator', 'skoolkit.cmiosimulator', 'skoolkit.pagingtracer', 'skoolkit.skoolutils', 'skoolkit.skoolmacro')
    gen_ok = simgen.regen(chk)
    ok = chk.lake_build([PROPS, 'SkoolVerif.Prelude.SimProto', 'SkoolVerif.Gen.CmioHandlers']) if gen_ok else False
    chk.audit(PROPS)
    if chk.thorough and ok:
        chk.leanchecker([PROPS])
    # the same claims for the C simulators: corollaries (Props/C08C.lean) of C06's c_run_eq_python over the C
    # handler bodies translated from c/csimulator.c on this run (cgencheck.regen_cgen)
    import cgencheck
    cgen_ok = cgencheck.regen_cgen(chk) if gen_ok else False
    if ok and cgen_ok:
        chk.lake_build([PROPS_C])
    chk.audit(PROPS_C)
    import cbuild
    CS, CC = cbuild.build(chk.scratch)
    impls = [('py-plain', simcorr.PySim(simulator.Simulator), 'Sim', False),
             ('py-cmio', simcorr.PySim(cmiosimulator.CMIOSimulator), 'Cmio', False),
             ('c-plain', simcorr.CSim(CS), 'Sim', True),
             ('c-cmio', simcorr.CSim(CC), 'Cmio', True)]
    def oracle_sweep(name, wrapper, tbl, op, states):
        for st in states:
            out = wrapper.step(*st)
            bad = check_step_oracle(st[0], st[1], st[2], out)
            chk.case(f'{name}:{tbl}', (name, tbl, op, tuple(st[0]), tuple(st[1])))
            if bad:
                chk.violation(f'{bad[0]}:{name}:{tbl}:{op:02X}', f'{name} slot {tbl} {op:02X}: {bad[1]}',
                              {'kind': 'step', 'impl': name, 'state': [st[0], st[1], {str(k): v for k, v in st[2].items()}, st[3], st[4]]})

    from simcheck import suspect_slots, c_suspect_slots, directed_states, edge_states
    if gen_ok and ok:
        single_step(chk, impls)
    else:
        # broken translator/proof: evaluate the property's oracle on the real code per slot
        chk.note('model unavailable: running the per-slot oracle on the real simulators only')
        for name, wrapper, driver, is_c in impls:
            for tbl, op in simcorr.all_slots():
                oracle_sweep(name, wrapper, tbl, op, (simcorr.rand_state(chk.rng, tbl, op, t_bias=t_bias) for _ in range(chk.scale(10, 60))))
    if chk.breaks:
        # directed search (DESIGN §5): the slots whose Python closure / C handler / dispatch row differs from the committed
        # translation get an exhaustive boundary sweep of their operand bytes plus a deterministic sweep of every address
        # operand over the 16K-region and 64K edges, loop counters, R wrap and the interrupt-window edges
        py_sus, c_sus = suspect_slots(chk), c_suspect_slots(chk)
        for name, wrapper, driver, is_c in impls:
            sus = c_sus if is_c else py_sus
            light = len(sus) > 40
            for tbl, op in sus[:700]:
                oracle_sweep(name, wrapper, tbl, op, directed_states(chk.rng, tbl, op, 30 if light else 200))
                oracle_sweep(name, wrapper, tbl, op, edge_states(chk.rng, tbl, op, light=light))
    classes = [('py-plain', simulator.Simulator), ('py-cmio', cmiosimulator.CMIOSimulator), ('c-plain', CS), ('c-cmio', CC)]
    guarded(chk, 'paging', paging, chk, pagingtracer)
    guarded(chk, 'paging-variants', paging_variants, chk, pagingtracer, skoolutils, skoolmacro)
    guarded(chk, 'programs', programs, chk, classes)
    guarded(chk, 'paging-programs', paging_programs, chk, classes, pagingtracer, skool=(skoolutils, skoolmacro))
    guarded(chk, 'fast-loops', fast_loops, chk, simulator)
    guarded(chk, 'interrupt-oracle', interrupt_oracle, chk, classes)


def interrupt_oracle(chk, classes, only=None):
    """accept_interrupt (the one store path outside the opcode closures) on all four simulators: SP on the ROM / 64K
    edges, IM 0-2, vector table anywhere; oracle: no ROM write, registers / cells in range, clock not decreasing."""
    import cgencheck
    rng = chk.rng
    for name, cls in classes:
        w = (cgencheck.CInt48 if name.startswith('c-') else cgencheck.PyInt48)(cls)
        states = [only] if only else cgencheck.interrupt_states(rng, chk.scale(500, 4000))
        for regs, fields, mem, prev in states:
            mem = {int(k): v for k, v in mem.items()}
            if only and only[4] != name:
                continue
            out = w.step(regs, fields, mem, [], [0, 0, 0, 0], prev)
            bad = check_step_oracle(regs, fields, mem, out)
            chk.case(f'interrupt:{name}', (name, 'int', tuple(regs), tuple(fields), prev))
            if bad:
                chk.violation(f'{bad[0]}:{name}:accept_interrupt', f'{name} accept_interrupt(prev_pc={prev}) with SP={regs[12]} PC={fields[0]} IM={fields[3]}: {bad[1]}',
                              {'kind': 'interrupt', 'impl': name, 'prev': prev, 'state': [regs, fields, {str(k): v for k, v in mem.items()}]})
                if only:
                    return True
    return False


def fast_loops(chk, simulator, only=None):
    """The property's oracle on the loop-at-once closures Simulator.djnz_fast / ldir_fast (config fast_djnz / fast_ldir:
    trace.py without -v, #SIM, #AUDIO, #TSTATES): no ROM write, registers and cells in range, clock not decreasing."""
    import simcheck
    found = simcheck.fast_vs_iterated(chk, simulator.Simulator, None, only=only, oracle_only=True)
    for what, key, desc, rep in found:
        if what == 'oracle':
            chk.violation(key, desc, rep)
    return bool(found)


def replay(chk, data):
    simulator, cmiosimulator, pagingtracer = fresh_import('skoolkit.simulator', 'skoolkit.cmiosimulator', 'skoolkit.pagingtracer')
    if data['kind'] == 'step':
        import cbuild
        CS, CC = cbuild.build(chk.scratch)
        w = {'py-plain': lambda: simcorr.PySim(simulator.Simulator), 'py-cmio': lambda: simcorr.PySim(cmiosimulator.CMIOSimulator),
             'c-plain': lambda: simcorr.CSim(CS), 'c-cmio': lambda: simcorr.CSim(CC)}[data['impl']]()
        regs, fields, mem, ins, tracers = data['state']
        mem = {int(k): v for k, v in mem.items()}
        out = w.step(regs, fields, mem, ins, tracers)
        return check_step_oracle(regs, fields, mem, out) is not None
    if data['kind'] == 'paging':
        n0 = len(chk.violations)
        class C:  # minimal stand-in
            pass
        # re-run the history through the real classes with the same oracle
        import types
        tmp = types.SimpleNamespace(rng=chk.rng, violation=chk.violation, case=lambda *a, **k: None, scale=lambda q, t: 0,
                                    thorough=False, run_driver=lambda *a: None, compare=lambda *a: None)
        # direct evaluation
        mem = pagingtracer.Memory([[b] * 16384 for b in range(8)], data['o0'])
        mem.roms = ([100] * 16384, [101] * 16384)
        mem.out7ffd(data['o0'])
        class Tr(pagingtracer.PagingTracer):
            pass
        tr = Tr()
        tr.simulator = types.SimpleNamespace(memory=mem)
        tr.out7ffd = data['o0']; tr.border = 0; tr.outfe = 0; tr.outfffd = 0; tr.ay = [0] * 16
        last = data['o0']
        for p, v in data['ws']:
            tr.write_port([0] * 30, p, v, 0)
            if (p >> 15) & 1 == 0 and (p >> 1) & 1 == 0 and (last >> 5) & 1 == 0:
                last = v
            if mem[0] != 100 + ((last >> 4) & 1) or mem[0xC000] != last & 7 or mem[0x4000] != 5 or mem[0x8000] != 2:
                return True
        return False
    if data['kind'] == 'paging-program':
        import cbuild
        CS, CC = cbuild.build(chk.scratch)
        simulator, cmiosimulator, pagingtracer, skoolutils, skoolmacro = fresh_import(
            'skoolkit.simulator', 'skoolkit.cmiosimulator', 'skoolkit.pagingtracer', 'skoolkit.skoolutils', 'skoolkit.skoolmacro')
        classes = [('py-plain', simulator.Simulator), ('py-cmio', cmiosimulator.CMIOSimulator), ('c-plain', CS), ('c-cmio', CC)]
        return not paging_programs(chk, classes, pagingtracer, only=(data['impl'], data['tracer'], data['o0'], data['ws'], data.get('mem', 'paging')),
                                   skool=(skoolutils, skoolmacro))
    if data['kind'] == 'paging-variant':
        pagingtracer, skoolutils, skoolmacro = fresh_import('skoolkit.pagingtracer', 'skoolkit.skoolutils', 'skoolkit.skoolmacro')
        n0 = len(chk.violations)
        paging_variants(chk, pagingtracer, skoolutils, skoolmacro, only=(data['path'], data['o0'], data['ws']))
        return len(chk.violations) > n0
    if data['kind'] == 'fast':
        (simulator,) = fresh_import('skoolkit.simulator')
        return fast_loops(chk, simulator, only=tuple(data['case']))
    if data['kind'] == 'interrupt':
        import cbuild
        CS, CC = cbuild.build(chk.scratch)
        simulator, cmiosimulator = fresh_import('skoolkit.simulator', 'skoolkit.cmiosimulator')
        classes = [('py-plain', simulator.Simulator), ('py-cmio', cmiosimulator.CMIOSimulator), ('c-plain', CS), ('c-cmio', CC)]
        regs, fields, mem = data['state']
        return interrupt_oracle(chk, classes, only=(regs, fields, mem, data['prev'], data['impl']))
    if data['kind'] == 'group-exception':
        n0 = len(chk.violations)
        run(chk)
        return len(chk.violations) > n0
    return True
