"""C01 end-to-end part: random memory images + random well-formed control files through the real
sna2skool.main and skool2bin.main (in-process), byte compare outside ignored blocks.

The generator builds the intended tiling first (so the set of ignored addresses is known
independently of CtlParser) and then renders it as control-file text in varied syntactic forms."""
import contextlib
import io
import os
import re

OPCODE_SETS = ('', '', 'ALL', 'ALL', 'ED63,ED6B', 'ED70,ED71', 'IM', 'NEG', 'RETN', 'XYCB', 'IM,NEG,XYCB')
BASE_PFX = ('', '', '', 'b', 'c', 'd', 'h', 'm', 'n')
WORDS = ('data', 'Routine', 'x', 'table of values', 'the {brace}', 'semi;colon', 'a "quoted" word', 'tail.', '#R32768',
         'long comment that needs to be wrapped over several lines when the line width is small enough')


# --------------------------------------------------------------------------------------
# memory images
# --------------------------------------------------------------------------------------

def gen_bytes(rng, n):
    """Run-structured byte string mixing code-like, text-like, constant and random stretches."""
    out = []
    while len(out) < n:
        k = rng.choice((1, 2, 3, 5, 8, 13, 30))
        kind = rng.randrange(9)
        if kind == 0:
            out += [rng.choice((0, 0, 255, rng.randrange(256)))] * (k * rng.choice((1, 1, 1, 12)))
        elif kind == 1:
            out += [rng.choice((32, 34, 92, 94, 96, 65, 97, 126, 127, 128 + 65, 128 + 34, 31, 48, 59, 44)) for _ in range(k)]
        elif kind == 2:
            out += [rng.randrange(32, 127) for _ in range(k)]
        elif kind == 3:
            # prefixed opcodes and their odd corners
            for _ in range(k):
                out += rng.choice(([0xED, rng.choice((0x63, 0x6B, 0x70, 0x71, 0x4E, 0x4C, 0x55, 0x7E, 0x43, 0xB0, rng.randrange(256)))],
                                   [rng.choice((0xDD, 0xFD)), rng.choice((0x36, 0x21, 0xCB, 0x09, 0x34, 0x46, 0xE9, 0xDD, 0xFD, 0xED, rng.randrange(256)))],
                                   [rng.choice((0xDD, 0xFD)), 0xCB, rng.randrange(256), rng.randrange(256)],
                                   [0xCB, rng.randrange(256)]))
        elif kind == 4:
            # relative jumps with extreme offsets, RSTs, 3-byte instructions
            for _ in range(k):
                out += rng.choice(([rng.choice((0x18, 0x10, 0x20, 0x38)), rng.choice((0, 1, 127, 128, 129, 254, 255, rng.randrange(256)))],
                                   [rng.choice((0xC7, 0xCF, 0xD7, 0xFF))],
                                   [rng.choice((0xC3, 0xCD, 0x21, 0x22, 0x3A, 0x01)), rng.randrange(256), rng.randrange(256)],
                                   [rng.choice((0x3E, 0x06, 0xD3, 0xDB, 0xFE, 0xC6)), rng.choice((0, 255, 128, 34, 92, rng.randrange(256)))]))
        elif kind == 5:
            out += [rng.choice((0, 0, 1, 255))] * (2 * k)
        else:
            out += [rng.randrange(256) for _ in range(k)]
    return out[:n]


def gen_image(rng, big=False):
    """Returns (org, data): the bytes of a .bin file loaded at org."""
    n = rng.choice((1, 2, 3, 7, 16, 40, 90, 200, 400) + ((1500,) if big else ()))
    where = rng.randrange(8)
    if where <= 2:
        org = 65536 - n                       # ends at the 64K boundary
    elif where == 3:
        org = 0
    elif where == 4:
        org = rng.choice((16384, 32768, 49152, 65535 - n, 255, 256, 9999, 10000))
    else:
        org = rng.randrange(0, 65536 - n)
    data = gen_bytes(rng, n)
    if org + n == 65536 and rng.randrange(3) == 0:
        # an instruction that would run past 65535
        tail = rng.choice(([0x3E], [0xC3], [0xC3, 1], [0xDD, 0x36], [0xDD, 0x36, 5], [0xDD, 0xCB, 1], [0xED, 0x43], [0x18], [0xCF],
                           [0xDD], [0xED], [0xCB], [0xFD, 0xCB], [0x10], [0xED, 0x63, 7], [0x21, 9]))
        if len(tail) <= n:
            data[n - len(tail):] = tail
    return org, data


# --------------------------------------------------------------------------------------
# options
# --------------------------------------------------------------------------------------

def gen_options(rng):
    args, cfg = [], {}
    if rng.randrange(2):
        args.append('-H')
    if rng.randrange(2):
        args.append('-l')
    if rng.randrange(3) == 0:
        args += ['-w', str(rng.choice((1, 20, 30, 40, 60, 79, 120)))]
    if rng.randrange(3) == 0:
        args.append('-r')
    for name, vals in (('DefbSize', (1, 2, 3, 7, 8, 16)), ('DefmSize', (1, 2, 5, 20, 65, 100)), ('DefwSize', (1, 2, 3, 4)),
                       ('Wrap', (1, 1, 0)), ('Text', (1,)), ('InstructionWidth', (5, 23)), ('Semicolons', ('bcgistuw', ''))):
        if rng.randrange(3) == 0:
            cfg[name] = rng.choice(vals)
    if rng.randrange(2):
        cfg['Opcodes'] = rng.choice(OPCODE_SETS)
    for k, v in cfg.items():
        args += ['-I', f'{k}={v}']
    return args, cfg


def make_disassembler(mods, snapshot, args, cfg):
    """A Disassembler configured like sna2skool would, used only to find instruction boundaries
    when generating well-formed control files."""
    snaskool, = mods
    dconfig = snaskool.DisassemblerConfig('-H' in args, '-l' in args, cfg.get('DefbSize', 8), cfg.get('DefmSize', 65),
                                          cfg.get('DefwSize', 1), int('-r' in args), snaskool.Instruction,
                                          cfg.get('Opcodes', ''), cfg.get('Wrap', 0))
    return snaskool.get_component('Disassembler', snapshot, dconfig)


# --------------------------------------------------------------------------------------
# control files
# --------------------------------------------------------------------------------------

class CtlGen:
    """Sequentially tiles [start, end) with entries and sub-blocks; self.lines is the control file,
    self.ignored the list of [a, b) ranges that end up in blank 'i' sub-blocks."""

    def __init__(self, rng, dis, start, end, hexaddr):
        self.rng, self.dis, self.start, self.end = rng, dis, start, end
        self.hexaddr = hexaddr
        self.lines = []
        self.ignored = []
        self.features = set()
        self.prev_code = None       # (start, length) of the piece before the current position when it is code

    def num(self, n, allow_hex=True):
        if allow_hex and (self.hexaddr or self.rng.randrange(6) == 0):
            return '${:04X}'.format(n) if self.rng.randrange(2) else '${:x}'.format(n)
        return str(n)

    def sp(self):
        """Separator between the directive character and the address: CtlParser strips any white space there
        (`line[1:].lstrip()`), so 'b30000', 'b 30000' and 'b  30000' are the same directive."""
        k = self.rng.randrange(12)
        return '' if k == 0 else '  ' if k == 1 else ' '

    def text(self):
        r = self.rng
        if r.randrange(3) == 0:
            return ''
        return ' ' + ' '.join(r.choice(WORDS) for _ in range(r.choice((1, 1, 2, 4))))

    def code_pfx(self):
        r = self.rng
        p = r.choice(('', 'b', 'c', 'd', 'h', 'n', 'n')) + r.choice(('', '', 'b', 'c', 'd', 'h', 'n'))
        if r.randrange(12) == 0:
            p = r.choice(('m', 'mm', 'nm', 'mh'))
            self.features.add('m-on-code')
        return p

    def code_len(self, a, want):
        """Length >= want of whole instructions starting at a (as the real disassembler sizes them)."""
        n = 0
        while n < want:
            ins = self.dis.disassemble(a + n, a + n + 1, 'n')
            n += sum(len(i.bytes) for i in ins)
            if a + n >= 65536:
                break
        return n

    # ---- statements lists (sublengths) -------------------------------------------------
    def stmts(self, kind, length, addr=None):
        """A sublength list for a sub-block of the given kind and length: list of statements, each a
        list of (n, base) parts; plus multipliers.  Returns (text, consumed_ok)."""
        r = self.rng
        if kind == 'C':
            # chunks of whole instructions, each with its own (one- or two-letter) base prefix
            if addr is None or r.randrange(2):
                return None
            out, off = [], 0
            while off < length and len(out) < 4:
                n = self.code_len(addr + off, r.choice((1, 2, 4)))
                if off + n >= length:
                    break                      # the last chunk is implied
                out.append(self.code_pfx() + str(n))
                off += n
            out.append(self.code_pfx() + str(max(length - off, 1)))
            return ','.join(out)
        if kind == 'S':
            divs = [d for d in (1, 2, 3, 4, 5, 8, 16, length) if d <= length and length % d == 0]
            size = r.choice(divs)
            t = r.choice(('', '', 'b', 'c', 'd', 'h', 'n')) + str(size)      # a negative ('m') size makes no sense
            if r.randrange(2):
                t += ':' + r.choice(('b', 'c', 'd', 'h', 'm', 'n', 'h0', 'c0'))
                self.features.add('S-value-base')
            return t
        step = 2 if kind == 'W' else 1
        items = []
        used = 0
        for k in range(r.choice((1, 1, 2, 3, 5))):
            if used >= length:
                break
            parts = []
            for _ in range(r.choice((1, 1, 1, 2, 3))):
                parts.append((r.choice((1, 1, 2, 3, 4, 8)) * step, r.choice(BASE_PFX)))
            size = sum(p[0] for p in parts)
            # every copy must START inside the sub-block: its address becomes a sub-block boundary
            maxmult = -(-(length - used) // size)
            mult = min(r.choice((1, 1, 1, 2, 3, 6)), maxmult)
            items.append((parts, mult))
            used += size * mult
        if not items:
            return None
        # a multi-part statement must not be truncated by the end of the sub-block (its later parts would be
        # empty): make the last statement single-part unless the remaining length is a multiple of its size
        parts, mult = items[-1]
        size = sum(p[0] for p in parts)
        rem = length - (used - size * mult)
        if len(parts) > 1 and rem % size:
            items[-1] = ([(size, parts[0][1])], mult)
        out = []
        for parts, mult in items:
            txt = ':'.join(f'{b}{n}' for n, b in parts)
            if mult > 1 or r.randrange(8) == 0:
                txt += f'*{mult}'
                self.features.add('multiplier')
            if len(parts) > 1:
                self.features.add('colon-parts')
            out.append(txt)
        return ','.join(out)

    # ---- one entry ---------------------------------------------------------------------
    def entry(self, a):
        r = self.rng
        ctl = r.choice('bbccccgistuwwt')
        lines = [f'{ctl}{self.sp()}{self.num(a)}{self.text()}']
        if r.randrange(6) == 0:
            lines.append(f'D {self.num(a)}{self.text()}')
        if r.randrange(8) == 0:
            lines.append(f'R {self.num(a)} A some value')
        pos = a
        npieces = r.choice((1, 1, 1, 2, 3, 5, 8))
        pieces = []
        # first decide the pieces
        for k in range(npieces):
            if pos >= self.end:
                break
            if ctl == 'i':
                kind = r.choice(('default', 'default', 'default', 'B', 'T'))
            else:
                kind = r.choice(('default', 'default', 'own', 'B', 'C', 'S', 'T', 'W'))
            eff = ctl if kind in ('default', 'own') else kind.lower()
            if kind == 'own' and ctl not in 'bcstw':
                kind, eff = 'B', 'b'
            want = r.choice((1, 1, 2, 3, 4, 5, 8, 9, 16, 17, 33, 33, 70, 256, 300))
            if eff == 'c':
                length = self.code_len(pos, want)
            elif eff == 'w':
                length = want + want % 2
            else:
                length = want
            if pos + length > self.end:
                length = self.end - pos
            if eff == 's' and r.randrange(3):
                # DEFS only happens for a constant run: make one.  Nothing before `pos` depends on these bytes, except the
                # last instruction of a code piece ending exactly here (a lone DD/FD prefix is sized by the byte after it):
                # if the new bytes change its length the old bytes are put back.
                mem = self.dis.snapshot
                old = mem[pos:pos + length]
                mem[pos:pos + length] = [r.choice((0, 0, 255, 32, r.randrange(256)))] * length
                pc = self.prev_code
                if pc and pc[0] + pc[1] == pos and self.code_len(pc[0], pc[1]) != pc[1]:
                    mem[pos:pos + length] = old
                else:
                    self.features.add('constant-run')
            pieces.append({'kind': kind, 'eff': eff, 'start': pos, 'len': length})
            self.prev_code = (pos, length) if eff == 'c' else None
            pos += length
        # then render them
        for k, p in enumerate(pieces):
            nxt = pieces[k + 1] if k + 1 < len(pieces) else None
            s, n, kind, eff = p['start'], p['len'], p['kind'], p['eff']
            prev_open = k > 0 and pieces[k - 1].get('open')      # previous piece had no explicit end
            if kind == 'default':
                if prev_open:
                    kind = p['kind'] = 'own' if ctl in 'bcstw' else 'B'
                    if kind == 'B':
                        eff = p['eff'] = 'b'
                        if ctl == 'w' or True:
                            pass
                else:
                    if eff == 'i':
                        self.ignored.append((s, s + n))
                    # optional comment-only directives that add a boundary at a piece start
                    if k > 0 and r.randrange(3) == 0:
                        lines.append(r.choice((f'N {self.num(s)}{self.text()}', f'M {self.num(s)},{n}{self.text()}')))
                        self.features.add('N/M-boundary')
                    elif eff in 'bgutsi' and n >= 4 and r.randrange(4) == 0:
                        # split a default data piece with a mid-block comment (any address is a statement boundary)
                        cut = s + r.randrange(1, n)
                        lines.append(f'N {self.num(cut)} split here')
                        self.features.add('N-split')
                    continue
            letter = ctl.upper() if kind == 'own' else kind
            if eff == 'c' and kind != 'own' and letter != 'C':
                letter = 'C'
            d = letter
            if (kind == 'own' or (letter == 'B' and ctl in 'bgiu')) and r.randrange(2):
                d = ' '
                self.features.add('blank-directive')
            # an odd-length default-format W piece would read one byte beyond its end: give it explicit sublengths
            sub = None
            if r.randrange(2) or (eff == 'w' and n % 2):
                sub = self.stmts(letter, n, s)
                if eff == 'w' and n % 2 and sub is None:
                    sub = str(n + 1)
            can_open = (nxt is None or nxt['kind'] != 'default') and not (eff == 'w' and sub is None and n % 2)
            pfx = r.choice(BASE_PFX) if r.randrange(3) == 0 else ''
            if letter == 'S' and pfx == 'm':
                pfx = 'h'
            if letter == 'C':
                pfx = self.code_pfx() if pfx else ''
            if can_open and r.randrange(3) == 0:
                p['open'] = True
                self.features.add('no-length')
                line = f'{d}{self.sp()}{self.num(s)}'
                if sub is not None or pfx:
                    line += f',{pfx}' + (f',{sub}' if sub is not None else '')
            else:
                line = f'{d}{self.sp()}{self.num(s)},{pfx}{self.num(n, allow_hex=not pfx)}' + (f',{sub}' if sub is not None else '')
            if sub is not None:
                self.features.add('sublengths-' + letter)
            if pfx:
                self.features.add('base-prefix')
            lines.append(line + self.text())
            if r.randrange(10) == 0:
                lines.append('. continuation of the comment')
        self.lines += lines
        return pos

    # ---- a loop over data sub-blocks ------------------------------------------------------
    def loop_entry(self, a):
        r = self.rng
        flags = r.choice((0, 0, 1, 2))
        ctl = r.choice('bgtuw')
        period_pieces = []
        pos = a
        for _ in range(r.choice((1, 2, 3))):
            letter = r.choice('BTWS')
            n = r.choice((1, 2, 3, 4, 6))
            if letter == 'W':
                n += n % 2
            period_pieces.append((letter, pos - a, n))
            pos += n
        period = pos - a
        count = r.choice((2, 2, 3, 5))
        total = period * count
        if a + total > self.end or period == 0:
            return None
        lines = [f'{ctl}{self.sp()}{self.num(a)}{self.text()}']
        if r.randrange(2):
            lines.append(f'N {self.num(a)} loop start comment')
        for letter, off, n in period_pieces:
            sub = self.stmts(letter, n) if r.randrange(3) == 0 else None
            lines.append(f'{letter} {self.num(a + off)},{n}' + (f',{sub}' if sub else '') + self.text())
        lines.append(f'L {self.num(a)},{period},{count}' + (f',{flags}' if flags or r.randrange(2) else ''))
        self.features.add(f'loop-flags{flags}')
        self.lines += lines
        self.prev_code = None
        return a + total

    def run(self):
        r = self.rng
        a = self.start
        while a < self.end:
            nxt = None
            if r.randrange(7) == 0:
                nxt = self.loop_entry(a)
            if nxt is None:
                nxt = self.entry(a)
            a = nxt
        # the order of lines in a control file is free: sometimes shuffle whole lines that do not depend on order
        return '\n'.join(self.lines) + '\n'


# --------------------------------------------------------------------------------------
# running the real tools
# --------------------------------------------------------------------------------------

class ToolError(Exception):
    def __init__(self, tool, exc):
        self.tool, self.exc = tool, exc


def run_tools(mods, scratch, org, data, args, ctl, tag='rt'):
    """sna2skool.main -> skool text -> skool2bin.main.  Returns dict(skool, warnings, base, end, out)."""
    sna2skool, skool2bin = mods
    binf = os.path.join(scratch, f'{tag}.bin')
    with open(binf, 'wb') as f:
        f.write(bytes(data))
    a = list(args) + ['-o', str(org)]
    if ctl is None:
        a += ['-c', '0']
    else:
        ctlf = os.path.join(scratch, f'{tag}.ctl')
        with open(ctlf, 'w') as f:
            f.write(ctl)
        a += ['-c', ctlf]
    out, err = io.StringIO(), io.StringIO()
    try:
        with contextlib.redirect_stdout(out), contextlib.redirect_stderr(err):
            sna2skool.main(a + [binf])
    except (Exception, SystemExit) as e:
        raise ToolError('sna2skool', e)
    skool = out.getvalue()
    res = {'skool': skool, 'warnings': [l for l in err.getvalue().splitlines() if l.startswith('WARNING')]}
    res.update(assemble(mods, scratch, skool, tag))
    return res


def assemble(mods, scratch, skool, tag='rt'):
    sna2skool, skool2bin = mods
    skf = os.path.join(scratch, f'{tag}.skool')
    with open(skf, 'w') as f:
        f.write(skool)
    obf = os.path.join(scratch, f'{tag}.out')
    if os.path.exists(obf):
        os.remove(obf)
    err2 = io.StringIO()
    try:
        with contextlib.redirect_stdout(io.StringIO()), contextlib.redirect_stderr(err2):
            skool2bin.main([skf, obf])
    except (Exception, SystemExit) as e:
        raise ToolError('skool2bin', e)
    m = re.search(r'start=(\d+), end=(\d+), size=(\d+)', err2.getvalue())
    if m is None or not os.path.exists(obf):
        raise ToolError('skool2bin', RuntimeError('no output file: ' + err2.getvalue()[:200]))
    with open(obf, 'rb') as f:
        outb = f.read()
    return {'base': int(m.group(1)), 'end': int(m.group(2)), 'out': outb}


def compare(full, lo, hi, ignored, res):
    """Addresses in [lo, hi) outside ignored ranges whose byte is missing from / different in the
    skool2bin output; also output bytes outside [lo, hi) (straddling / wrapped instructions) that differ."""
    base, outb = res['base'], res['out']
    ign = set()
    for a, b in ignored:
        ign.update(range(a, b))
    missing, wrong = [], []
    have = {}
    for i, v in enumerate(outb):
        have[base + i] = v
    for a in range(lo, hi):
        if a in ign:
            continue
        if a not in have:
            missing.append(a)
        elif have[a] != full[a]:
            wrong.append(a)
    for a, v in have.items():
        if not lo <= a < hi and a % 65536 not in ign and a >= hi and v != full[a % 65536]:
            wrong.append(a)
    return missing, wrong


def straddle_end(warning):
    """The sub-block end address named by an overlap warning of sna2skool (the second address, or the only one)."""
    nums = re.findall(r'(?<![\w$])(\$[0-9A-Fa-f]+|\d+)(?![\w])', warning.split('WARNING:', 1)[-1])
    if not nums:
        return None
    t = nums[-1]
    return int(t[1:], 16) if t.startswith('$') else int(t)


def statement_at(skool, addr, hexaddr):
    """First word of the operation of the last skool line whose address is <= addr."""
    best = None
    for line in skool.splitlines():
        if line and line[0] in ' bcgistuw*' and len(line) > 6:
            t = line[1:6]
            try:
                a = int(t[1:], 16) if t.startswith('$') else int(t)
            except ValueError:
                continue
            if a <= addr:
                best = line
    if best is None:
        return '?'
    op = best[6:].split(';')[0].strip()
    return op.split(' ')[0].upper() if op else 'BLANK'


def add_org_after_gaps(skool):
    """Insert '@org' after every blank instruction line of an ignored block (what a user has to do by
    hand for skool2bin to leave a gap there)."""
    out = []
    for line in skool.splitlines():
        out.append(line)
        m = re.match(r'^[ i*](\$[0-9A-Fa-f]{4}|\d{5})(.*)$', line)
        if m and not m.group(2).split(';')[0].strip():
            out.append('@org')
    return '\n'.join(out) + '\n'


@contextlib.contextmanager
def rst_config(scratch, value):
    """Run with `RSTHandlerConfig=value` in a skoolkit.ini of the current directory (the tools' own way of choosing which RST
    instructions take byte/word arguments; sna2skool has no option for it).  skoolkit.components caches the [skoolkit] section."""
    if not value:
        yield
        return
    import sys
    path = os.path.join(os.getcwd(), 'skoolkit.ini')

    def reset():
        comp = sys.modules.get('skoolkit.components')
        if comp is not None and hasattr(comp, 'SK_CONFIG'):
            comp.SK_CONFIG = None
    with open(path, 'w') as f:
        f.write('[skoolkit]\nRSTHandlerConfig={}\n'.format(value))
    reset()
    try:
        yield
    finally:
        os.remove(path)
        reset()


def check_case(mods, scratch, case):
    """Returns None when the round trip is lossless, else (key, description)."""
    org, data, args, ctl = case['org'], case['data'], case['args'], case['ctl']
    full = [0] * 65536
    full[org:org + len(data)] = data
    lo, hi = case['lo'], case['hi']
    try:
        with rst_config(scratch, case.get('rst_config')):
            res = run_tools(mods, scratch, org, data, args, ctl)
    except ToolError as e:
        msg = str(e.exc)
        if e.tool == 'skool2bin' and 'Failed to assemble' in msg and re.search(r'(65536|4096 0) DEF[BW]\s*$', msg.strip(), re.I):
            return 'rst-arg-at-65536', 'sna2skool -r emits an empty statement at 65536 after an RST at 65535; skool2bin cannot assemble it'
        if e.tool == 'skool2bin' and 'Failed to assemble' in msg and 'm-on-code' in case.get('features', ()):
            opn = ' '.join(msg.strip().splitlines()[-1].split()[1:])
            if not opn.upper().startswith('DEF') and re.search(r'-[$%0-9]', opn):
                return ('m-base-instruction-operand', "an instruction operand rendered with the 'm' (minus) base cannot be "
                        f'assembled by skool2bin: {opn}')
        first = msg.strip().splitlines()[0] if msg.strip() else ''
        op = ''
        if 'Failed to assemble' in msg:
            op = ':' + (msg.strip().splitlines()[-1].split() + ['', ''])[1].upper()
        return f'crash-{e.tool}:{type(e.exc).__name__}{op}', f'{e.tool} raised {type(e.exc).__name__}: {first[:120]} {msg.strip().splitlines()[-1][:80] if msg.strip() else ""}'
    case['warnings'] = res['warnings']
    case['result'] = f"ok {res['base']} " + '.'.join(str(b) for b in res['out'])
    case['nlines'] = res['skool'].count('\n')
    missing, wrong = compare(full, lo, hi, case['ignored'], res)
    if not missing and not wrong:
        return None
    straddle = [w for w in res['warnings'] if 'overlaps the following' in w or 'Two instructions at' in w]
    if straddle:
        # A statement crosses a sub-block boundary.  The generator puts every boundary on a statement boundary except
        # the very last one: the end of the disassembled range (-e / the terminal 'i' directive) may cut the last
        # instruction or the last word of an odd-length DEFW block.  Only there is the control file to blame.
        ends = {straddle_end(w) for w in straddle}
        if ends <= {hi}:
            case['skipped'] = 'straddle'
            return None
        b = min(e for e in ends if e != hi) if None not in ends else None
        op = statement_at(res['skool'], b - 1, '-H' in args) if b else '?'
        return (f'statement-overruns-sub-block:{op}', f'sna2skool warned "{[w for w in straddle if straddle_end(w) != hi][0][9:100]}" although the control '
                f'file puts the sub-block boundary at {b} on a statement boundary; first differing address {min(missing + wrong)}')
    # is it only the gap after a blank ignored block?
    if case['ignored']:
        try:
            res2 = assemble(mods, scratch, add_org_after_gaps(res['skool']), 'rt2')
            m2, w2 = compare(full, lo, hi, case['ignored'], res2)
            if not m2 and not w2:
                return ('i-block-gap', 'statements after a blank ignored block in the middle of the disassembly are placed by skool2bin '
                        'directly after the preceding entry (sna2skool writes no @org after the gap): '
                        f'first affected address {min(missing + wrong)}')
        except ToolError:
            pass
    a = min(missing + wrong)
    op = statement_at(res['skool'], a % 65536 if a < 65536 else a, '-H' in args)
    kind = 'missing' if a in missing else 'wrong'
    if kind == 'missing' and a >= res['base'] + len(res['out']):
        return 'missing-byte:after-last-statement', f'address {a} (and {len(missing) - 1} more): the skool2bin output ends at {res["base"] + len(res["out"])}'
    if straddle:
        return f'{kind}-byte-after-straddle:{op}', f'address {a}: byte {kind} in skool2bin output (statement {op}); sna2skool warned: {straddle[0][:100]}'
    return f'{kind}-byte:{op}', f'address {a}: byte {kind} in skool2bin output, expected {full[a % 65536]} (statement {op})'


# --------------------------------------------------------------------------------------
# directed deterministic groups (run on every seed before the random stream)
# --------------------------------------------------------------------------------------

def sweep_image(pair):
    """Every opcode slot of the seven decoder tables once (main, CB, ED, DD, FD, DDCB, FDCB), each followed by the same two
    operand bytes and three NOPs.  The operand bytes are one-byte opcodes themselves, so decoding always re-synchronises."""
    a, b = pair
    out = []
    for x in range(256):
        if x not in (0xCB, 0xDD, 0xED, 0xFD):
            out += [x, a, b, 0, 0, 0]
    for p in (0xCB, 0xED):
        for x in range(256):
            out += [p, x, a, b, 0, 0, 0]
    for p in (0xDD, 0xFD):
        for x in range(256):
            if x != 0xCB:
                out += [p, x, a, b, 0, 0, 0]
        for x in range(256):
            out += [p, 0xCB, a, x, 0, 0, 0]
    return out


def directed_cases():
    """(name, case) pairs: the opcode sweep under every base/case/Opcodes/RST setting and under every code base prefix
    (not 'm': known finding), and every byte value under every data base prefix in DEFB/DEFM/DEFW/DEFS statements."""
    org = 32768
    signs, chars = (0x7F, 0x80), (0x41, 0xFF)
    k = 0
    for all_ops in ((), ('-I', 'Opcodes=ALL')):
        for hx in ((), ('-H',)):
            for lw in ((), ('-l',)):
                # each operand pair meets each setting both on and off
                pair = (signs, chars)[(bool(all_ops) + bool(hx) + bool(lw)) % 2]
                data = sweep_image(pair)
                args = list(hx + lw + all_ops)
                yield (f'opcodes:{pair[0]:02X}{pair[1]:02X}:' + ''.join(a.lstrip('-') for a in args if a != '-I'),
                       {'org': org, 'data': data, 'args': args, 'ctl': None, 'ignored': [], 'lo': org, 'hi': org + len(data), 'features': []})
    for pair, args in ((signs, ['-r']), (chars, ['-r', '-H', '-l', '-I', 'Opcodes=ALL']), (signs, ['-I', 'Opcodes=ED63,ED6B,ED70,ED71,IM,NEG,RETN,XYCB', '-l'])):
        data = sweep_image(pair)
        yield (f'opcodes:{pair[0]:02X}{pair[1]:02X}:' + ''.join(a.lstrip('-') for a in args if a != '-I'),
               {'org': org, 'data': data, 'args': args, 'ctl': None, 'ignored': [], 'lo': org, 'hi': org + len(data), 'features': []})
    quotes = [(0x41, 0x5C), (0x22, 0xDC), (0xA2, 0x5C), (0x5C, 0x22), (0xDC, 0xA2), (0x20, 0x7E)]      # " \ and their +128 forms, space, ~
    for base in ('b', 'c', 'd', 'h', 'n', 'hb', 'dc', 'cn'):
        for args in ([], ['-H', '-l']):
            pair = quotes.pop(0) if 'c' in base else signs if not args else chars
            data = sweep_image(pair)
            ctl = f'c {org}\nC {org},{base}{len(data)}\ni {org + len(data)}\n'
            yield (f'opcodes:{pair[0]:02X}{pair[1]:02X}:base-{base}:' + ''.join(a.lstrip('-') for a in args),
                   {'org': org, 'data': data, 'args': args, 'ctl': ctl, 'ignored': [(org + len(data), 65536)], 'lo': org, 'hi': org + len(data), 'features': []})
    # RST arguments: every RST opcode with a byte / a word argument (RSTHandlerConfig), also cut by the 64K boundary
    rsts = (0xC7, 0xCF, 0xD7, 0xDF, 0xE7, 0xEF, 0xF7, 0xFF)
    for cfg, args in (('0:B,8:W,16:B,24:W,32:B,40:W,48:B,56:W', ['-r']), ('0:W,8:B,16:W,24:B,32:W,40:B,48:W,56:B', ['-r', '-H', '-l'])):
        data = [v for pair in (signs, chars, (0xCF, 0xEF)) for r in rsts for v in (r, pair[0], pair[1], 0, 0)]
        yield ('rst-args:' + cfg[:7] + ''.join(a.lstrip('-') for a in args),
               {'org': org, 'data': data, 'args': args, 'ctl': None, 'ignored': [], 'lo': org, 'hi': org + len(data), 'features': [], 'rst_config': cfg})
    for tail in ([0, 0xCF, 1, 2], [0, 0, 0xCF, 1], [0, 0, 0, 0xCF]):
        yield ('rst-args:64K:' + str(tail.index(0xCF)),
               {'org': 65532, 'data': tail, 'args': ['-r'], 'ctl': None, 'ignored': [], 'lo': 65532, 'hi': 65536, 'features': [], 'rst_config': '8:W'})
    # data statements: all byte values, every base, statement sizes 1 and 8
    bts = list(range(256))
    words = [v for i in range(256) for v in (i, 255 - i if i % 3 else 0)]
    runs = [v for i in range(256) for v in (i, i)]
    data = bts + bts + bts + bts + words + runs
    for base in ('b', 'c', 'd', 'h', 'm', 'n'):
        for args in ([], ['-H'], ['-l'], ['-H', '-l']):
            a = org
            lines = [f'b {a}', f'B {a},256,{base}1', f'B {a + 256},256,{base}8', f't {a + 512}', f'T {a + 512},256,{base}1',
                     f'T {a + 768},256,{base}8', f'w {a + 1024}', f'W {a + 1024},256,{base}2', f'W {a + 1280},256,{base}8',
                     f's {a + 1536}', f'S {a + 1536},512,2:{base}', f'i {a + 2048}']
            yield (f'data:base-{base}:' + ''.join(x.lstrip('-') for x in args),
                   {'org': org, 'data': data, 'args': args, 'ctl': '\n'.join(lines) + '\n', 'ignored': [(org + 2048, 65536)], 'lo': org,
                    'hi': org + 2048, 'features': []})


def gen_case(rng, mods_dis, big=False):
    """One random e2e case (dict)."""
    org, data = gen_image(rng, big)
    args, cfg = gen_options(rng)
    n = len(data)
    lo, hi = org, org + n
    full = [0] * 65536
    full[org:org + n] = data
    extra = []
    if rng.randrange(4) == 0 and n > 2:
        lo = org + rng.randrange(0, n // 2)
        extra += ['-s', str(lo) if rng.randrange(2) else '0x{:X}'.format(lo)]
    if rng.randrange(4) == 0 and n > 2:
        hi = rng.randrange(lo + 1, org + n + 1)
        extra += ['-e', str(hi)]
    mode = rng.choice(('none', 'ctl', 'ctl', 'ctl', 'defb'))
    ctl = None
    rt_op = None
    ignored = []
    features = set()
    if mode == 'defb':
        extra += ['-d', str(rng.choice((1, 2, 3, 8, 100)))]
    elif mode == 'ctl':
        dis = make_disassembler(mods_dis, full, args, cfg)
        g = CtlGen(rng, dis, lo, hi, rng.randrange(4) == 0)
        ctl = g.run()
        data = full[org:org + n]          # the generator may have planted constant runs for DEFS
        ignored = g.ignored
        features = g.features
        if '-e' not in extra and hi < 65536:
            # without -e the disassembly runs to 65536: terminate it the way sna2ctl does
            ctl += f'i {hi}\n'
            ignored.append((hi, 65536))
        # the same case as an op for the model pipeline (Drivers/C01.lean `rt`)
        from props import c01_corr
        min_a = lo if '-s' in extra else 0
        max_a = hi if '-e' in extra else 65536
        rt_op = c01_corr.emit_op('rt', cfg, min_a, max_a, org, full, n, dis, [l for l in ctl.split('\n') if l.rstrip()])
    return {'org': org, 'data': data, 'args': args + extra, 'ctl': ctl, 'ignored': ignored, 'lo': lo, 'hi': hi,
            'mode': mode, 'features': sorted(features), 'cfg': cfg, 'rt_op': rt_op}
