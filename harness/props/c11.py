"""C11 — tape files round-trip and their pulse trains encode exactly the block bytes.

Theorems: lean/SkoolVerif/Props/C11.lean.  Tie: hand models Model/Edges.lean, Model/TapeFiles.lean,
Model/TzxFile.lean + correspondence (this file) against skoolkit.tape.get_edges / parse_tap /
parse_pzx / parse_tzx(info=False, timings=True) / write_tap / write_pzx.  E2E: the property itself on the real writers, parsers, bin2tap and
tapinfo, with an independent pulse decoder and independent TZX/PZX writers (harness/indep/tapedec.py).
"""
import contextlib
import io
import os

from framework import fresh_import

PROPS = 'SkoolVerif.Props.C11'


# --------------------------------------------------------------------------
# generators
# --------------------------------------------------------------------------

DURS = (0, 1, 2, 5, 667, 735, 855, 1710, 2168, 65535)
BYTES = (0x00, 0xFF, 0x80, 0x01, 0x55, 0xAA, 0x7F, 0xFE)


def rand_bytes(rng, n):
    kind = rng.randrange(4)
    if kind == 0:
        return [rng.choice(BYTES) for _ in range(n)]
    if kind == 1:
        return [rng.choice((0, 255))] * n
    return [rng.randrange(256) for _ in range(n)]


def rand_seq(rng, allow_zero):
    n = rng.choice((0, 1, 1, 2, 2, 2, 3))
    if allow_zero:
        return tuple(rng.choice((0, 0, 1, 3, 855, 1710)) for _ in range(n))
    return tuple(rng.choice((1, 2, 3, 855, 1710, 65535)) for _ in range(n))


def rand_timings(rng, style=None):
    """A dict describing one TapeBlockTimings (+ data, keys)."""
    style = style or rng.choice(('rom', 'turbo', 'turbo', 'pure', 'pulses', 'tone', 'pause', 'pzxdata', 'pzxdata',
                                 'sample', 'sample', 'dr', 'wild', 'wild'))
    t = dict(pulses=(), zero=None, one=None, pause=0, used_bits=8, data=False, tail=0, polarity=None,
             bytes=[], keys=None, style=style)
    if rng.random() < 0.1:
        t['keys'] = rng.randrange(1, 5)
    if style == 'rom':
        t['bytes'] = rand_bytes(rng, rng.choice((1, 2, 3, 19)))
        first = t['bytes'][0]
        t['pulses'] = ((rng.choice((3, 4)) if rng.random() < 0.9 else 3223 + 4840 * (first == 0), 2168), (1, 667), (1, 735))
        t['zero'], t['one'] = (855, 855), (1710, 1710)
        t['pause'] = rng.choice((3500000, 0, 3500))
    elif style in ('turbo', 'pure'):
        z, o = rng.choice(DURS[1:]), rng.choice(DURS[1:])
        if rng.random() < 0.15:
            z = 0
        if rng.random() < 0.1:
            o = 0
        if rng.random() < 0.1:
            o = z
        t['zero'], t['one'] = (z, z), (o, o)
        if style == 'turbo':
            t['pulses'] = ((rng.choice((0, 1, 2, 3, 7)), rng.choice(DURS)), (1, rng.choice(DURS)), (1, rng.choice(DURS)))
        t['used_bits'] = rng.choice((8, 8, 1, 2, 3, 4, 5, 6, 7, 0, 9, 12, 255))
        t['pause'] = rng.choice((0, 3500, 3500000))
        t['bytes'] = rand_bytes(rng, rng.choice((0, 1, 1, 2, 3, 5)))
    elif style == 'pulses':
        t['pulses'] = [(1, rng.choice(DURS)) for _ in range(rng.choice((0, 1, 2, 3, 5)))]
        if rng.random() < 0.5:
            t['polarity'] = rng.randrange(2)
    elif style == 'tone':
        t['pulses'] = [(rng.choice((0, 1, 2, 5, 6)), rng.choice(DURS))]
        if rng.random() < 0.5:
            t['pulses'] += [(rng.choice((1, 2, 3)), rng.choice(DURS))]
            t['polarity'] = rng.randrange(2)
    elif style == 'pause':
        t['pause'] = rng.choice((0, 1, 3500, 3500000))
        if rng.random() < 0.7:
            t['polarity'] = rng.randrange(2)
    elif style == 'pzxdata':
        t['zero'], t['one'] = rand_seq(rng, False), rand_seq(rng, False)
        if rng.random() < 0.5:
            t['one'] = tuple(rng.choice((1, 2, 1710)) for _ in t['zero'])
        t['used_bits'] = rng.choice((8, 8, 1, 2, 3, 4, 5, 6, 7))
        t['tail'] = rng.choice((0, 945, 1))
        t['polarity'] = rng.randrange(2)
        t['bytes'] = rand_bytes(rng, rng.choice((1, 1, 2, 3, 4)))
    elif style == 'sample':
        t['zero'], t['one'] = rand_seq(rng, True), rand_seq(rng, True)
        if 0 not in t['zero'] and 0 not in t['one']:
            t['zero'] = t['zero'] + (0,)
        t['used_bits'] = rng.choice((8, 8, 1, 3, 7, 0, 9, 11))
        t['tail'] = rng.choice((0, 945, 1))
        t['polarity'] = rng.choice((None, 0, 1))
        t['bytes'] = rand_bytes(rng, rng.choice((1, 1, 2, 3)))
    elif style == 'dr':
        t['pulses'] = [(1, rng.choice((0, 79, 158, 237))) for _ in range(rng.choice((1, 2, 3, 4)))]
        t['pause'] = rng.choice((0, 3500))
        t['data'] = True
    else:  # wild: anything the attributes allow
        t['pulses'] = [(rng.choice((0, 1, 2, 3)), rng.choice(DURS)) for _ in range(rng.choice((0, 0, 1, 2)))]
        t['zero'], t['one'] = rand_seq(rng, rng.random() < 0.3), rand_seq(rng, rng.random() < 0.3)
        t['pause'] = rng.choice((0, 0, 7, 3500))
        t['used_bits'] = rng.choice((8, 8, 1, 4, 7, 0, 10))
        t['data'] = rng.random() < 0.2
        t['tail'] = rng.choice((0, 0, 945, 3))
        t['polarity'] = rng.choice((None, None, 0, 1))
        t['bytes'] = rand_bytes(rng, rng.choice((0, 0, 1, 2, 3)))
    return t


def rand_tape(rng):
    n = rng.choice((0, 1, 1, 2, 2, 3, 3, 4, 5, 6))
    fam = rng.random()
    if fam < 0.25:     # PZX-like
        styles = ('pulses', 'tone', 'pzxdata', 'pause', 'sample', 'pzxdata')
    elif fam < 0.5:    # TZX-like
        styles = ('rom', 'turbo', 'pure', 'tone', 'pulses', 'pause', 'dr')
    else:
        styles = (None,)
    return [rand_timings(rng, rng.choice(styles)) for _ in range(n)]


def mk_blocks(tape_mod, descs):
    blocks = []
    for n, t in enumerate(descs, 1):
        tm = tape_mod.TapeBlockTimings(t['pulses'], t['zero'], t['one'], t['pause'], t['used_bits'], t['data'],
                                       t['tail'], t['polarity'])
        b = tape_mod.TapeBlock(n, t['bytes'], tm)
        b.keys = [f'k{t["keys"]}'] if t['keys'] else None
        blocks.append(b)
    return blocks


def enc_block(t):
    w = [len(t['pulses'])]
    for c, d in t['pulses']:
        w += [c, d]
    for seq in (t['zero'], t['one']):
        seq = seq or ()
        w += [len(seq), *seq]
    w += [t['pause'], t['used_bits'], int(bool(t['data'])), t['tail'],
          -1 if t['polarity'] is None else t['polarity'], t['keys'] or -1, len(t['bytes']), *t['bytes']]
    return 'B ' + ' '.join(map(str, w))


def edges_op(descs, fe, pol):
    return ' '.join(['edges', str(fe), str(pol)] + [enc_block(t) for t in descs])


def canon_edges(edges, dbs):
    parts = []
    for d in dbs:
        keys = int(d.keys[0][1:]) if d.keys else -1
        parts.append(' '.join(map(str, [d.start, d.end, int(bool(d.fast_load)), keys, len(d.data), *d.data])))
    return 'ok ' + ' '.join(map(str, edges)) + ' | ' + ' ; '.join(parts)


def real_edges(tape_mod, descs, fe, pol):
    try:
        edges, dbs = tape_mod.get_edges(mk_blocks(tape_mod, descs), fe, pol)
    except Exception as e:  # get_edges has no error branch for the generated domain
        return f'exc {type(e).__name__}'
    return canon_edges(edges, dbs)


def norm(s):
    return ' '.join(s.split())


# --------------------------------------------------------------------------
# file-level generators (TAP / PZX byte strings)
# --------------------------------------------------------------------------

def w16(n):
    return [n % 256, (n >> 8) % 256]


def w32(n):
    return [n % 256, (n >> 8) % 256, (n >> 16) % 256, (n >> 24) % 256]


def rand_block_list(rng, allow_empty=True):
    n = rng.choice((0, 1, 1, 2, 2, 3, 4))
    out = []
    for _ in range(n):
        ln = rng.choice((0, 1, 1, 2, 3, 19, 255, 256, 257) if allow_empty else (1, 1, 2, 3, 19, 255, 256, 257))
        out.append(rand_bytes(rng, ln))
    return out


def mutate(rng, data):
    data = list(data)
    k = rng.randrange(6)
    if k == 0 and data:
        return data[:rng.randrange(len(data))]
    if k == 1:
        return data + [rng.randrange(256)]
    if k == 2 and data:
        i = rng.randrange(len(data))
        data[i] = rng.choice((0, 1, 2, 255, 128, rng.randrange(256)))
        return data
    if k == 3 and data:
        i = rng.randrange(len(data))
        return data[:i] + data[i + 1:]
    if k == 4:
        return data + [rng.randrange(256) for _ in range(rng.randrange(1, 5))]
    return data


def pzx_puls(rng, pulses=None):
    """PULS block bytes for (count, duration) pairs, encoded as the PZX document prescribes."""
    if pulses is None:
        pulses = [(rng.choice((1, 1, 2, 3, 0x7FFF, 3223, 8063)), rng.choice((0, 1, 667, 735, 2168, 0x7FFF, 0x8000, 0x8001, 0x12345, 0x7FFFFFFF)))
                  for _ in range(rng.choice((0, 1, 2, 3, 4)))]
    body = []
    for c, d in pulses:
        if c > 1 or (rng.random() < 0.1):
            body += w16(0x8000 | c)
        if d < 0x8000:
            body += w16(d)
        else:
            body += w16(0x8000 | (d >> 16)) + w16(d & 0xFFFF)
    return list(b'PULS') + w32(len(body)) + body


def pzx_data(rng, data=None, s0=None, s1=None, tail=None, level=None, bits=None):
    if data is None:
        data = rand_bytes(rng, rng.choice((0, 1, 1, 2, 3, 4)))
    if s0 is None:
        s0 = [rng.choice((0, 1, 855, 0xFFFF)) for _ in range(rng.choice((0, 1, 2, 2, 3)))]
    if s1 is None:
        s1 = [rng.choice((0, 2, 1710, 0xFFFF)) for _ in range(rng.choice((0, 1, 2, 2, 3)))]
    if bits is None:
        bits = max(0, len(data) * 8 - rng.choice((0, 0, 0, 1, 3, 7)))
    if tail is None:
        tail = rng.choice((0, 945, 1, 0xFFFF))
    if level is None:
        level = rng.randrange(2)
    body = w32((level << 31) | bits) + w16(tail) + [len(s0), len(s1)]
    for d in list(s0) + list(s1):
        body += w16(d)
    body += list(data)
    return list(b'DATA') + w32(len(body)) + body


def pzx_paus(rng, dur=None, level=None):
    if dur is None:
        dur = rng.choice((0, 1, 3500000, 0x7FFFFFFF))
    if level is None:
        level = rng.randrange(2)
    return list(b'PAUS') + w32(4) + w32((level << 31) | dur)


def rand_pzx(rng):
    out = list(b'PZXT') + w32(2) + [1, 0]
    if rng.random() < 0.2:
        txt = list(b'Title\0Author\0me')
        out = list(b'PZXT') + w32(2 + len(txt)) + [1, 0] + txt
    for _ in range(rng.choice((0, 1, 2, 3, 4, 6))):
        k = rng.randrange(10)
        if k < 3:
            out += pzx_puls(rng)
        elif k < 6:
            out += pzx_data(rng)
        elif k == 6:
            out += pzx_paus(rng)
        elif k == 7:
            txt = [rng.randrange(32, 127) for _ in range(rng.randrange(5))]
            out += list(b'BRWS') + w32(len(txt)) + txt
        elif k == 8:
            out += list(b'STOP') + w32(2) + w16(rng.randrange(2))
        else:
            body = [rng.randrange(256) for _ in range(rng.randrange(4))]
            out += list(rng.choice((b'XXXX', b'PZXT', b'puls'))) + w32(len(body)) + body
    return out


def w24(n):
    return [n % 256, (n >> 8) % 256, (n >> 16) % 256]


def rand_tzx(rng):
    """A TZX file of random blocks of every ID skoolkit knows (and a few it does not)."""
    out = list(b'ZXTape!\x1a') + [1, rng.choice((20, 13))]
    for _ in range(rng.choice((0, 1, 2, 3, 4, 6))):
        k = rng.randrange(24)
        data = rand_bytes(rng, rng.choice((0, 1, 1, 2, 3, 5)))
        pause = rng.choice((0, 1, 1000, 65535))
        if k < 3:
            out += [0x10] + w16(pause) + w16(len(data)) + data
        elif k < 6:
            out += ([0x11] + w16(rng.choice((2168, 0, 1))) + w16(rng.choice((667, 0))) + w16(735) + w16(rng.choice((855, 0, 1)))
                    + w16(rng.choice((1710, 0, 2))) + w16(rng.choice((0, 1, 3, 5))) + [rng.choice((8, 1, 7, 0, 9, 255))] + w16(pause)
                    + w24(len(data)) + data)
        elif k == 6:
            out += [0x12] + w16(rng.choice((2168, 0))) + w16(rng.choice((0, 1, 4)))
        elif k == 7:
            n = rng.choice((0, 1, 2, 3))
            out += [0x13, n] + [b for _ in range(n) for b in w16(rng.choice((0, 667, 65535)))]
        elif k < 10:
            out += [0x14] + w16(rng.choice((855, 0))) + w16(rng.choice((1710, 0, 5))) + [rng.choice((8, 3, 0, 12))] + w16(pause) + w24(len(data)) + data
        elif k < 13:
            decl = len(data) + rng.choice((0, 0, 0, 1, -1)) if data else 0
            out += [0x15] + w16(rng.choice((79, 0, 1))) + w16(pause) + [rng.choice((8, 1, 5, 0, 11))] + w24(max(decl, 0)) + data
        elif k == 13:
            bid = rng.choice((0x16, 0x17, 0x18, 0x19))
            body = [rng.randrange(256) for _ in range(rng.choice((0, 3, 12)))]
            out += [bid] + w32(len(body)) + body
        elif k == 14:
            out += [0x20] + w16(rng.choice((0, 5, 1000)))
        elif k == 15:
            out += [0x21, len(data)] + data + [0x22]
        elif k == 16:
            out += [0x23] + w16(rng.choice((1, 65535))) + [0x24] + w16(2) + [0x25]
        elif k == 17:
            n = rng.choice((0, 1, 2))
            out += [0x26] + w16(n) + [0] * (2 * n) + [0x27]
        elif k == 18:
            body = [1, 1, 0, 1, 65]
            out += [0x28] + w16(len(body)) + body + [0x2A] + w32(0) + [0x2B] + w32(1) + [1]
        elif k == 19:
            out += [0x30, len(data)] + data + [0x31, 5, len(data)] + data
        elif k == 20:
            body = [1, 0, 3, 65, 66, 67]
            out += [0x32] + w16(len(body)) + body + [0x33, 1, 0, 1, 0]
        elif k == 21:
            out += [0x34] + [0] * 8 + [0x35] + [32] * 16 + w32(len(data)) + data
        elif k == 22:
            out += [0x40, 0] + w24(len(data)) + data + [0x5A] + [0] * 9
        else:
            out += [rng.choice((0x00, 0x36, 0xFF, 0x29))] + data
    return out


def real_parse_tzx(tape_mod, data, start, stop, skip):
    from skoolkit import SkoolKitError
    try:
        t = tape_mod.parse_tzx(bytes(data), start, stop, tuple(skip), info=False, timings=True)
    except SkoolKitError as e:
        msg = e.args[0]
        if msg.startswith('Not a TZX'):
            return 'err nottzx'
        if msg.startswith('TZX version'):
            return 'err noversion'
        if msg.startswith('Unknown TZX block ID'):
            return 'err unknown ' + str(int(msg.split('0x')[1], 16))
        return 'err other ' + msg
    except IndexError:
        return 'err index'
    parts = []
    for b in t.blocks:
        tm = b.timings
        unsupported = bool(tm is not None and tm.error)
        parts.append(' '.join([str(b.number), str(b.block_id), 'D ' + canon_optlist(b.data), canon_timings(tm),
                               'U1' if unsupported else 'U0', 'S1' if b.standard else 'S0', 'X ' + canon_optlist(b.block_data)]))
    return 'ok ' + ' ; '.join(parts)


def rand_opts(rng):
    start = rng.choice((1, 1, 1, 2, 3, 0, -1))
    stop = rng.choice((0, 0, 0, 1, 2, 3, 5, -1))
    skip = sorted(set(rng.randrange(1, 6) for _ in range(rng.choice((0, 0, 0, 1, 2)))))
    return start, stop, skip


def canon_timings(t):
    if t is None:
        return 'T-'
    w = [len(t.pulses)]
    for c, d in t.pulses:
        w += [c, d]
    for seq in (t.zero, t.one):
        seq = seq or ()
        w += [len(seq), *seq]
    w += [t.pause, t.used_bits, int(bool(t.data)), t.tail, -1 if t.polarity is None else t.polarity]
    return 'T ' + ' '.join(map(str, w))


def canon_optlist(d):
    if d is None:
        return 'N'
    return ' '.join(['L', str(len(d)), *map(str, d)])


PZX_KINDS = ('PZXT', 'PULS', 'DATA', 'PAUS', 'BRWS', 'STOP')


def real_parse_pzx(tape_mod, data, start, stop, skip):
    from skoolkit import SkoolKitError
    try:
        t = tape_mod.parse_pzx(bytes(data), start, stop, tuple(skip))
    except SkoolKitError:
        return 'err notpzx'
    except IndexError:
        return 'err index'
    except ValueError:
        return 'err value'
    parts = []
    for b in t.blocks:
        kind = b.block_id if b.block_id in PZX_KINDS else 'other'
        parts.append(' '.join([str(b.number), kind, canon_timings(b.timings), 'D ' + canon_optlist(b.data),
                               'S1' if b.standard else 'S0', 'X ' + canon_optlist(b.block_data)]))
    return 'ok ' + ' ; '.join(parts)


def real_parse_tap(tape_mod, data, start, stop, skip):
    t = tape_mod.parse_tap(bytes(data), start, stop, tuple(skip))
    if not t.warnings:
        w = 'none'
    elif t.warnings[0].startswith('Extraneous'):
        w = 'extraneous'
    else:
        w = 'missing ' + t.warnings[0].split()[1]
    parts = [' '.join(map(str, [b.number, len(b.data), *b.data])) for b in t.blocks]
    for b in t.blocks:     # the timings attached by parse_tap are the ROM timings of the flag byte
        want = tape_mod._get_tape_block_timings(b.data[0]) if b.data else None
        if canon_timings(b.timings) != canon_timings(want):
            return 'bad timings'
    return 'ok ' + w + ' ; ' + ' ; '.join(parts)


def real_write(fn, writer, blocks):
    try:
        writer(fn, blocks)
    except IndexError:
        return 'err index'
    except ValueError:
        return 'err value'
    with open(fn, 'rb') as f:
        return 'ok ' + ' '.join(map(str, f.read()))


def blocks_op(name, blocks):
    return ' '.join([name] + ['B ' + ' '.join(map(str, b)) for b in blocks])


def parse_op(name, data, start, stop, skip):
    return ' '.join(map(str, [name, start, stop, len(skip), *skip, '|', *data]))


# --------------------------------------------------------------------------
# correspondence
# --------------------------------------------------------------------------

def correspondence(chk, tape_mod):
    rng = chk.rng
    ops, impl = [], []
    for _ in range(chk.scale(4000, 40000)):
        descs = rand_tape(rng)
        fe = rng.choice((0, 0, 0, 1, 1000, -5, 69888))
        pol = rng.choice((0, 0, 1, 1, 2, 3, -1))
        ops.append(edges_op(descs, fe, pol))
        impl.append(real_edges(tape_mod, descs, fe, pol))
        nz = any(t['bytes'] for t in descs)
        uneven = any(uneven_partial(t['zero'], t['one'], t['used_bits'], t['bytes']) for t in descs)
        chk.case('corr-edges-p0-ne-p1-partial-byte' if uneven else 'corr-edges', ('edges', ops[-1]) if nz else None,
                 {'op': ops[-1][:200], 'impl': impl[-1][:200]})
    # regression inputs of the fixed defect 135fa23 (last byte cut in the middle of a bit when p0 != p1)
    for zero, one, ub, data in (((100,), (200, 300), 1, [128]), ((100,), (200, 300), 3, [0xA0]), ((1, 2, 3), (9,), 7, [0x55, 0xAA]),
                                ((5, 6), (7,), 2, [0x40]), ((5,), (6, 7, 8), 5, [0xF8, 0x08])):
        for tail in (0, 945):
            desc = dict(pulses=(), zero=zero, one=one, pause=0, used_bits=ub, data=False, tail=tail, polarity=1,
                        bytes=data, keys=None, style='regression')
            ops.append(edges_op([desc, desc], 0, 0))
            impl.append(real_edges(tape_mod, [desc, desc], 0, 0))
            chk.case('corr-edges-regression', ('edges', ops[-1]))
    fn = os.path.join(chk.scratch, 'corr.bin')
    # writers
    for _ in range(chk.scale(300, 3000)):
        blocks = rand_block_list(rng)
        if rng.random() < 0.03:
            blocks.append([rng.randrange(256)] * rng.choice((65535, 65536, 65537)))
        if rng.random() < 0.03 and blocks:
            blocks[rng.randrange(len(blocks))].append(256)
        for name, writer in (('wtap', tape_mod.write_tap), ('wpzx', tape_mod.write_pzx)):
            if name == 'wpzx' and any(len(b) > 1000 for b in blocks):
                continue
            ops.append(blocks_op(name, blocks))
            impl.append(real_write(fn, writer, blocks))
            chk.case('corr-' + name, (name, ops[-1]) if blocks else None)
    # parsers on written, mutated and hand-built files
    for _ in range(chk.scale(2500, 20000)):
        blocks = [b for b in rand_block_list(rng) if len(b) < 300]
        tape_mod.write_tap(fn, blocks)
        with open(fn, 'rb') as f:
            data = list(f.read())
        for _ in range(rng.choice((0, 0, 1, 1, 2))):
            data = mutate(rng, data)
        start, stop, skip = rand_opts(rng)
        ops.append(parse_op('ptap', data, start, stop, skip))
        impl.append(real_parse_tap(tape_mod, data, start, stop, skip))
        chk.case('corr-ptap', ('ptap', ops[-1]) if data else None)
    for n in range(chk.scale(3000, 30000)):
        if n % 4 == 0:
            blocks = [b for b in rand_block_list(rng, False) if len(b) < 300]
            tape_mod.write_pzx(fn, blocks)
            with open(fn, 'rb') as f:
                data = list(f.read())
        else:
            data = rand_pzx(rng)
        for _ in range(rng.choice((0, 0, 0, 1, 2))):
            data = mutate(rng, data)
        start, stop, skip = rand_opts(rng)
        ops.append(parse_op('ppzx', data, start, stop, skip))
        impl.append(real_parse_pzx(tape_mod, data, start, stop, skip))
        chk.case('corr-ppzx', ('ppzx', ops[-1]), {'op': ops[-1][:200], 'impl': impl[-1][:200]})
    from indep import tapedec
    for n in range(chk.scale(3000, 30000)):
        if n % 3 == 0:
            items = rand_logical(rng, rng.choice(('rom', 'turbo', 'turbo0')))
            data = tapedec.tzx_from_items(items, split=rng.random() < 0.5)
        else:
            data = rand_tzx(rng)
        for _ in range(rng.choice((0, 0, 0, 1, 2))):
            data = mutate(rng, data)
        start, stop, skip = rand_opts(rng)
        ops.append(parse_op('ptzx', data, start, stop, skip))
        impl.append(real_parse_tzx(tape_mod, data, start, stop, skip))
        chk.case('corr-ptzx', ('ptzx', ops[-1]), {'op': ops[-1][:200], 'impl': impl[-1][:200]})
    model = chk.run_driver('C11', ops)
    if model is not None:
        chk.compare('Edges/TapeFiles/TzxFile models vs skoolkit.tape', ops, [norm(s) for s in impl], [norm(s) for s in model])


# --------------------------------------------------------------------------
# end-to-end: the property itself on the real tools
#
# Every check is a function  (mods, scratch, case) -> [(key, description)]  of a small
# JSON-serialisable case, so that a replay re-evaluates exactly the stored case.
# --------------------------------------------------------------------------

def uneven_partial(zero, one, used_bits, data):
    """Table path, bit sequences of different lengths, last byte partly used (the class of the
    defect fixed by 135fa23; kept as a distribution tag and for the regression inputs)."""
    zero, one = tuple(zero or ()), tuple(one or ())
    return bool(data) and 0 not in zero and 0 not in one and len(zero) != len(one) and used_bits < 8


def parsed_blocks(mods, fmt, data, start=1, stop=0, skip=()):
    """Blocks as tap2sna/tapinfo hand them to get_edges."""
    tape_mod = mods['tape']
    data = bytes(data)
    if fmt == 'tap':
        blocks = [b for b in tape_mod.parse_tap(data, start, stop, skip).blocks if b.data]
    elif fmt == 'tzx':
        blocks = tape_mod.parse_tzx(data, start, stop, skip, info=False, timings=True).blocks
    else:
        blocks = tape_mod.parse_pzx(data, start, stop, skip).blocks
    blocks = [b for b in blocks if b.timings]
    for b in blocks:
        b.keys = None
    return blocks


def real_get_edges(mods, fmt, data, first_edge=0, polarity=0):
    edges, dbs = mods['tape'].get_edges(parsed_blocks(mods, fmt, data), first_edge, polarity)
    return list(edges), [(d.start, d.end, list(d.data), bool(d.fast_load)) for d in dbs]


def norm_items(items):
    """Items as tuples with list payloads (JSON turns tuples into lists)."""
    return [tuple(it) for it in items]


def zero_bit_pulse(items):
    return any(it[0] == 'data' and (0 in it[3] or 0 in it[4]) for it in items)


def rand_logical(rng, kind):
    """A logical tape (see indep/tapedec.py)."""
    from indep import tapedec
    items = []
    n = rng.choice((1, 1, 2, 3, 4))
    for k in range(n):
        ln = rng.choice((1, 2, 2, 3, 5, 19, 40))
        data = rand_bytes(rng, ln)
        if kind == 'rom':
            if rng.random() < 0.5:
                data[0] = rng.choice((0, 255))
            items += tapedec.rom_block(data)
            continue
        zero, one = rng.choice(((855, 1710), (1, 2), (500, 1000), (65535, 1), (781, 1562), (3, 3000)))
        if kind == 'turbo0' and rng.random() < 0.3:
            zero, one = rng.choice(((0, 5), (5, 0)))
        used = rng.choice((8, 8, 8, 1, 2, 3, 4, 5, 6, 7))
        pdur = rng.choice((2168, 1, 2000, 65535) if kind != 'turbo0' else (2168, 0, 1, 65535))
        items += [('tone', rng.choice((0, 1, 2, 3, 4, 7, 3223) if k == 0 else (0, 1, 2, 3, 4, 7)), pdur),
                  ('pulses', [rng.choice((667, 1, 65535)), rng.choice((735, 2, 40000))]),
                  ('data', data, used, [zero, zero], [one, one], 0),
                  ('pause', 3500 * rng.choice((0, 0, 1, 2, 1000)))]
        if items[-1][1] == 0:
            items.pop()
    return items


def rand_logical_pzx(rng):
    """A logical tape only PZX can express: arbitrary bit sequences (also of different lengths, with
    any used-bits count), tails, free pulse lists."""
    items = []
    for k in range(rng.choice((1, 2, 3, 4))):
        if rng.random() < 0.7:
            items.append(('tone', rng.choice((1, 2, 3, 5, 8)), rng.choice((2168, 1, 70000, 0x7FFFFFFF))))
        if rng.random() < 0.7:
            items.append(('pulses', [rng.choice((667, 735, 1, 65536, 99999)) for _ in range(rng.choice((1, 2, 3)))]))
        s0 = [rng.choice((1, 2, 855, 65535)) for _ in range(rng.choice((1, 2, 2, 3)))]
        s1 = [rng.choice((3, 4, 1710, 65534)) for _ in range(rng.choice((1, 2, 2, 3)))]
        used = rng.choice((8, 8, 1, 2, 3, 4, 5, 6, 7))
        data = rand_bytes(rng, rng.choice((1, 1, 2, 3, 6)))
        tail = rng.choice((0, 945, 1, 65535))
        items.append(('data', data, used, s0, s1, tail))
        if rng.random() < 0.6:
            items.append(('pause', rng.choice((1, 3500, 3500000, 0x7FFFFFFF))))
    return items


def expected_signal(items, pulses_of=None):
    """(edges, [(start, end, t0, item)]) the logical tape specifies, accounting for the final
    tail-pulse rule of get_edges (a tail pulse that ends the tape is not an edge)."""
    from indep import tapedec
    pulses_of = pulses_of or tapedec.item_pulses
    edges = [0]
    ranges = []
    t = 0
    for n, item in enumerate(items):
        if item[0] == 'pause':
            if n < len(items) - 1:
                t += item[1]
            continue
        pulses = pulses_of(item)
        if item[0] == 'data':
            ranges.append([len(edges) - 1, len(edges) - 1 + len(pulses), t, item])
        for d in pulses:
            t += d
            edges.append(t)
    real = [it for it in items if it[0] != 'pause']
    if real and real[-1][0] == 'data' and real[-1][5]:
        edges = edges[:-1]
        ranges[-1][1] = min(ranges[-1][1], len(edges) - 1)
        ranges[-1][0] = min(ranges[-1][0], len(edges) - 1)
    return edges, ranges


def signal_core(tag, fmt, edges, dbs, want_edges, ranges, skip_decode):
    from indep import tapedec
    fails = []

    def report(what, desc):
        fails.append((f'{what}-{fmt}', f'{tag}/{fmt}: {desc}'))

    if any(b < a for a, b in zip(edges, edges[1:])):
        report('edges-decrease', 'edge list is not non-decreasing')
    if edges != want_edges:
        k = next((i for i, (a, b) in enumerate(zip(edges, want_edges)) if a != b), min(len(edges), len(want_edges)))
        report('pulses-differ', f'edge {k} differs from the pulses the tape specifies: got {edges[k:k + 3]}, '
                                f'specified {want_edges[k:k + 3]} ({len(edges)} vs {len(want_edges)} edges)')
    fast = [d for d in dbs if d[3]]
    if [d[2] for d in fast] != [list(r[3][1]) for r in ranges]:
        report('datablock-data', 'data blocks do not carry the bytes of the data items')
        return fails
    for (start, end, data, _), (rs, re_, t0, item) in zip(fast, ranges):
        if (start, end) != (rs, re_):
            report('datablock-range', f'data block range ({start},{end}) != first/last data edge ({rs},{re_})')
            continue
        _, _, used, s0, s1, tail = item
        if not tapedec.prefix_free(s0, s1) or skip_decode(item):
            continue
        nbits = 8 * (len(data) - 1) + used
        seg = edges[start + 1:end + 1]
        res = tapedec.decode_edges(seg, t0, s0, s1, nbits) if len(seg) >= 1 else None
        ok = False
        if res is not None:
            bits, rest = res
            want_rest = [tail] if tail and len(seg) == len(tapedec.item_pulses(item)) else []
            masked = list(data[:-1]) + [data[-1] & (0xFF00 >> used) & 0xFF]
            ok = tapedec.pack_bits(bits) == masked and rest == want_rest
        if not ok:
            report('decode', f'edges {start + 1}..{end} do not decode back to the {nbits} bits of the block')
    return fails


def signal_fails(mods, tag, fmt, file_bytes, items, fe=0, pol=0):
    """The property for one file: exact edges, non-decreasing, ranges, decode-back.
    `first_edge` shifts every edge; an odd `polarity` inverts the signal, i.e. adds one
    leading edge at `first_edge` (all indexes move up by one)."""
    edges, dbs = real_get_edges(mods, fmt, file_bytes, fe, pol)

    def expect(pulses_of):
        want_edges, ranges = expected_signal(items, pulses_of)
        want_edges = [e + fe for e in want_edges]
        ranges = [[a, b, t0 + fe, it] for a, b, t0, it in ranges]
        if pol % 2:
            want_edges = [fe] + want_edges
            ranges = [[a + 1, b + 1, t0, it] for a, b, t0, it in ranges]
        return want_edges, ranges

    return signal_core(tag, fmt, edges, dbs, *expect(None), lambda it: False)


def cancel_pairs(edges):
    """The times at which the level really changes: two edges at the same time cancel."""
    out = []
    for e in edges:
        if out and out[-1] == e:
            out.pop()
        else:
            out.append(e)
    return out


def check_roundtrip(mods, scratch, case):
    """Blocks written as TAP or PZX parse back to the same byte sequences; an independent reader agrees;
    the edges of every written block decode back to its bytes."""
    from indep import tapedec
    tape_mod = mods['tape']
    blocks = [list(b) for b in case['blocks']]
    fails = []
    for fmt, writer in (('tap', tape_mod.write_tap), ('pzx', tape_mod.write_pzx)):
        fn = os.path.join(scratch, 'rt.' + fmt)
        writer(fn, blocks)
        with open(fn, 'rb') as f:
            raw = f.read()
        if fmt == 'tap':
            back = [list(b.data) for b in tape_mod.parse_tap(fn).blocks]
            ind = tapedec.read_tap(raw)
        else:
            back = [list(b.data) for b in tape_mod.parse_pzx(fn).blocks if b.block_id == 'DATA']
            ind = [d[0] for d in tapedec.read_pzx_data(raw)]
        if back != blocks:
            fails.append((f'roundtrip-{fmt}', f'blocks written by write_{fmt} parse back differently'))
        if ind != blocks:
            fails.append((f'roundtrip-{fmt}-indep', f'independent {fmt.upper()} reader sees different blocks than were written'))
        if case.get('signal'):
            # the written file is the standard-speed tape of these blocks: pilot (8063 pulses for a flag byte of 0, else
            # 3223), two sync pulses, 855/1710 bit pulses, (PZX: 945 tail pulse), one second between blocks
            items = []
            for b in blocks:
                items += [('tone', 8063 if b[0] == 0 else 3223, 2168), ('pulses', [667, 735]),
                          ('data', b, 8, [855, 855], [1710, 1710], 945 if fmt == 'pzx' else 0), ('pause', 3500000)]
            fails += signal_fails(mods, 'written', fmt, raw, items)
            edges, dbs = real_get_edges(mods, fmt, raw)
            fast = [d for d in dbs if d[3]]
            if [d[2] for d in fast] != blocks:
                fails.append((f'written-{fmt}-datablocks', f'get_edges on a file written by write_{fmt} does not report the written blocks'))
                continue
            for (start, end, data, _) in fast:
                res = tapedec.decode_edges(edges[start + 1:end + 1], edges[start], [855, 855], [1710, 1710], 8 * len(data))
                if res is None or tapedec.pack_bits(res[0]) != data or res[1] not in ([], [945]):
                    fails.append((f'written-{fmt}-decode', f'edges of a block written by write_{fmt} do not decode back to its bytes'))
                    break
    return fails


def check_bin2tap(mods, scratch, case):
    tape_mod, bin2tap = mods['tape'], mods['bin2tap']
    ram, org = list(case['ram']), case['org']
    binf = os.path.join(scratch, 'b.bin')
    with open(binf, 'wb') as f:
        f.write(bytes(ram))
    got = {}
    for fmt in ('tap', 'pzx'):
        out = os.path.join(scratch, 'b2t.' + fmt)
        with contextlib.redirect_stdout(io.StringIO()):
            bin2tap.main(['-o', str(org), binf, out])
        if fmt == 'tap':
            got[fmt] = [list(b.data) for b in tape_mod.parse_tap(out).blocks]
        else:
            got[fmt] = [list(b.data) for b in tape_mod.parse_pzx(out).blocks if b.block_id == 'DATA']
    fails = []
    if got['tap'] != got['pzx']:
        fails.append(('bin2tap-tap-vs-pzx', 'bin2tap TAP and PZX outputs carry different blocks'))
    last = got['tap'][-1] if got['tap'] else []
    body = last[1:-1]
    diff = [i for i, (a, b) in enumerate(zip(body, ram)) if a != b]   # bin2tap may patch 4 stack bytes
    if len(body) != len(ram) or last[:1] != [255] or len(diff) > 4:
        fails.append(('bin2tap-data-block', 'last block written by bin2tap is not flag + image + parity'))
    for blk in got['tap']:
        x = 0
        for b in blk:
            x ^= b
        if x:
            fails.append(('bin2tap-parity', 'a block written by bin2tap has a wrong parity byte'))
            break
    return fails


def logical_files(items, kind):
    """The file forms of a logical tape: name -> (parser format, bytes)."""
    from indep import tapedec
    files = {}
    if kind == 'rom':
        blocks = [it[1] for it in items if it[0] == 'data']
        files['tap'] = ('tap', tapedec.tap_bytes(blocks))
        out = list(tapedec.TZX_HEADER)
        for b in blocks:
            out += tapedec.tzx_standard(b, 1000)
        files['tzx-std'] = ('tzx', out)
    files['tzx-turbo'] = ('tzx', tapedec.tzx_from_items(items))
    files['tzx-split'] = ('tzx', tapedec.tzx_from_items(items, split=True))
    zero_pulse = zero_bit_pulse(items) or any((it[0] == 'tone' and it[2] == 0) or (it[0] == 'pulses' and 0 in it[1]) for it in items)
    if not zero_pulse:
        files['pzx'] = ('pzx', tapedec.pzx_from_items(items))
    return files


def check_logical(mods, scratch, case):
    """The same logical tape as TAP / TZX (standard, turbo, tone+pulses+pure data) / PZX gives the same
    edges, which are exactly the specified pulses and decode back to the bytes."""
    from indep import tapedec
    items, kind = norm_items(case['items']), case['tape_kind']
    files = logical_files(items, kind)
    fails = []
    got = {}
    for name, (fmt, data) in files.items():
        got[name] = real_get_edges(mods, fmt, data)
        if not zero_bit_pulse(items):
            fails += signal_fails(mods, f'{kind}/{name}', fmt, data, items, case.get('fe', 0), case.get('pol', 0))
        elif cancel_pairs(got[name][0]) != cancel_pairs(tapedec.reference_edges(items)):
            # zero-length bit pulses (merge path): same signal as naive toggling
            fails.append((f'merge-signal-{fmt}', f'{kind}/{name}: with zero-length bit pulses the edge list is not the signal '
                          'obtained by toggling at every pulse end'))
    names = sorted(got)
    for a in names[1:]:
        if got[a][0] != got[names[0]][0]:
            fails.append((f'formats-differ-{names[0]}-{a}', f'{kind}: the same logical tape gives different edges as {names[0]} and {a}'))
        elif [(d[0], d[1], d[2]) for d in got[a][1] if d[3]] != [(d[0], d[1], d[2]) for d in got[names[0]][1] if d[3]]:
            fails.append((f'formats-differ-ranges-{names[0]}-{a}', f'{kind}: data block ranges differ between {names[0]} and {a}'))
    return fails


def check_pzx_logical(mods, scratch, case):
    from indep import tapedec
    items = norm_items(case['items'])
    data = tapedec.pzx_from_items(items, first_level=case.get('first_level', 0))
    return signal_fails(mods, 'pzx', 'pzx', data, items, case.get('fe', 0), case.get('pol', 0))


def check_pzx_sample(mods, scratch, case):
    """PZX data with zero-length bit pulses (odd counts too): before the end of the data the signal is the
    one obtained by toggling at every pulse end (Props: merge_level_equiv)."""
    from indep import tapedec
    items = norm_items(case['items'])
    edges, _ = real_get_edges(mods, 'pzx', tapedec.pzx_from_items(items))
    naive = tapedec.reference_edges(items)
    t_end = naive[-1]
    if (any(b < a for a, b in zip(edges, edges[1:])) or
            cancel_pairs([e for e in edges if e < t_end]) != cancel_pairs([e for e in naive if e < t_end])):
        return [('merge-signal-pzx', 'PZX data with zero-length bit pulses: before the end of the data the edge list is not '
                 'the signal obtained by toggling at every pulse end')]
    return []


def check_pzx_levels(mods, scratch, case):
    """PZX blocks whose stated initial levels need not agree with the running level (and PULS blocks that start
    with zero-length pulses, of any count): the level changes before the end of the tape are those the PZX text
    prescribes (independent reference indep/tapedec.pzx_level_changes); an odd polarity inverts the signal."""
    from indep import tapedec
    blocks = [tuple(b) for b in case['blocks']]
    fe, pol = case.get('fe', 0), case.get('pol', 0)
    edges, _ = real_get_edges(mods, 'pzx', tapedec.pzx_from_blocks(blocks), fe, pol)
    ref, t_end = tapedec.pzx_level_changes(blocks, fe)
    if pol % 2:
        ref = cancel_pairs([fe] + ref)
    fails = []
    if not edges or edges[0] != fe or any(b < a for a, b in zip(edges, edges[1:])):
        fails.append(('edges-decrease-pzx-levels', 'edge list does not start at first_edge or decreases'))
    got = cancel_pairs([e for e in edges[1:] if e < t_end])
    want = [e for e in ref if e < t_end]
    if got != want:
        k = next((i for i, (a, b) in enumerate(zip(got, want)) if a != b), min(len(got), len(want)))
        fails.append(('pzx-levels', f'PZX blocks {str(blocks)[:160]} first_edge={fe} polarity={pol}: level changes {got[k:k + 4]} (index {k}), '
                      f'the format prescribes {want[k:k + 4]}'))
    return fails


def check_empty_blocks(mods, scratch, case):
    """Zero-length blocks (TAP, TZX 0x10): they parse back as empty, nothing raises, and the edges are those of the
    tape without them."""
    from indep import tapedec
    tape_mod = mods['tape']
    blocks = [list(b) for b in case['blocks']]
    full = [b for b in blocks if b]
    fails = []
    back = [list(b.data) for b in tape_mod.parse_tap(bytes(tapedec.tap_bytes(blocks))).blocks]
    if back != blocks:
        fails.append(('roundtrip-tap-empty-block', 'a TAP file with a zero-length block parses back differently'))
    if real_get_edges(mods, 'tap', tapedec.tap_bytes(blocks)) != real_get_edges(mods, 'tap', tapedec.tap_bytes(full)):
        fails.append(('empty-block-changes-edges-tap', 'a zero-length TAP block changes the edges'))
    tzx = lambda bl: list(tapedec.TZX_HEADER) + [x for b in bl for x in tapedec.tzx_standard(b, 1000)]   # noqa
    if real_get_edges(mods, 'tzx', tzx(blocks)) != real_get_edges(mods, 'tzx', tzx(full)):
        fails.append(('empty-block-changes-edges-tzx', 'a zero-length TZX standard-speed block changes the edges'))
    return fails


def tzx_offsets(data):
    """(begin, end) byte offsets of the blocks of a TZX file made of 0x10-0x15/0x20 blocks."""
    offs = []
    i = 10
    while i < len(data):
        bid = data[i]
        if bid == 0x10:
            n = 5 + data[i + 3] + 256 * data[i + 4]
        elif bid == 0x11:
            n = 19 + data[i + 16] + 256 * data[i + 17] + 65536 * data[i + 18]
        elif bid == 0x12:
            n = 5
        elif bid == 0x13:
            n = 2 + 2 * data[i + 1]
        elif bid == 0x14:
            n = 11 + data[i + 8] + 256 * data[i + 9] + 65536 * data[i + 10]
        elif bid == 0x15:
            n = 9 + data[i + 6] + 256 * data[i + 7] + 65536 * data[i + 8]
        elif bid == 0x20:
            n = 3
        else:
            raise ValueError(bid)
        offs.append((i, i + n))
        i += n
    return offs


INFO_BLOCKS = ('group', 'text', 'archive', 'groupend')


def info_block(name):
    from indep import tapedec
    return {'group': tapedec.tzx_group_start(b'grp'), 'text': tapedec.tzx_text(b'hello'),
            'archive': tapedec.tzx_archive_info([(0, b'Title'), (255, b'c')]), 'groupend': tapedec.tzx_group_end()}[name]


def check_structure(mods, scratch, case):
    """Info/group/loop blocks and start/stop/skip: interleaved non-signal blocks do not change the edges; a
    loop equals its unrolling; start/stop/skip select exactly the numbered blocks."""
    from indep import tapedec
    tape_mod, tap2sna = mods['tape'], mods['tap2sna']
    items = norm_items(case['items'])
    plain = tapedec.tzx_from_items(items)
    offs = tzx_offsets(plain)
    base = real_get_edges(mods, 'tzx', plain)
    fails = []
    noisy = list(tapedec.TZX_HEADER)
    for (a, b), info in zip(offs, case['info']):
        if info:
            noisy += info_block(info)
        noisy += plain[a:b]
    got = real_get_edges(mods, 'tzx', noisy)
    if got[0] != base[0] or [d[:3] for d in got[1]] != [d[:3] for d in base[1]]:
        fails.append(('info-blocks-change-edges', 'interleaving group/text/archive-info blocks changes the edges'))
    reps, k = case['reps'], case['loop_at'] % len(offs)
    looped = list(tapedec.TZX_HEADER)
    unrolled = list(tapedec.TZX_HEADER)
    for j, (a, b) in enumerate(offs):
        if j == k:
            looped += tapedec.tzx_loop_start(reps) + plain[a:b] + tapedec.tzx_loop_end()
            unrolled += plain[a:b] * reps
        else:
            looped += plain[a:b]
            unrolled += plain[a:b]
    res = []
    for data in (looped, unrolled):
        _, blks = tap2sna._get_tzx_blocks(bytes(data), True, 1, 0, (), True)
        blks = [b for b in blks if b.timings]
        for b in blks:
            b.keys = None
        e, d = tape_mod.get_edges(blks)
        res.append((list(e), [(x.start, x.end, list(x.data)) for x in d]))
    if res[0] != res[1]:
        fails.append(('loop-vs-unrolled', f'a TZX loop of {reps} repetitions gives different edges than its unrolling'))
    start, stop, skip = case['start'], case['stop'], case['skip']
    for fmt, data in (('tzx', noisy), ('pzx', tapedec.pzx_from_items(items)),
                      ('tap', tapedec.tap_bytes([it[1] for it in items if it[0] == 'data']))):
        parse = {'tzx': tape_mod.parse_tzx, 'pzx': tape_mod.parse_pzx, 'tap': tape_mod.parse_tap}[fmt]
        full = parse(bytes(data)).blocks
        part = parse(bytes(data), start, stop, tuple(skip)).blocks
        want = [(b.number, b.block_id, b.data) for b in full
                if b.number >= start and (stop <= 0 or b.number < stop) and b.number not in skip]
        if [(b.number, b.block_id, b.data) for b in part] != want:
            fails.append((f'start-stop-skip-{fmt}', f'parse_{fmt}(start={start}, stop={stop}, skip={skip}) does not select the numbered blocks'))
    return fails


def check_dr(mods, scratch, case):
    """TZX direct recording (0x15) becomes the run lengths of its samples."""
    from indep import tapedec
    samples, used, tps = case['samples'], case['used'], case['tps']
    data = list(tapedec.TZX_HEADER) + tapedec.tzx_direct(tps, case.get('pause', 0), used, samples)
    blk = mods['tape'].parse_tzx(bytes(data), info=False, timings=True).blocks[0]
    got = [d for c, d in blk.timings.pulses for _ in range(c)]
    want = tapedec.direct_recording_pulses(samples, used, tps)
    if got != want:
        return [('direct-recording-pulses', f'0x15 block samples={samples} used={used} tps={tps}: pulses {got[:8]} != run lengths {want[:8]}')]
    return []


def check_tapinfo(mods, scratch, case):
    """tapinfo lists every data block with its length, in all three formats, and `-a` prints the same
    T-states as get_edges returns."""
    from indep import tapedec
    tapinfo = mods['tapinfo']
    items = norm_items(case['items'])
    blocks = [it[1] for it in items if it[0] == 'data']
    files = {'tap': tapedec.tap_bytes(blocks), 'tzx': tapedec.tzx_from_items(items), 'pzx': tapedec.pzx_from_items(items)}
    fails = []
    for fmt, data in files.items():
        fn = os.path.join(scratch, 'ti.' + fmt)
        with open(fn, 'wb') as f:
            f.write(bytes(data))
        out = io.StringIO()
        with contextlib.redirect_stdout(out):
            tapinfo.main([fn])
        lens = [int(l.split(':')[1]) for l in out.getvalue().splitlines() if l.strip().startswith('Length:')]
        if lens != [len(b) for b in blocks]:
            fails.append((f'tapinfo-lengths-{fmt}', f'tapinfo lists block lengths {lens}, tape has {[len(b) for b in blocks]}'))
        out = io.StringIO()
        with contextlib.redirect_stdout(out):
            tapinfo.main(['-a', fn])
        edges, dbs = real_get_edges(mods, fmt, data)
        rows = [l.split(None, 2) for l in out.getvalue().splitlines()[1:]]
        times = [int(r[0]) for r in rows]
        data_t = [int(r[0]) for r in rows if r[2].startswith('Data (')]
        if times != sorted(times) or data_t != [edges[d[0]] for d in dbs if d[3]]:
            fails.append((f'tapinfo-analysis-{fmt}', 'tapinfo -a: Data rows do not start at the edge the data block range starts at'))
    return fails


def tuplify(descs):
    out = []
    for t in descs:
        t = dict(t)
        t['pulses'] = [tuple(p) for p in t['pulses']]
        for k in ('zero', 'one'):
            if t[k] is not None:
                t[k] = tuple(t[k])
        out.append(t)
    return out


def check_any(mods, scratch, case):
    """For arbitrary block attribute combinations (zero-length pulses, merge path, polarity corrections,
    pauses): edges non-decreasing, never before first_edge, ranges inside the list."""
    tape_mod = mods['tape']
    fe = case['fe']
    edges, dbs = tape_mod.get_edges(mk_blocks(tape_mod, tuplify(case['descs'])), fe, case['pol'])
    if not edges or any(b < a for a, b in zip(edges, edges[1:])):
        return [('edges-decrease-any', 'edge list empty or decreasing')]
    if edges[0] < fe:
        return [('edge-before-first-edge', 'an edge precedes first_edge')]
    if any(d.start > d.end or d.end > len(edges) for d in dbs) or (dbs and dbs[-1].end > len(edges) - 1):
        return [('datablock-out-of-range', 'a data block range is outside the edge list')]
    return []


CHECKS = {'roundtrip': check_roundtrip, 'bin2tap': check_bin2tap, 'logical': check_logical, 'pzx': check_pzx_logical,
          'sample': check_pzx_sample, 'structure': check_structure, 'dr': check_dr, 'tapinfo': check_tapinfo,
          'any': check_any, 'pzxlevels': check_pzx_levels, 'empty': check_empty_blocks}


def run_check(mods, scratch, kind, case):
    """A well-formed tape that makes the real code raise is a failure of the property too
    (nothing parses back / no edges are produced)."""
    try:
        return CHECKS[kind](mods, scratch, case)
    except Exception as e:  # raised inside skoolkit on a valid input
        import traceback
        tb = traceback.extract_tb(e.__traceback__)
        where = next((f'{os.path.basename(f.filename)}:{f.name}' for f in reversed(tb) if 'skoolkit' in f.filename), None)
        if where is None:
            raise
        return [(f'crash-{kind}-{type(e).__name__}', f'{kind}: {type(e).__name__}: {e} (in {where}) on a well-formed tape')]


def evaluate(chk, mods, kind, case, tag=None, key=None, sample=None):
    chk.case(tag or 'e2e-' + kind, key, sample)
    for k, desc in run_check(mods, chk.scratch, kind, case):
        chk.violation(k, desc, {'kind': kind, 'key': k, 'case': case})


def e2e(chk, mods):
    rng = chk.rng
    for n in range(chk.scale(300, 2500)):
        blocks = rand_block_list(rng, allow_empty=False)
        if n % 25 == 0:
            blocks.append(rand_bytes(rng, rng.choice((65535, 40000, 16384))))
        evaluate(chk, mods, 'roundtrip', {'blocks': blocks, 'signal': n % 3 == 0 and sum(map(len, blocks)) < 2000},
                 key=('rt', n) if blocks else None, sample={'blocks': [b[:8] for b in blocks[:3]]})
    for n in range(chk.scale(12, 150)):
        ram = rand_bytes(rng, rng.choice((1, 2, 100, 1000, 6912)))
        org = rng.choice((32768, 65536 - len(ram), 24000))
        evaluate(chk, mods, 'bin2tap', {'ram': ram, 'org': org}, key=('b2t', n), sample={'org': org, 'len': len(ram)})
    for n in range(chk.scale(250, 2000)):
        kind = rng.choice(('rom', 'rom', 'turbo', 'turbo', 'turbo0'))
        items = rand_logical(rng, kind)
        case = {'items': items, 'tape_kind': kind, 'fe': rng.choice((0, 0, 1, 69888, -7)), 'pol': rng.choice((0, 0, 1, 1, 2, 3, -1))}
        evaluate(chk, mods, 'logical', case, tag='e2e-same-' + kind + ('-merge' if zero_bit_pulse(items) else ''), key=('same', n),
                 sample={'kind': kind, 'items': [str(i)[:60] for i in items[:4]]})
    # PZX-only tapes: arbitrary bit sequences, tails, multi-word durations, repeat counts
    for n in range(chk.scale(400, 2500)):
        items = rand_logical_pzx(rng)
        evaluate(chk, mods, 'pzx', {'items': items, 'fe': rng.choice((0, 0, 5, -2)), 'pol': rng.choice((0, 0, 1, 3))}, key=('pzx', n),
                 sample={'items': [str(i)[:60] for i in items[:4]]})
    for n in range(chk.scale(400, 2500)):
        items = []
        if rng.random() < 0.8:
            items.append(('tone', rng.choice((1, 2, 3, 4)), rng.choice((2168, 1, 5))))
        items.append(('pulses', [rng.choice((667, 735, 1)) for _ in range(rng.choice((1, 2, 3)))]))
        w = rng.choice((1, 4, 79))
        s0, s1 = rng.choice((([w, 0], [0, w]), ([0, w], [w, 0]), ([0], [w]), ([w], [0]), ([0, 0, w], [w, w]),
                             ([w, 0, w], [0, w, 0]), ([0, w], [0, 2 * w]), ([w, 0, 0], [0, 0, w])))
        items.append(('data', rand_bytes(rng, rng.choice((1, 1, 2, 3))), rng.choice((8, 8, 1, 3, 7)), s0, s1, 0))
        evaluate(chk, mods, 'sample', {'items': items}, key=('sample', n), sample={'items': [str(i)[:60] for i in items]})
    # deterministic regression inputs of the defect fixed by 135fa23 (every seed, every tier): a last byte with
    # fewer than 8 used bits and bit sequences of different lengths must still end on a bit boundary
    for items in ([('data', [0x80], 1, [100], [200, 300], 0)],
                  [('data', [0xA0], 3, [100], [200, 300], 945)],
                  [('tone', 3, 2168), ('pulses', [667, 735]), ('data', [0x55, 0xAA], 7, [1, 2, 3], [9], 0), ('pause', 3500),
                   ('pulses', [5]), ('data', [0xF8, 0x08], 5, [5], [6, 7, 8], 945), ('pause', 7), ('tone', 2, 9)]):
        for fe, pol in ((0, 0), (11, 1)):
            evaluate(chk, mods, 'pzx', {'items': items, 'fe': fe, 'pol': pol}, tag='e2e-regression-135fa23', key=('regr', str(items), fe, pol))
    directed(chk, mods)
    for n in range(chk.scale(300, 2500)):
        blocks = rand_pzx_blocks(rng)
        evaluate(chk, mods, 'pzxlevels', {'blocks': blocks, 'fe': rng.choice((0, 0, 7, -3)), 'pol': rng.choice((0, 0, 1, 2, 3))},
                 key=('pzxlevels', n), sample={'blocks': [str(b)[:60] for b in blocks[:4]]})
    for n in range(chk.scale(120, 1000)):
        items = rand_logical(rng, 'turbo')
        start, stop, skip = rand_opts(rng)
        case = {'items': items, 'info': [rng.choice(INFO_BLOCKS + (None, None, None, None)) for _ in range(40)],
                'reps': rng.choice((1, 2, 3)), 'loop_at': rng.randrange(40), 'start': start, 'stop': stop, 'skip': skip}
        evaluate(chk, mods, 'structure', case, key=('structure', n))
    for n in range(chk.scale(400, 2500)):
        case = {'samples': rand_bytes(rng, rng.choice((1, 1, 2, 3, 8))), 'used': rng.choice((8, 8, 1, 2, 5, 7)),
                'tps': rng.choice((79, 158, 1, 0)), 'pause': rng.choice((0, 1))}
        evaluate(chk, mods, 'dr', case, key=('dr', tuple(case['samples']), case['used'], case['tps']))
    for n in range(chk.scale(25, 300)):
        evaluate(chk, mods, 'tapinfo', {'items': rand_logical(rng, 'rom')}, key=('tapinfo', n))
    for n in range(chk.scale(3000, 25000)):
        descs = rand_tape(rng)
        merge = any(t['bytes'] and (0 in (t['zero'] or ()) or 0 in (t['one'] or ())) for t in descs)
        evaluate(chk, mods, 'any', {'descs': descs, 'fe': rng.choice((0, 0, 5, -3)), 'pol': rng.choice((0, 1))},
                 tag='e2e-any-merge' if merge else 'e2e-any', key=('any', n) if descs else None)


def rand_pzx_blocks(rng):
    """PZX blocks with free initial levels; never ends with a pause (the last pause of a tape is not played)."""
    blocks = []
    for _ in range(rng.choice((1, 2, 2, 3, 4, 5))):
        k = rng.randrange(7)
        if k < 3:
            pulses = [(rng.choice((1, 1, 1, 2, 3, 4)), rng.choice((1, 5, 667, 2168, 70000))) for _ in range(rng.choice((1, 1, 2, 3)))]
            if rng.random() < 0.5:
                pulses.insert(0, (rng.choice((1, 1, 2, 3, 4)), 0))        # zero-length first pulse(s): odd = start high
            if rng.random() < 0.15:
                pulses = pulses[:1]
            blocks.append(('PULS', pulses))
        elif k < 6:
            s0 = [rng.choice((1, 2, 855)) for _ in range(rng.choice((1, 2, 2, 3)))]
            s1 = [rng.choice((3, 4, 1710)) for _ in range(rng.choice((1, 2, 2, 3)))]
            blocks.append(('DATA', rng.randrange(2), rand_bytes(rng, rng.choice((1, 1, 2, 3))), rng.choice((8, 8, 1, 3, 7)), s0, s1,
                           rng.choice((0, 945, 1))))
        else:
            blocks.append(('PAUS', rng.randrange(2), rng.choice((0, 1, 3500, 3500000))))
    # the tape must end with a pulse of non-zero length (a last pause is not played; a final tail pulse is not an edge)
    while blocks and (blocks[-1][0] == 'PAUS' or (blocks[-1][0] == 'PULS' and all(d == 0 for _, d in blocks[-1][1]))):
        blocks.pop()
    if not blocks:
        blocks = [('PULS', [(1, 667)])]
    return blocks


def directed(chk, mods):
    """Deterministic groups (every seed, every tier): the smallest tapes (one pulse of 1 or 2 T-states, one bit),
    with first edges that put the last edge at -1, 0 and 1; level mismatches between consecutive PZX blocks;
    zero-length blocks."""
    tiny = [[('pulses', [1])], [('pulses', [2])], [('tone', 1, 1)], [('tone', 2, 1)], [('pulses', [1, 1])],
            [('tone', 1, 1), ('pulses', [1, 1]), ('data', [0x80], 1, [1, 1], [2, 2], 0)],
            [('tone', 2, 1), ('pulses', [1, 1]), ('data', [0x00], 8, [1, 1], [2, 2], 0), ('pause', 3500), ('pulses', [1])]]
    for items in tiny:
        for fe, pol in ((0, 0), (0, 1), (5, 0), (-2, 0), (-3, 1), (-1, 0)):
            evaluate(chk, mods, 'logical', {'items': items, 'tape_kind': 'turbo', 'fe': fe, 'pol': pol}, tag='e2e-directed-tiny',
                     key=('tiny-l', str(items), fe, pol))
    tiny_pzx = tiny[:5] + [[('data', [0x80], 1, [1], [2], 0)], [('data', [0x00], 1, [1], [2, 3], 0)], [('data', [0x80], 1, [1], [2], 1)],
                           [('pulses', [1]), ('data', [0x40], 2, [1], [2], 945), ('pause', 1), ('pulses', [1])]]
    for items in tiny_pzx:
        for fe, pol in ((0, 0), (0, 1), (5, 0), (-2, 0), (-3, 1), (-1, 0)):
            evaluate(chk, mods, 'pzx', {'items': items, 'fe': fe, 'pol': pol}, tag='e2e-directed-tiny', key=('tiny-p', str(items), fe, pol))
    data = lambda lv, tail=0: ('DATA', lv, [0xA5], 8, [1, 2], [3], tail)      # noqa
    levels = [[('PULS', [(1, 100)]), data(0)], [('PULS', [(1, 100)]), data(1)], [('PULS', [(2, 100)]), data(0)], [('PULS', [(2, 100)]), data(1)],
              [data(0)], [data(1)], [data(1, 945), ('PULS', [(1, 50)])], [data(0, 945), ('PULS', [(2, 50)])],
              [('PULS', [(1, 100)]), ('PAUS', 0, 3500), ('PULS', [(1, 50)])], [('PULS', [(1, 100)]), ('PAUS', 1, 3500), ('PULS', [(1, 50)])],
              [('PULS', [(2, 100)]), ('PAUS', 1, 3500), ('PULS', [(1, 50)])], [('PULS', [(2, 100)]), ('PAUS', 0, 3500), data(1)],
              [('PULS', [(1, 0), (3, 500)])], [('PULS', [(2, 0), (3, 500)])], [('PULS', [(3, 0), (3, 500)])], [('PULS', [(4, 0), (2, 500)])],
              [('PULS', [(1, 100)]), ('PULS', [(1, 0), (2, 50)])], [('PULS', [(1, 100)]), ('PULS', [(2, 0), (2, 50)])],
              [('PULS', [(1, 100)]), ('PULS', [(1, 50)]), ('PULS', [(1, 25)])], [data(1), data(1)], [data(0), data(0)],
              [('PAUS', 1, 1000), data(0)], [('PAUS', 1, 1000), ('PULS', [(2, 9)])], [('PAUS', 0, 1000), data(1)]]
    for blocks in levels:
        for fe, pol in ((0, 0), (3, 1)):
            evaluate(chk, mods, 'pzxlevels', {'blocks': blocks, 'fe': fe, 'pol': pol}, tag='e2e-directed-pzx-levels',
                     key=('lv', str(blocks), fe, pol))
    for blocks in ([[255, 1, 2], [], [0, 3]], [[], [255, 9]], [[0, 1], []], [[]], [[255], [], [], [255, 0, 0]]):
        evaluate(chk, mods, 'empty', {'blocks': blocks}, tag='e2e-directed-empty-blocks', key=('empty', str(blocks)))


def load_mods():
    tape_mod, tapinfo, bin2tap, tap2sna = fresh_import('skoolkit.tape', 'skoolkit.tapinfo', 'skoolkit.bin2tap', 'skoolkit.tap2sna')
    return {'tape': tape_mod, 'tapinfo': tapinfo, 'bin2tap': bin2tap, 'tap2sna': tap2sna}


def run(chk):
    chk.rule = ('correspondence: random tapes of 0-6 blocks built from TapeBlockTimings in ROM/turbo/pure-data/tone/pulse/'
                'pause/PZX-data/sample-data/direct-recording/unconstrained styles (pulse widths incl. 0 and 65535, counts incl. 0, '
                'used bits 0-12 and 255, pauses incl. 0, tails, block polarity None/0/1, first_edge incl. negative, polarity -1..3); '
                'TAP files written by write_tap then truncated/extended/corrupted, with start/stop/skip; PZX files written by '
                'write_pzx or assembled from PULS (multi-word durations, repeat counts)/DATA/PAUS/BRWS/STOP/unknown blocks then '
                'mutated; TZX files of all known block IDs (+ unknown ones) mutated likewise. e2e: logical tapes expressed as TAP, TZX (0x10, 0x11, 0x12+0x13+0x14) and PZX by independent writers, '
                'compared with independently computed reference edges and decoded back by an independent decoder, with random '
                'first_edge/polarity; writers (parse back + the exact ROM-saver signal of the written TAP/PZX file) + bin2tap + tapinfo; loops, info '
                'blocks, start/stop/skip; direct recording; PZX blocks whose stated initial levels disagree with the running level and PULS blocks '
                'starting with zero-length pulses of any count, against an independent reading of the PZX level rules; directed (every seed): the '
                'smallest tapes (one pulse of 1-2 T-states, one bit) with first edges that put the last edge at -1/0/1, level mismatches between '
                'consecutive PZX blocks, zero-length TAP/TZX blocks. '
                'non-trivial = has data bytes / distinct by content')
    chk.trusted += ['hand models lean/SkoolVerif/Model/Edges.lean, Model/TapeFiles.lean, Model/TzxFile.lean tied by correspondence (harness/props/c11.py)',
                    'independent specs lean/SkoolVerif/Spec/EdgeDecode.lean, Spec/PzxPuls.lean, Spec/DirectRec.lean (read in minutes)',
                    'independent writers/decoder harness/indep/tapedec.py', 'CPython']
    chk.assumptions += [
        'TZX: only the info=False/timings=True path of _get_tzx_block is modelled; the info text of all three parsers and the tapinfo output are covered by e2e exploration only',
        'TZX loops/jumps/calls are expanded by tap2sna/tapinfo, not by parse_tzx: loop expansion is covered by e2e only',
        'the merge loop (zero-length bit pulses) is proved sorted/in-range and level-equivalent to naive toggling (no pause since the last edge); '
        'it is not decodable by distance and has no decode theorem',
        'analyse=True printing and DataBlock.keys propagation are modelled/tied (keys) or not modelled (printing); no theorem about keys',
    ]
    mods = load_mods()
    ok = chk.lake_build([PROPS, 'SkoolVerif.Model.TzxFile', 'SkoolVerif.Prelude.Proto'])
    chk.audit(PROPS)
    if chk.thorough and ok:
        chk.leanchecker([PROPS])
    try:
        correspondence(chk, mods['tape'])
    except Exception as e:  # raised by skoolkit on a generated input: the tie cannot be evaluated
        import traceback
        tb = traceback.extract_tb(e.__traceback__)
        where = next((f'{os.path.basename(f.filename)}:{f.name}:{f.lineno}' for f in reversed(tb) if 'skoolkit' in f.filename), None)
        if where is None:
            raise
        chk.breaks.append({'kind': 'correspondence', 'name': 'Edges/TapeFiles/TzxFile models vs skoolkit.tape',
                           'detail': f'the real code raised {type(e).__name__}: {e} (in {where}) while the correspondence inputs were evaluated'})
    e2e(chk, mods)


def replay(chk, data):
    """Re-evaluate exactly the stored case; True if the same failure (same key) is still there."""
    mods = load_mods()
    fails = run_check(mods, chk.scratch, data['kind'], data['case'])
    for k, desc in fails:
        print(f'[C11] replay: {k}: {desc}')
    return any(k == data['key'] for k, _ in fails)
