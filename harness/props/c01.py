"""C01 — sna2skool -> skool2bin is lossless.

Theorems: lean/SkoolVerif/Props/C01.lean (ctl tiling for every directive list and every control text in the lexical
domain, loop unrolling, multipliers; statement splitting covers every data sub-block exactly, DEFW odd tails, code walk
with 64K wrap and RST arguments; skool2bin's sequential placement; compositions image_restored_partial /
image_restored_data; C01_full is proved false = known finding i-block-gap).
Tie: hand models Model/{CtlTiling,CtlLex,Statements,BinWriter}.lean + correspondence (props/c01_corr.py) against
skoolkit.ctlparser.CtlParser, skoolkit.disassembler.Disassembler, skoolkit.snaskool.Disassembly,
skoolkit.skool2bin.BinWriter.  E2E (props/c01_e2e.py): random images x random well-formed control files x option
grid through sna2skool.main -> skool2bin.main, byte compare outside ignored blocks."""
import os
import traceback

from framework import fresh_import
from props import c01_corr as C
from props import c01_e2e as E

PROPS = 'SkoolVerif.Props.C01'

# deterministic cases run first on every run: (name, case).  The first two are the witnesses of the
# known findings (KNOWN_FINDINGS.txt), the others are regression cases that must round-trip.
WITNESSES = [
    ('i-block-gap', {'org': 30000, 'data': list(range(1, 21)), 'args': [], 'ctl': 'b 30000\ni 30005\nb 30010\ni 30015\n',
                     'ignored': [(30005, 30010), (30015, 65536)], 'lo': 30000, 'hi': 30020, 'features': []}),
    ('m-base-instruction-operand', {'org': 30000, 'data': [0xCF, 0x3E, 5, 0xD3, 5, 0xDB, 200, 0xDD, 0x46, 5],
                                    'args': [], 'ctl': 'c 30000\nC 30000,m\ni 30010\n', 'ignored': [(30010, 65536)],
                                    'lo': 30000, 'hi': 30010, 'features': ['m-on-code']}),
    ('rst-at-65535', {'org': 65533, 'data': [0, 0, 0xCF], 'args': ['-r'], 'ctl': None, 'ignored': [], 'lo': 65533, 'hi': 65536,
                      'features': []}),
    ('rst-word-at-65534', {'org': 65533, 'data': [0, 0xCF, 7], 'args': ['-r'], 'ctl': None, 'ignored': [], 'lo': 65533,
                           'hi': 65536, 'features': []}),
    ('wrap-ld-a', {'org': 65533, 'data': [0, 0, 0x3E], 'args': ['-I', 'Wrap=1'], 'ctl': None, 'ignored': [], 'lo': 65533,
                   'hi': 65536, 'features': []}),
    ('nowrap-ld-a', {'org': 65533, 'data': [0, 0, 0x3E], 'args': [], 'ctl': None, 'ignored': [], 'lo': 65533, 'hi': 65536,
                     'features': []}),
    ('wrap-ddcb', {'org': 65530, 'data': [1, 2, 3, 0xDD, 0xCB, 5], 'args': ['-I', 'Wrap=1', '-H', '-l'], 'ctl': None,
                   'ignored': [], 'lo': 65530, 'hi': 65536, 'features': []}),
    ('defw-odd-tail-at-64k', {'org': 65531, 'data': [1, 2, 3, 4, 5], 'args': ['-I', 'DefwSize=2'], 'ctl': 'w 65531\n',
                              'ignored': [], 'lo': 65531, 'hi': 65536, 'features': []}),
    ('defw-sublengths-odd', {'org': 40000, 'data': [1, 2, 3, 4, 5, 6, 7], 'args': [], 'ctl': 'w 40000\nW 40000,5,4\nB 40005,2\ni 40007\n',
                             'ignored': [(40007, 65536)], 'lo': 40000, 'hi': 40007, 'features': []}),
    ('zero-m-base', {'org': 30000, 'data': [0x3E, 0, 0x21, 0, 0, 0, 0], 'args': [], 'ctl': 'c 30000\nC 30000,m5\nB 30005,2,m1\ni 30007\n',
                     'ignored': [(30007, 65536)], 'lo': 30000, 'hi': 30007, 'features': []}),
    ('loop-flags1', {'org': 40000, 'data': list(range(30)), 'args': ['-H'], 'ctl': 'b 40000\nB 40000,10,2\nL 40000,10,3,1\n',
                     'ignored': [], 'lo': 40000, 'hi': 40030, 'features': []}),
    ('defb-mode', {'org': 50000, 'data': [34, 92, 65, 200, 0, 0, 7], 'args': ['-d', '3'], 'ctl': None, 'ignored': [],
                   'lo': 50000, 'hi': 50007, 'features': []}),
    ('text-quotes', {'org': 50000, 'data': [34, 92, 65, 34 + 128, 94, 96, 127, 32], 'args': ['-l'], 'ctl': 't 50000\nT 50000,8,4:c2:2\ni 50008\n',
                     'ignored': [(50008, 65536)], 'lo': 50000, 'hi': 50008, 'features': []}),
]


def replay_data(case):
    return {'kind': 'e2e', 'case': {k: case[k] for k in ('org', 'data', 'args', 'ctl', 'ignored', 'lo', 'hi', 'features', 'rst_config') if k in case}}


def report(chk, mods, case, res):
    """res = (key, description) for a failing case.  (The control file is not shrunk: dropping lines changes
    the intended tiling and with it the set of ignored addresses the comparison relies on.)"""
    chk.violation(res[0], res[1], replay_data(case))


def correspondence(chk, m):
    rng = chk.rng
    groups = []          # (name, ops, impl, tags)

    # 1. control files from the grammar -> blocks / sub-blocks / sublengths / ignored lines
    ops, impl, tags = [], [], []
    for _ in range(chk.scale(1500, 14000)):
        base = rng.choice((0, 100, 30000, 65500, 65530))
        span = rng.choice((8, 30, 36, 100))
        lines = C.gen_ctl_text(rng, base, span)
        mn = rng.choice((0, 0, base, base + 3))
        mx = min(65536, rng.choice((65536, 65536, base + span, base + span - 5)))
        ops.append(f'ctl {mn} {mx} ' + '~'.join(lines))
        impl.append(C.real_ctl(m['ctlparser'], chk.scratch, lines, mn, mx))
        tags.append('ctl-loop' if any(l.startswith('L') for l in lines) else 'ctl')
    groups.append(('CtlLex+CtlTiling model vs ctlparser.CtlParser.parse_ctls/get_blocks', ops, impl, tags))

    # 2. statement splitting
    o, i, t = C.range_ops(rng, (m['snaskool'], m['disassembler'], m['z80']), chk.scale(1500, 14000))
    groups.append(('Statements model vs Disassembler._defb_lines/defw_range/defs_range', o, i, ['range-' + x for x in t]))
    o, i = C.sub_ops(rng, (m['snaskool'], m['ctlparser'], m['z80']), chk.scale(700, 6000))
    groups.append(('Statements model vs Disassembly._create_entries (data sub-block loop)', o, i, ['sub'] * len(o)))
    o, i = C.walk_ops(rng, (m['snaskool'], m['disassembler'], m['rst'], m['z80']), E.gen_bytes, chk.scale(700, 6000))
    groups.append(('Statements model vs Disassembler.disassemble (walk, wrap, RST arguments)', o, i, ['walk'] * len(o)))

    # 3. skool2bin placement
    o, i = C.bin_ops(rng, (m['skool2bin'], m['skoolkit']), chk.scratch, chk.scale(600, 5000))
    groups.append(('BinWriter model vs skool2bin.BinWriter', o, i, ['bin'] * len(o)))

    # 4. control file -> statements
    o, i, t, skipped = C.emit_ops(rng, (m['snaskool'], m['ctlparser'], m['disassembler']), chk.scratch, E.gen_bytes, E.CtlGen,
                                  chk.scale(400, 3000))
    groups.append(('CtlLex+CtlTiling+Statements model vs CtlParser + Disassembly (all instructions)', o, i, t))
    chk.extra['emit_cases_outside_model_domain'] = skipped
    return groups


def run_groups(chk, groups):
    all_ops = [op for g in groups for op in g[1]]
    if not all_ops:
        return
    model = chk.run_driver('C01', all_ops)
    if model is None:
        return
    pos = 0
    unsupported = 0
    for name, ops, impl, tags in groups:
        mo = model[pos:pos + len(ops)]
        pos += len(ops)
        keep = [k for k in range(len(ops)) if mo[k] != 'err unsupported']
        unsupported += len(ops) - len(keep)
        for k in range(len(ops)):
            chk.case(tags[k] if mo[k] != 'err unsupported' else tags[k] + '-outside-domain',
                     ops[k] if len(ops[k]) > 40 else None,
                     {'op': ops[k][:300], 'impl': impl[k][:300], 'model': mo[k][:300]} if k < 2 else None)
        chk.compare(name, [ops[k] for k in keep], [impl[k].rstrip() for k in keep], [mo[k].rstrip() for k in keep])
    chk.extra['ops_outside_lexical_domain'] = chk.extra.get('ops_outside_lexical_domain', 0) + unsupported
    if unsupported * 20 > len(all_ops):
        chk.breaks.append({'kind': 'correspondence', 'name': 'generator', 'detail': f'{unsupported} of {len(all_ops)} ops outside the model domain'})


def e2e(chk, m):
    rng = chk.rng
    mods = (m['sna2skool'], m['skool2bin'])
    cwd = os.getcwd()
    os.chdir(chk.scratch)            # a skoolkit.ini in the current directory must not influence the tools
    rt_ops, rt_impl = [], []
    rt_max = chk.scale(250, 2500)
    try:
        for name, case in WITNESSES:
            case = dict(case)
            res = E.check_case(mods, chk.scratch, case)
            chk.case('witness', ('witness', name), {'witness': name, 'result': res[0] if res else 'lossless'})
            if res:
                chk.violation(res[0], res[1], replay_data(case))
        for name, case in E.directed_cases():
            res = E.check_case(mods, chk.scratch, case)
            chk.case('directed', ('directed', name), None)
            if res:
                chk.violation(res[0], f'directed case {name}: ' + res[1], replay_data(case))
        skipped = 0
        gen_errors = 0
        for n in range(chk.scale(3600, 30000)):
            try:
                case = E.gen_case(rng, (m['snaskool'],), big=chk.thorough and n % 50 == 0)
            except Exception as e:
                # the generator sizes instructions with the real Disassembler: an exception there is a defect of the
                # code under test, not of the harness (recorded as a break; the run goes on)
                gen_errors += 1
                if gen_errors == 1:
                    chk.breaks.append({'kind': 'generator', 'name': 'e2e case generator (real Disassembler used to find instruction boundaries)',
                                       'detail': ''.join(traceback.format_exception_only(type(e), e))[:400] + traceback.format_exc()[-800:]})
                if gen_errors > 200:
                    break
                continue
            res = E.check_case(mods, chk.scratch, case)
            tag = 'e2e-' + case['mode']
            if case['ignored'] and case['ignored'][0][1] < case['hi']:
                tag += '-igap'
            chk.case(tag, (case['org'], bytes(case['data']), case['ctl'], tuple(case['args'])),
                     {'org': case['org'], 'len': len(case['data']), 'args': case['args'], 'ctl': (case['ctl'] or '')[:400],
                      'result': res[0] if res else 'lossless'} if n < 3 else None)
            for f in case['features']:
                chk.dist['feature:' + f] += 1
            if case.get('skipped'):
                skipped += 1
            if res:
                report(chk, mods, case, res)
            # the same case through the model pipeline (ctl mode, no RST handling, no 'm' on code; lossless cases only:
            # when a gap relocates instructions skool2bin also rewrites address operands, which is not modelled)
            if (res is None and case['mode'] == 'ctl' and len(rt_ops) < rt_max and '-r' not in case['args']
                    and 'm-on-code' not in case['features'] and case.get('result') is not None and not case.get('skipped')):
                rt_ops.append(case['rt_op'])
                rt_impl.append(case['result'])
        chk.extra['e2e_skipped_straddle_warning'] = skipped
    finally:
        os.chdir(cwd)
    return rt_ops, rt_impl


def run(chk):
    chk.rule = ('correspondence: control files from the ctl grammar (entries, B/C/S/T/W/blank sub-blocks, base prefixes, sublength lists '
                'with : and *, M/N/D/E/R/> lines, L loops with flags, malformed numbers/addresses/directives, ranges cut by min/max) -> '
                'blocks+sub-blocks+sublengths+ignored lines; _defb_lines/defw_range/defs_range on short snapshots (end of snapshot = 64K edge); '
                'data sub-block loop; disassemble walk near 65536 with Wrap/RST handlers; BinWriter on small skool files with @org, blank i lines, '
                'unassemblable lines; ctl -> all instructions. e2e: run-structured images (code-like, text-like, constant runs) at 64K/0/random '
                'origins x well-formed control files built tiling-first (all block types, sub-blocks, sublengths, multipliers, loops, M/N splits, '
                'ignored blocks, -s/-e, varied directive/address separators) or none or -d x options (-H -l -w -r DefbSize DefmSize DefwSize Opcodes Wrap Text '
                'InstructionWidth Semicolons); directed deterministic groups on every seed: every opcode slot of the seven decoder tables x '
                '{-H,-l,Opcodes=ALL} x two operand pairs, with -r, and under every code base prefix (b c d h n + two-letter); every RST opcode with a byte and '
                'with a word argument (RSTHandlerConfig through a skoolkit.ini in the scratch directory), also cut by the 64K boundary; every byte value in '
                'DEFB/DEFM/DEFW/DEFS under every data base prefix x {-H,-l}. An overlap warning excuses a mismatch only at the end of the range. '
                'non-trivial = distinct op text / distinct (image, ctl, options)')
    chk.trusted += ['hand models lean/SkoolVerif/Model/{CtlTiling,CtlLex,Statements,BinWriter}.lean tied by correspondence (harness/props/c01_corr.py)',
                    'instruction decoding and operand text <-> bytes (C02/C07): enters the theorems as the hypothesis AsmOk / a length oracle',
                    'CPython, the harness generators']
    chk.assumptions += [
        'C02: the text of every decoded instruction (or its @bytes directive) assembles back to its bytes; DEFB/DEFM/DEFW/DEFS item structure is proved, operand rendering is not modelled',
        'comments, titles, ASM directives (incl. @defb/@defs/@defw data directives in ctl files), multi-line comment bookkeeping, reference calculation are not modelled (merged_groups_keep_instructions covers the M-grouping)',
        'skool file text layer (line format, read_skool, @bytes) is covered by the e2e search only',
        'known findings: i-block-gap (C01_full_false), m-base-instruction-operand',
        'outside the quantifier (generator avoids, chk.note): multi-part sublength statement cut by the end of its sub-block -> empty trailing DEFB item / IndexError in get_message; DEFS size not dividing the sub-block; odd-length w sub-block without sublengths; negative (m) DEFS size']
    names = ('sna2skool', 'skool2bin', 'snaskool', 'ctlparser', 'disassembler', 'z80', 'rst')
    mods = fresh_import('skoolkit', *['skoolkit.' + n for n in names])
    m = dict(zip(('skoolkit',) + names, mods))
    ok = chk.lake_build([PROPS, 'SkoolVerif.Prelude.Proto', 'SkoolVerif.Model.CtlLex'])
    chk.audit(PROPS)
    if chk.thorough and ok:
        chk.leanchecker([PROPS])
    try:
        groups = correspondence(chk, m)
    except Exception as e:
        # the real code raised where the model has no such branch: a correspondence break, not a harness failure
        chk.breaks.append({'kind': 'correspondence', 'name': 'real code raised ' + type(e).__name__, 'detail': traceback.format_exc()[-1200:]})
        groups = []
    run_groups(chk, groups)
    rt_ops, rt_impl = e2e(chk, m)
    if rt_ops:
        run_groups(chk, [('whole model pipeline (parseFile, getBlocks, emit, place, writeFile) vs sna2skool.main + skool2bin.main output file',
                          rt_ops, rt_impl, ['rt'] * len(rt_ops))])
    chk.note('observation (outside the quantifier, not raised): sublength statements with several parts that are cut by the end of the '
             "sub-block make sna2skool write an empty trailing item ('DEFB 1,2,') or raise IndexError in get_message")


def replay(chk, data):
    mods = fresh_import('skoolkit.sna2skool', 'skoolkit.skool2bin')
    cwd = os.getcwd()
    os.chdir(chk.scratch)
    try:
        case = dict(data['case'])
        case['ignored'] = [tuple(r) for r in case['ignored']]
        res = E.check_case(tuple(mods), chk.scratch, case)
    finally:
        os.chdir(cwd)
    if res:
        print(f'{res[0]}: {res[1]}')
    return bool(res)
