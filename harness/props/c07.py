"""C07 — all instruction tables agree on length, mnemonic and timing of every opcode.

Theorems: lean/SkoolVerif/Props/C07.lean over
  * the data tables of disassembler.py / traceutils.py / opcodes.py / z80.py, dumped on every run by
    translate/gen_c07.py into Gen/C07Tables.lean, and hand models of the small decode wrappers
    (Model/InstrDecode.lean) tied here by exhaustive correspondence (all 1786 opcode slots x addresses
    incl. the 64K boundary x operand patterns x additional-opcode sets);
  * the simulator model generated from simulator.py (Gen/SimHandlers.lean) with the per-closure T-state
    sets / fall-through sizes derived from the Python AST and validated by proof (Gen/C07SimFacts.lean).
E2E: the property itself on the real code — for every slot the four real decoders and one step of the real
Python and C simulators are compared directly (lengths, texts, T-states, no KeyError)."""
import os
import sys

import simcorr
import simgen
from framework import VERIF, REPO, LeanLock, fresh_import

sys.path.insert(0, os.path.join(VERIF, 'translate'))

PROPS = 'SkoolVerif.Props.C07'
PREFIXES = simcorr.PREFIXES
TBL_INDEX = {'MAIN': 0, 'CB': 1, 'ED': 2, 'DD': 3, 'FD': 4, 'DDCB': 5, 'FDCB': 6}
OPTIONS = ('ED63', 'ED6B', 'ED70', 'ED71', 'IM', 'NEG', 'RETN', 'XYCB')
BOUNDARY = (65532, 65533, 65534, 65535)
OPERANDS = ((0x00, 0x00), (0x05, 0x12), (0x7F, 0x34), (0x80, 0xFF), (0xFF, 0x80), (0xFE, 0x01), (0x12, 0xFF))


class Instr:
    def __init__(self, address, operation, data):
        self.address, self.operation, self.bytes = address, operation, data


def slots():
    """Every opcode sequence class: (table, opcode) reachable from the start of an instruction."""
    for tbl, p in PREFIXES.items():
        for op in range(256):
            if tbl == 'MAIN' and op in (0xCB, 0xED, 0xDD, 0xFD):
                continue
            if tbl in ('DD', 'FD') and op == 0xCB:
                continue
            yield tbl, op


def code_of(tbl, op, d, n):
    """Opcode bytes of a slot with operand bytes d, n (6 bytes, so whatever follows is defined)."""
    p = PREFIXES[tbl]
    if len(p) == 2:
        return list(p) + [d, op, n, d]
    return (list(p) + [op, d, n, d, n, d])[:6]


def regen(chk):
    ok = simgen.regen(chk)
    import importlib
    if 'gen_c07' in sys.modules:
        importlib.reload(sys.modules['gen_c07'])
    import gen_c07
    outputs = {}
    for fn, f, label in (('C07SimFacts.lean', gen_c07.gen_simfacts, 'simulator.py -> Gen/C07SimFacts.lean'),
                         ('C07Tables.lean', gen_c07.gen_tables, 'disassembler/traceutils/opcodes/z80 tables -> Gen/C07Tables.lean')):
        try:
            outputs[fn] = f(REPO)
        except Exception as e:
            chk.breaks.append({'kind': 'translator', 'name': label, 'detail': f'{type(e).__name__}: {e}'})
            ok = False
    changed = []
    with LeanLock():
        for fn, text in outputs.items():
            if chk.write_gen(os.path.join('SkoolVerif', 'Gen', fn), text):
                changed.append(fn)
    if changed:
        chk.note('regenerated (source changed): ' + ', '.join(changed))
    chk.extra['generated_files'] = sorted(set(chk.extra.get('generated_files', [])) | set(outputs))
    return ok


class World:
    """The real code under test: modules, a shared snapshot, disassemblers per configuration."""

    def __init__(self):
        (self.disassembler, self.traceutils, self.opcodes, self.z80, self.snaskool) = fresh_import(
            'skoolkit.disassembler', 'skoolkit.traceutils', 'skoolkit.opcodes', 'skoolkit.z80', 'skoolkit.snaskool')
        self.mem = [0] * 65536
        self.dirty = []
        self.cache = {}

    def dis(self, opts, lower, wrap, hexa):
        key = (opts, lower, wrap, hexa)
        if key not in self.cache:
            names = ','.join(o for i, o in enumerate(OPTIONS) if opts >> i & 1)
            cfg = self.snaskool.DisassemblerConfig(hexa, lower, 8, 65, 1, False, Instr, names, wrap)
            self.cache[key] = self.disassembler.Disassembler(self.mem, cfg)
        return self.cache[key]

    def poke(self, a, code):
        for x in self.dirty:
            self.mem[x] = 0
        self.dirty = [(a + k) % 65536 for k in range(len(code))]
        for k, b in enumerate(code):
            self.mem[(a + k) % 65536] = b


def real_dis(w, opts, lower, wrap, fmt, a, code):
    w.poke(a, code)
    d = w.dis(opts, lower, wrap, fmt != 0)
    try:
        ins = d.disassemble(a, a + 1, 'n')
    except KeyError:
        return 'err key'
    except IndexError:
        return 'err format'
    except (TypeError, ValueError):
        return 'err type'
    except Exception as e:
        return f'err {type(e).__name__}'
    i = ins[0]
    return f'ok {i.variant} {",".join(map(str, i.bytes))} | {i.operation}'


def corr_dis(chk, w):
    rng = chk.rng
    ops, impl = [], []
    singles = [1 << i for i in range(8)]
    cfgs = [0, 255] + singles
    n_extra = chk.scale(2, 24)

    def add(tbl, op, opts, lower, wrap, fmt, a, d, n, tag):
        code = code_of(tbl, op, d, n)
        if fmt and lower:
            fmt = 2          # `${:02x}`
        out = real_dis(w, opts, lower, wrap, fmt, a, code)
        ops.append(f'dis {opts} {int(lower)} {int(wrap)} {fmt} {a} ' + ' '.join(map(str, code)))
        impl.append(out)
        chk.case(tag, ('dis', tbl, op, opts, lower, wrap, a, d, n),
                 {'op': ops[-1], 'impl': out} if (tbl, op, a) in (('DD', 0x36, 0x8000), ('ED', 0x63, 65534)) else None)

    for tbl, op in slots():
        relevant = [c for c in cfgs if c in (0, 255)]
        if tbl == 'ED':
            relevant = cfgs
        elif tbl in ('DDCB', 'FDCB'):
            relevant = [0, 128, 255]
        for opts in relevant:
            d, n = OPERANDS[(op + opts) % len(OPERANDS)]
            add(tbl, op, opts, False, False, 0, 0x8000, d, n, 'dis:mid')
            for a in BOUNDARY:
                add(tbl, op, opts, False, False, 0, a, d, n, 'dis:boundary')
                add(tbl, op, opts, False, True, 0, a, d, n, 'dis:boundary-wrap')
        for k in range(n_extra):
            d, n = rng.choice(OPERANDS + ((rng.randrange(256), rng.randrange(256)),))
            a = rng.choice((0, 1, 0x3FFF, 0x4000, 0x7FFF, 65280, 65400, 65530, 65531) + BOUNDARY + (rng.randrange(65536),))
            add(tbl, op, rng.choice((0, 255, rng.randrange(256))), rng.random() < 0.3, rng.random() < 0.5, rng.choice((0, 1, 1)), a, d, n, 'dis:random')
    # relative jumps: every offset at the addresses where the target leaves 0..65535
    for op in (0x10, 0x18, 0x20, 0x28, 0x30, 0x38):
        for d in range(256):
            for a in (0, 1, 100, 125, 126, 127, 128, 0x8000, 65400, 65406, 65407, 65408, 65409, 65534, 65535):
                if chk.thorough or (d + a + op) % 3 == 0:
                    add('MAIN', op, 0, False, (d + a) % 2 == 0, 1, a, d, 0, 'dis:jr')
    # all operand values for the indexed / immediate forms
    for tbl, op in (('DD', 0x36), ('FD', 0x36), ('DD', 0x46), ('DDCB', 0x06), ('FDCB', 0x46), ('MAIN', 0x3E), ('MAIN', 0x21), ('DD', 0x21),
                    ('ED', 0x43), ('MAIN', 0xC7), ('MAIN', 0xFF), ('DD', 0x26)):
        for d in range(256):
            if chk.thorough or d % 2 == 0 or d in (127, 129, 255):
                add(tbl, op, 255, False, False, d % 2, 0x9000, d, (d * 7 + 3) % 256, 'dis:operands')
    model = chk.run_driver('C07', ops)
    chk.compare('Disassembler.disassemble vs model disasm', ops, impl, model)


def corr_trace(chk, w):
    rng = chk.rng
    ops, impl = [], []

    def add(tbl, op, fmt, a, d, n, tag):
        code = code_of(tbl, op, d, n)
        w.poke(a, code)
        try:
            text, size = w.traceutils.disassemble(w.mem, a, *(('$', '02X', '04X') if fmt == 0 else ('', '', '')))
            out = f'ok {size} | {text}'
        except IndexError:
            out = 'err index'
        except KeyError:
            out = 'err key'
        except TypeError:
            out = 'err type'
        except Exception as e:
            out = f'err {type(e).__name__}'
        ops.append(f'tr {fmt} {a} ' + ' '.join(map(str, code)))
        impl.append(out)
        chk.case(tag, ('tr', tbl, op, a, d, n), {'op': ops[-1], 'impl': out} if (tbl, op, a) == ('FD', 0x36, 65534) else None)

    for tbl, op in slots():
        d, n = OPERANDS[op % len(OPERANDS)]
        add(tbl, op, 0, 0x8000, d, n, 'trace:mid')
        for a in BOUNDARY:
            add(tbl, op, a % 2, a, d, n, 'trace:boundary')
        for k in range(chk.scale(2, 24)):
            d, n = rng.choice(OPERANDS + ((rng.randrange(256), rng.randrange(256)),))
            add(tbl, op, rng.randrange(2), rng.choice((0, 1, 2, 126, 127, 65400, 65530) + BOUNDARY + (rng.randrange(65536),)), d, n, 'trace:random')
    for op in (0x10, 0x18, 0x20, 0x28, 0x30, 0x38):
        for d in range(256):
            for a in (0, 1, 126, 127, 128, 0x8000, 65407, 65408, 65534, 65535):
                add('MAIN', op, 0, a, d, 0, 'trace:jr')
    for tbl, op in (('DD', 0x36), ('FD', 0x36), ('DD', 0x46), ('DDCB', 0x06), ('FDCB', 0x46), ('MAIN', 0x3E), ('MAIN', 0x21), ('DD', 0x21),
                    ('ED', 0x43), ('MAIN', 0xC7), ('MAIN', 0xFF), ('DD', 0x26)):
        for d in range(256):
            add(tbl, op, d % 2, 0x9000, d, (d * 7 + 3) % 256, 'trace:operands')
    model = chk.run_driver('C07', ops)
    chk.compare('traceutils.disassemble vs model traceDis', ops, impl, model)


def corr_decode(chk, w):
    rng = chk.rng
    ops, impl = [], []

    def add(tbl, op, a, d, n, tag):
        code = code_of(tbl, op, d, n)
        w.poke(a, code)
        try:
            e = next(w.opcodes.decode(w.mem, a, a + 1))
            out = f'ok {e[1]} {int(e[4].startswith("DEFB"))}'
        except KeyError:
            out = 'err key'
        except Exception as e:
            out = f'err {type(e).__name__}'
        ops.append(f'dec {a} ' + ' '.join(map(str, code)))
        impl.append(out)
        chk.case(tag, ('dec', tbl, op, a), {'op': ops[-1], 'impl': out} if (tbl, op, a) == ('DDCB', 0x06, 65533) else None)

    for tbl, op in slots():
        d, n = OPERANDS[op % len(OPERANDS)]
        for a in (0, 0x8000, 65530, 65531) + BOUNDARY:
            add(tbl, op, a, d, n, 'decode:mid' if a < 65530 else 'decode:boundary')
        for k in range(chk.scale(1, 12)):
            add(tbl, op, rng.randrange(65536), rng.randrange(256), rng.randrange(256), 'decode:random')
    model = chk.run_driver('C07', ops)
    chk.compare('opcodes.decode vs model decodeStep', ops, impl, model)


def corr_timing(chk, w):
    rng = chk.rng
    ops, impl = [], []

    def add(is_def, bs, tag):
        ins = Instr(0, 'DEFB 1' if is_def == 1 else ('defs 2' if is_def == 2 else 'NOP'), list(bs))
        try:
            t = w.z80.get_timing(ins)
            if t is None:
                out = 'none'
            elif isinstance(t, tuple):
                out = f'two {t[0]} {t[1]}'
            else:
                out = f'one {t}'
        except KeyError:
            out = 'err key'
        except IndexError:
            out = 'err index'
        except Exception as e:
            out = f'err {type(e).__name__}'
        ops.append(f'tm {int(bool(is_def))} ' + ' '.join(map(str, bs)))
        impl.append(out)
        chk.case(tag, ('tm', is_def, tuple(bs)), {'op': ops[-1], 'impl': out} if tuple(bs[:2]) == (0xED, 0xB0) else None)

    for tbl, p in PREFIXES.items():
        for op in range(256):
            code = code_of(tbl, op, 5, 7)
            add(0, code[:4], 'timing:slot')
            add(0, code[:len(p) + 1], 'timing:short')
            if op % 16 == 0:
                add(1 + op // 16 % 2, code[:4], 'timing:def')
    for bs in ([], [0xCB], [0xED], [0xDD], [0xFD], [0xDD, 0xCB], [0xFD, 0xCB, 1], [0xDD, 0xCB, 1, 6], [0xDD, 0xDD], [0xFD, 0xED, 0x40]):
        add(0, bs, 'timing:edge')
        add(1, bs, 'timing:edge')
    for _ in range(chk.scale(300, 5000)):
        bs = [rng.choice((0xCB, 0xED, 0xDD, 0xFD, rng.randrange(256)))] + [rng.choice((0xCB, rng.randrange(256))) for _ in range(rng.randrange(4))]
        add(0, bs, 'timing:random')
    model = chk.run_driver('C07', ops)
    chk.compare('z80.get_timing vs model getTiming', ops, impl, model)


CONTROL = {'JP', 'JR', 'CALL', 'RET', 'RETI', 'RETN', 'RST', 'DJNZ', 'HALT', 'LDIR', 'LDDR', 'CPIR', 'CPDR', 'INIR', 'INDR', 'OTIR', 'OTDR'}


def sim_states(a, code):
    """Directed single-step states for the instruction `code` at `a`: flags all clear / all set, (B, C) = (1, 0)
    and (0, 1) so that every conditional jump, DJNZ and repeating block instruction takes each of its two paths
    in one of them; A != (HL) so that CPIR/CPDR do not stop on a match; interrupts disabled; T = 0 (border time:
    the contended simulators add no delay there)."""
    states = []
    for f, b, c in ((0x00, 1, 0), (0xFF, 0, 1), (0x00, 0, 1), (0xFF, 1, 0)):
        regs = [0x55, f, b, c, 0x12, 0x34, 0x90, 0x00, 0xA0, 0x00, 0xB0, 0x00, 0xC000, 0, 0x3F, 0x11,
                0, 0, 0, 0, 0, 0, 0, 0]
        fields = [a, 0, 0, 1, 0, 0]
        mem = {(a + k) % 65536: v for k, v in enumerate(code)}
        for addr in (0x9000, 0xA000, 0xB000, 0x1234, 0xC000, 0xC001):
            mem.setdefault(addr, 0xAA)
        states.append((regs, fields, mem, [0x5A, 0x5A], [1, 1, 1, 1]))
    return states


def step_delta(out):
    parts = out.split(';')
    if len(parts) != 6:
        return None
    f = list(map(int, parts[1].split()))
    return f[0], f[1]


def opt_names(opts):
    return ','.join(o for i, o in enumerate(OPTIONS) if opts >> i & 1) or '(none)'


def check_case(w, impls, tbl, op, a, d, n, opts, run_sims=True):
    """The property on the real code for one opcode sequence at one address under one additional-opcode set.
    Returns [(key, description)] of violations, and a tag describing the case."""
    code = code_of(tbl, op, d, n)
    w.poke(a, code)
    bad = []
    tag = f'e2e:{tbl}:lookup-failed'
    try:
        text_tr, L = w.traceutils.disassemble(w.mem, a, '$', '02X', '04X')
    except Exception as e:
        return [(f'lookup:traceutils.disassemble:{tbl}:{type(e).__name__}', f'{tbl} {op:02X} at {a} (bytes {code}): traceutils.disassemble raises '
                 f'{type(e).__name__}({e})')], tag
    fits = a + L <= 65536
    try:
        dec = next(w.opcodes.decode(w.mem, a, a + 1))
    except Exception as e:
        bad.append((f'lookup:opcodes.decode:{tbl}:{type(e).__name__}', f'{tbl} {op:02X} at {a} (bytes {code}): opcodes.decode raises '
                    f'{type(e).__name__}({e}); traceutils.disassemble gives "{text_tr}" ({L} byte(s))'))
        dec = None
    ins = {}
    for wrap in (False, True):
        try:
            i = w.dis(opts, False, wrap, True).disassemble(a, a + 1, 'n')[0]
        except Exception as e:
            bad.append((f'lookup:Disassembler.disassemble:{tbl}:{type(e).__name__}', f'{tbl} {op:02X} at {a} (bytes {code}): Disassembler.disassemble '
                        f'(Opcodes={opt_names(opts)}, wrap={wrap}) raises {type(e).__name__}({e}); traceutils.disassemble gives "{text_tr}" ({L} byte(s))'))
            return bad, tag
        ins[wrap] = i
        nb = len(i.bytes)
        is_defb = i.operation.upper().startswith('DEF')
        if fits:
            if nb != L:
                bad.append((f'length:disassembler-vs-trace:{tbl}', f'{tbl} {op:02X} at {a}: Disassembler (Opcodes={opt_names(opts)}, wrap={wrap}) '
                            f'gives {nb} byte(s) for "{i.operation}", traceutils.disassemble {L} for "{text_tr}"'))
        elif not wrap:
            if nb != min(L, 65536 - a):
                bad.append((f'length:disassembler-at-64K:{tbl}', f'{tbl} {op:02X} at {a}: Disassembler (no wrap) gives {nb} byte(s), '
                            f'expected {min(L, 65536 - a)} (instruction of {L} bytes cut at 65536)'))
        elif not is_defb and nb != L:
            bad.append((f'length:disassembler-wrap:{tbl}', f'{tbl} {op:02X} at {a}: Disassembler (wrap) gives {nb} byte(s) for '
                        f'"{i.operation}", traceutils.disassemble {L}'))
        # mnemonic and operands: same formatter on both sides ('$' + 02X / 04X  <->  asm_hex)
        if fits and not is_defb and i.operation != text_tr:
            bad.append((f'text:{tbl}', f'{tbl} {op:02X} at {a}: Disassembler (Opcodes={opt_names(opts)}) prints "{i.operation}", '
                        f'traceutils.disassemble prints "{text_tr}"'))
        if fits and is_defb and opts == 255 and not text_tr.startswith('DEFB') and not (tbl == 'MAIN' and op in (0x10, 0x18, 0x20, 0x28, 0x30, 0x38)):
            bad.append((f'text:defb-vs-instruction:{tbl}', f'{tbl} {op:02X} at {a}: Disassembler (Opcodes=ALL) prints "{i.operation}", '
                        f'traceutils.disassemble prints "{text_tr}"'))
    want = min(L, 65536 - a)
    if dec is not None and dec[1] != want:
        bad.append((f'length:decode-vs-trace:{tbl}', f'{tbl} {op:02X} at {a}: opcodes.decode sizes "{dec[4]}" as {dec[1]}, '
                    f'traceutils.disassemble says {L} (Disassembler: {len(ins[False].bytes)})'))
    # static timing
    timings = {}
    for wrap in (False, True):
        i = ins[wrap]
        try:
            timings[wrap] = w.z80.get_timing(i)
        except Exception as e:
            bad.append((f'timing-lookup:{tbl}:{type(e).__name__}', f'{tbl} {op:02X} at {a}: get_timing raises {type(e).__name__}({e}) for '
                        f'"{i.operation}" {list(i.bytes)} (Opcodes={opt_names(opts)})'))
            timings[wrap] = 'error'
            continue
        if timings[wrap] is None and i.bytes and not i.operation.upper().startswith('DEF'):
            bad.append((f'timing-missing:{tbl}', f'{tbl} {op:02X} at {a}: get_timing returns None for the instruction "{i.operation}"'))
    tag = f'e2e:{tbl}:' + ('mid' if fits else 'boundary')
    if not run_sims:
        return bad, tag
    # one step of the real simulators
    t = timings[True]
    members = None if t in (None, 'error') else (t if isinstance(t, tuple) else (t,))
    word = text_tr.split()[0]
    # conditional / repeating control transfers have a fall-through path; unconditional ones and HALT do not
    conditional = (word in ('JP', 'JR', 'CALL') and ',' in text_tr) or (word == 'RET' and ' ' in text_tr) or \
        word in ('DJNZ', 'LDIR', 'LDDR', 'CPIR', 'CPDR', 'INIR', 'INDR', 'OTIR', 'OTDR')
    for name, wrapper, _, is_c in impls:
        seen = set()
        pcs = set()
        for st in sim_states(a, code):
            out = wrapper.step(*st)
            r = step_delta(out)
            if r is None:
                bad.append((f'simulator-exception:{name}:{tbl}', f'{name}: {tbl} {op:02X} at {a}: {out[:200]}'))
                break
            pc2, dt = r
            seen.add(dt)
            pcs.add(pc2)
            if members is not None and dt not in members:
                bad.append((f'timing:{name}:{tbl}', f'{name}: {tbl} {op:02X} ("{text_tr}") at {a} takes {dt} T-states, get_timing says {t}'))
            if word not in CONTROL and pc2 != (a + L) % 65536:
                bad.append((f'length:{name}-vs-trace:{tbl}', f'{name}: {tbl} {op:02X} ("{text_tr}") at {a}: PC advances to {pc2}, '
                            f'traceutils.disassemble says {L} byte(s)'))
        if conditional and (a + L) % 65536 not in pcs:
            bad.append((f'length:{name}-vs-trace:{tbl}', f'{name}: {tbl} {op:02X} ("{text_tr}") at {a}: when the condition is false / the '
                        f'count is exhausted PC goes to {sorted(pcs)}, never to {(a + L) % 65536} = address + {L} byte(s) as '
                        f'traceutils.disassemble says'))
        if members is not None and len(members) == 2 and set(members) != seen:
            bad.append((f'timing-pair:{name}:{tbl}', f'{name}: {tbl} {op:02X} ("{text_tr}") at {a}: get_timing says {t} but the simulator '
                        f'takes {sorted(seen)} over states that exercise both paths'))
        if members is not None and len(members) == 1 and seen != set(members):
            bad.append((f'timing:{name}:{tbl}', f'{name}: {tbl} {op:02X} ("{text_tr}") at {a} takes {sorted(seen)} T-states, get_timing says {t}'))
    return bad, tag


def e2e(chk, w, impls):
    rng = chk.rng
    n = 0
    for tbl, op in slots():
        cases = []
        d, nn = OPERANDS[op % len(OPERANDS)]
        opt_sets = [0, 255]
        if tbl == 'ED':
            opt_sets += [1 << i for i in range(7)]
        elif tbl in ('DDCB', 'FDCB'):
            opt_sets += [128]
        for opts in opt_sets:
            cases.append((0x8000, d, nn, opts, opts in (0, 255)))
        for a in BOUNDARY:
            cases.append((a, d, nn, 255, a >= 65534 or chk.thorough))
            cases.append((a, d, nn, 0, False))
        for _ in range(chk.scale(1, 8)):
            cases.append((rng.choice((0, 0x3FFE, 0x4000, 0x7FFF, 0xC000, 65531, rng.randrange(65536))), rng.randrange(256), rng.randrange(256),
                          rng.choice((0, 255, rng.randrange(256))), chk.thorough))
        for a, dd, nv, opts, sims in cases:
            bad, tag = check_case(w, impls, tbl, op, a, dd, nv, opts, run_sims=sims)
            n += 1
            chk.case(tag + (':sim' if sims else ''), ('e2e', tbl, op, a, dd, nv, opts),
                     {'slot': f'{tbl}:{op:02X}', 'a': a, 'opts': opts} if (tbl, op, a) in (('ED', 0xB0, 65535), ('FD', 0x21, 0x8000)) else None)
            for key, desc in bad:
                chk.violation(key, desc, {'kind': 'slot', 'tbl': tbl, 'op': op, 'a': a, 'd': dd, 'n': nv, 'opts': opts, 'sims': sims, 'key': key})
    # directed operand sweep (decoders only): the sign boundary of the index displacement for every DD/FD/DDCB/FDCB slot,
    # and the relative-jump offsets around the sign boundary at the ends of memory
    sweep = [(tbl, op, 0x8000, dd, 0x81) for tbl in ('DD', 'FD', 'DDCB', 'FDCB') for op in range(256)
             if not (tbl in ('DD', 'FD') and op == 0xCB) for dd in (0x00, 0x7F, 0x80, 0xFF)]
    sweep += [('MAIN', op, a, dd, 0) for op in (0x10, 0x18, 0x20, 0x28, 0x30, 0x38) for dd in (0x00, 0x01, 0x7E, 0x7F, 0x80, 0x81, 0xFE, 0xFF)
              for a in (0, 1, 126, 127, 0x8000, 65407, 65408, 65534)]
    for tbl, op, a, dd, nv in sweep:
        bad, tag = check_case(w, impls, tbl, op, a, dd, nv, 255, run_sims=False)
        chk.case('e2e:operand-sweep', ('e2e-operands', tbl, op, a, dd))
        for key, desc in bad:
            chk.violation(key, desc, {'kind': 'slot', 'tbl': tbl, 'op': op, 'a': a, 'd': dd, 'n': nv, 'opts': 255, 'sims': False, 'key': key})
    if chk.thorough:
        # every subset of the seven options that touch after_ED, for every ED slot; XYCB on/off for every DDCB/FDCB slot
        for op in range(256):
            for opts in range(128):
                for a in (0x8000, 65533):
                    bad, tag = check_case(w, impls, 'ED', op, a, 0x34, 0x12, opts, run_sims=False)
                    chk.case(tag + ':all-option-sets', ('e2e-opts', op, opts, a))
                    for key, desc in bad:
                        chk.violation(key, desc, {'kind': 'slot', 'tbl': 'ED', 'op': op, 'a': a, 'd': 0x34, 'n': 0x12, 'opts': opts, 'sims': False, 'key': key})
    # sequences the assembler emits: get_timing must answer for them too (skool2html #TSTATES path)
    asm = w.z80.Assembler()
    for tbl, op in slots():
        code = code_of(tbl, op, 5, 7)
        w.poke(0x8000, code)
        try:
            text, L = w.traceutils.disassemble(w.mem, 0x8000, '', '', '')
        except Exception:
            continue        # reported per slot by check_case
        if text.startswith('DEFB'):
            continue
        data = asm.assemble(text, 0x8000)
        chk.case('e2e:assembler', ('asm', tbl, op) if data else None)
        if not data:
            continue
        try:
            t = w.z80.get_timing(Instr(0x8000, text, list(data)))
        except Exception as e:
            chk.violation(f'timing-lookup:assembled:{type(e).__name__}', f'get_timing raises {type(e).__name__}({e}) for "{text}" assembled to {list(data)}',
                          {'kind': 'asm', 'tbl': tbl, 'op': op, 'key': f'timing-lookup:assembled:{type(e).__name__}'})
            continue
        if t is None:
            chk.violation('timing-missing:assembled', f'get_timing returns None for "{text}" assembled to {list(data)}',
                          {'kind': 'asm', 'tbl': tbl, 'op': op, 'key': 'timing-missing:assembled'})


class ToolTimeout(BaseException):
    pass


TOOL_CPU_LIMIT = 60    # CPU seconds of this process per tool run (sna2skool on the all-opcodes image takes about 1)


def with_cpu_limit(fn, *args):
    """Run fn under a CPU-time watchdog (independent of machine load): a decoder that reports a size of 0 makes
    sna2ctl / sna2skool loop forever; that must be reported, not hang the check."""
    import signal

    def on_timer(signum, frame):
        raise ToolTimeout(f'no result after {TOOL_CPU_LIMIT} CPU seconds')

    old = signal.signal(signal.SIGPROF, on_timer)
    signal.setitimer(signal.ITIMER_PROF, TOOL_CPU_LIMIT)
    try:
        return fn(*args)
    finally:
        signal.setitimer(signal.ITIMER_PROF, 0)
        signal.signal(signal.SIGPROF, old)


def tool_e2e(chk, w, impls):
    """sna2skool (Timings=1) and sna2ctl on an image that holds every opcode sequence: no crash under any
    additional-opcode set; the statement boundaries sna2skool prints and the T-states it annotates are the
    simulator's."""
    import contextlib
    import io
    import re
    sna2skool, sna2ctl = fresh_import_keep('skoolkit.sna2skool', 'skoolkit.sna2ctl')
    org = 0x8000
    layout = []
    data = []
    for tbl, op in slots():
        code = code_of(tbl, op, 5, 7)[:4] + [0, 0, 0, 0]
        layout.append((tbl, op, org + len(data), code))
        data += code
    binfile = os.path.join(chk.scratch, 'c07_all.bin')
    ctlfile = os.path.join(chk.scratch, 'c07_all.ctl')
    with open(binfile, 'wb') as f:
        f.write(bytes(data))
    with open(ctlfile, 'w') as f:
        f.write(f'c {org}\ni {org + len(data)}\n')
    sim = impls[0][1]
    observed = {}
    for tbl, op, a, code in layout:
        seen = set()
        for st in sim_states(a, code):
            r = step_delta(sim.step(*st))
            if r:
                seen.add(r[1])
        observed[a] = seen
    for k, b in enumerate(data):
        w.mem[org + k] = b
    w.dirty = list(range(org, org + len(data)))
    option_sets = ['', 'ALL'] + (list(OPTIONS) if chk.thorough else ['NEG', 'XYCB'])
    for names in option_sets:
        out, err = io.StringIO(), io.StringIO()
        try:
            with contextlib.redirect_stdout(out), contextlib.redirect_stderr(err):
                with_cpu_limit(sna2skool.main, ['-o', str(org), '-c', ctlfile, '-I', f'Opcodes={names}', '-I', 'Timings=1', binfile])
        except BaseException as e:
            chk.case('tool:sna2skool', ('tool', names))
            chk.violation(f'tool:sna2skool-timings:{type(e).__name__}', f'sna2skool -I Opcodes={names} -I Timings=1 on an image holding every '
                          f'opcode sequence raises {type(e).__name__}: {e}', {'kind': 'tool', 'opcodes': names, 'key': f'tool:sna2skool-timings:{type(e).__name__}'})
            continue
        stmts = {}
        order = []
        for line in out.getvalue().splitlines():
            m = re.match(r'^[a-z* ](\d{5}) (.*?)\s*;\s*(\[[0-9/]+\])?', line)
            if m:
                stmts[int(m.group(1))] = (m.group(2), m.group(3))
                order.append(int(m.group(1)))
        nxt = {a: b for a, b in zip(order, order[1:])}
        for tbl, op, a, code in layout:
            chk.case(f'tool:sna2skool:{names or "default"}', ('tool', names, tbl, op))
            if a not in stmts or a not in nxt:
                chk.violation(f'tool:sna2skool-boundary:{tbl}', f'sna2skool -I Opcodes={names}: no statement starts at {a} ({tbl} {op:02X})',
                              {'kind': 'tool', 'opcodes': names, 'key': f'tool:sna2skool-boundary:{tbl}'})
                continue
            operation, comment = stmts[a]
            try:
                L = w.traceutils.disassemble(w.mem, a)[1]
            except Exception:
                continue    # reported per slot by check_case
            if nxt[a] - a != L:
                chk.violation(f'tool:sna2skool-length:{tbl}', f'sna2skool -I Opcodes={names}: "{operation}" at {a} ({tbl} {op:02X}) occupies '
                              f'{nxt[a] - a} byte(s), the trace disassembler and the simulator say {L}',
                              {'kind': 'tool', 'opcodes': names, 'key': f'tool:sna2skool-length:{tbl}'})
            if operation.upper().startswith('DEF'):
                continue
            got = set(map(int, comment.strip('[]').split('/'))) if comment else None
            if got != observed[a]:
                chk.violation(f'tool:sna2skool-tstates:{tbl}', f'sna2skool -I Opcodes={names} -I Timings=1 annotates "{operation}" '
                              f'({tbl} {op:02X}) with {comment}, the simulator takes {sorted(observed[a])}',
                              {'kind': 'tool', 'opcodes': names, 'key': f'tool:sna2skool-tstates:{tbl}'})
    out, err = io.StringIO(), io.StringIO()
    try:
        with contextlib.redirect_stdout(out), contextlib.redirect_stderr(err):
            with_cpu_limit(sna2ctl.main, ['-o', str(org), binfile])
        chk.case('tool:sna2ctl', ('tool', 'sna2ctl'))
    except BaseException as e:
        chk.violation(f'tool:sna2ctl:{type(e).__name__}', f'sna2ctl on an image holding every opcode sequence raises {type(e).__name__}: {e}',
                      {'kind': 'tool', 'opcodes': 'sna2ctl', 'key': f'tool:sna2ctl:{type(e).__name__}'})


def fresh_import_keep(*names):
    """Import further skoolkit modules from the repo without purging the ones already loaded."""
    import importlib
    return [importlib.import_module(n) for n in names]


def sim_facts(chk, impls):
    """The derived per-closure facts (Sim.instrTstates / instrSize / instrFalls, proved against the generated model)
    against what the real simulators do: T-state increment in the set, PC at pc + size whenever instrFalls."""
    ops = [f'sim {TBL_INDEX[tbl]} {op}' for tbl in PREFIXES for op in range(256)]
    model = chk.run_driver('C07', ops)
    if model is None:
        return
    impl_lines, model_lines, cmp_ops = [], [], []
    k = 0
    for tbl in PREFIXES:
        for op in range(256):
            line = model[k]
            k += 1
            if (tbl == 'MAIN' and op in (0xCB, 0xED, 0xDD, 0xFD)) or (tbl in ('DD', 'FD') and op == 0xCB):
                continue
            parts = [p.strip() for p in line.split(';')]
            ts = set(map(int, parts[0].split()[1:]))
            size = parts[1].split()[1]
            falls = parts[2].split()[1] == '1'
            for name, wrapper, _, is_c in impls[:1] + impls[2:3]:
                seen = set()
                pcs = set()
                a = 0x8000
                code = code_of(tbl, op, 5, 7)
                for st in sim_states(a, code):
                    r = step_delta(wrapper.step(*st))
                    if r:
                        seen.add(r[1])
                        pcs.add((r[0] - a) % 65536)
                obs = f't {" ".join(map(str, sorted(seen)))} ; falls-pc {sorted(pcs) if falls else "-"}'
                want = f't {" ".join(map(str, sorted(ts)))} ; falls-pc {[int(size)] if falls else "-"}'
                cmp_ops.append(f'{name} {tbl} {op:02X}')
                impl_lines.append(obs)
                model_lines.append(want)
                chk.case(f'simfacts:{name}', ('simfacts', name, tbl, op))
    chk.compare('real simulators (directed states) vs derived closure facts instrTstates/instrSize', cmp_ops, impl_lines, model_lines)


def run(chk):
    chk.rule = ('correspondence: every opcode slot (252 unprefixed + 256 CB + 256 ED + 2x255 DD/FD + 2x256 DDCB/FDCB second/fourth '
                'bytes = 1786) x addresses (mid-memory, 65532..65535, 0/1/16K/32K boundaries, random) x operand patterns (boundary bytes; all '
                '256 values for the operand-carrying forms; all 256 offsets of the six relative jumps at the addresses where the '
                'target leaves 0..65535) x additional-opcode sets (none, ALL, each option alone, random subsets; thorough: all 128 '
                'subsets of the ED options) x lower/upper case x wrap, on the four real decoders vs their Lean models; the derived '
                'closure facts vs directed single steps of the real Python/C simulators. e2e: for every slot and address the four '
                'real decoders and one step of the four real simulators (flags all clear / all set, B/BC at 1 and at >1, so both '
                'paths of every conditional or repeating instruction run) compared directly: lengths, operation text under the same '
                'operand format, get_timing vs T-states taken, no lookup failing in any of the four decoders (any exception is reported '
                'with the opcode sequence); z80.Assembler-emitted sequences; sna2skool -I Timings=1 and sna2ctl on an image holding '
                'every opcode sequence, under a CPU-time watchdog (a decoder size of 0 makes them loop forever). non-trivial = distinct '
                '(tool, slot, configuration, address, operands)')
    chk.trusted += ['translate/gen_c07.py: table dump (imports the four modules from the repo) and AST path analysis of the closures '
                    '(the derived T-state sets / sizes are re-proved against the generated simulator model on every run)',
                    'hand models Model/InstrDecode.lean of Disassembler.disassemble, traceutils.disassemble, opcodes.decode, '
                    'z80.get_timing tied by exhaustive correspondence',
                    'translator translate/py2lean.py (simulator model; validated per slot against the real simulators)']
    chk.assumptions += [
        'Hand models (Model/InstrDecode.lean) of the decode wrappers — Disassembler.disassemble + decoder methods, '
        'traceutils.disassemble + its eight formatting functions, opcodes.decode + _after_*, z80.get_timing — are tied to the '
        'real functions by correspondence (all slots x addresses x operand patterns x option sets each run), not by translation; '
        'the data tables themselves are dumped from the imported modules each run.',
        'Operand formatting is abstracted: theorems hold for all byte/word formatter functions; per-operand base letters '
        '(the `base` argument, e.g. character or binary operands), custom OperandFormatter components whose output contains '
        "'IX'/'ix' (fd_arg's str.replace acts on the formatted text) and asm_lower text equality are outside the text theorems "
        '(asm_lower lengths/timings are covered).',
        'RST-argument handling (rst_handler) in Disassembler.disassemble / opcodes.decode is not modelled (C14 covers it); '
        'DEFB/DEFM/DEFW/DEFS range methods are not part of this property.',
        'Simulator: T-state sets and fall-through sizes are theorems about the model generated from simulator.py (plain '
        'simulator); the contended simulator adds delays only (C19) and the C simulators are tied by C06 dispatch equality and by '
        'the per-slot single steps here. Reachability of BOTH members of a timing pair is shown by the directed single steps on '
        'the real simulators and, in Lean, by explicit branch conditions for JR/JP/CALL/RET/DJNZ only; for the repeating block '
        'instructions Lean shows which member goes with which PC behaviour, not the register condition selecting it.',
        'snactl.py (the control-file generator proper) is only covered through opcodes.decode; interrupts, HALT wake-up and '
        'multi-instruction runs are outside this property.']
    ok_gen = regen(chk)
    if chk.thorough:
        chk.clean_modules([PROPS] + ['SkoolVerif.Proofs.C07Chk.' + m for m in ('Shape', 'DisLen', 'Dec', 'Sim', 'Timing', 'Text', 'TextAny', 'Pair')])
    ok = chk.lake_build([PROPS, 'SkoolVerif.Prelude.Proto', 'SkoolVerif.Gen.C07Tables', 'SkoolVerif.Gen.C07SimFacts']) if ok_gen else False
    chk.audit(PROPS)
    if chk.thorough and ok:
        chk.leanchecker([PROPS])
    w = World()
    if ok:
        corr_dis(chk, w)
        corr_trace(chk, w)
        corr_decode(chk, w)
        corr_timing(chk, w)
    from simcheck import build_impls
    impls, _ = build_impls(chk)
    if ok:
        sim_facts(chk, impls)
    e2e(chk, w, impls)
    tool_e2e(chk, w, impls)
    chk.exhaustive = True


def replay(chk, data):
    w = World()
    if data.get('kind') == 'tool':
        from simcheck import build_impls
        impls, _ = build_impls(chk)
        n0 = len(chk.violations)
        tool_e2e(chk, w, impls)
        hit = [v for v in chk.violations[n0:] if v['key'] == data.get('key')]
        for v in hit:
            print(v['desc'])
        chk.violations[n0:] = []
        return bool(hit)
    if data.get('kind') == 'asm':
        code = code_of(data['tbl'], data['op'], 5, 7)
        w.poke(0x8000, code)
        text, _ = w.traceutils.disassemble(w.mem, 0x8000, '', '', '')
        bs = w.z80.Assembler().assemble(text, 0x8000)
        try:
            return w.z80.get_timing(Instr(0x8000, text, list(bs))) is None
        except Exception:
            return True
    from simcheck import build_impls
    impls, _ = build_impls(chk)
    bad, _ = check_case(w, impls, data['tbl'], data['op'], data['a'], data['d'], data['n'], data['opts'], run_sims=data.get('sims', True))
    for key, desc in bad:
        print(desc)
    return any(key == data.get('key') for key, _ in bad) or (bool(bad) and 'key' not in data)
