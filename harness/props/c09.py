"""C09 — snapshot round trips and snapshot editing.

Theorems: lean/SkoolVerif/Props/C09.lean
  * Z80 RLE coder (round trip for all byte strings, length bound, block framing), the version 2/3
    page-block stream (reader . writer = identity on any bank list);
  * header fields with a non-trivial encoding (T-states of both formats and both frame lengths, 16-bit
    words incl. negative values, R bit 7 / border / compression flag in byte 12, IM / issue 2 in byte 29);
  * poke / move / patch / _get_page on a flat list and on a Memory: frame theorems (exactly the named
    cells change, by the stated operator; every other bank, the ROM window, the window map unchanged),
    default and explicit destination bank of --move, Python slice-assignment semantics incl. the
    overrun of a bank-prefixed move (C09_move_full refuted, partial theorem proved).
Tie: hand models + correspondence (this file, c09_edit.py) against skoolkit.snapshot, one driver run.
E2E: write_snapshot -> Snapshot.get + independent decoder (this file); bin2sna.main / snapmod.main over
generated option sets against an oracle written from the manual pages (c09_e2e.py)."""
import itertools
import os

from framework import fresh_import
from indep import snapdec
from props import c09_edit, c09_e2e

PROPS = 'SkoolVerif.Props.C09'
REGS16 = ('bc', 'de', 'hl', 'ix', 'iy', 'sp', 'pc', '^bc', '^de', '^hl')
REGS8 = ('a', 'f', 'i', 'r', '^a', '^f')
ATTR = {'^bc': 'bc2', '^de': 'de2', '^hl': 'hl2', '^a': 'a2', '^f': 'f2'}


def rle_inputs(chk):
    rng = chk.rng
    n = chk.scale(6, 9)
    for k in range(n + 1):
        for t in itertools.product((237, 0, 1), repeat=k):
            yield 'exh', list(t)
    for k in range(1, 601):
        yield 'edrun', [237] * k
        if k % chk.scale(7, 1) == 0:
            yield 'edrun+', [rng.randrange(256)] + [237] * k + [rng.randrange(256)]
    for v in range(256):
        for k in (1, 4, 5, 6, 254, 255, 256, 257, 511):
            if chk.thorough or (v + k) % 5 == 0:
                yield 'run', [v] * k + [237] * (v % 3)
    for _ in range(chk.scale(400, 6000)):
        size = rng.choice((0, 1, 2, 3, 8, 40, 300))
        alpha = rng.choice(((237, 0), (237, 237, 1), tuple(range(256)), (237, 5, 5, 5)))
        d = []
        while len(d) < size:
            d += [rng.choice(alpha)] * rng.choice((1, 1, 1, 2, 3, 5, 6, 260))
        yield 'rand', d
    if chk.thorough:
        for _ in range(8):
            yield 'page', [rng.choice((237, 0, rng.randrange(256))) for _ in range(16384)]


def dec_inputs(chk):
    rng = chk.rng
    for k in range(chk.scale(5, 7)):
        for t in itertools.product((237, 0, 2), repeat=k):
            yield 'dexh', list(t)
    for _ in range(chk.scale(500, 8000)):
        yield 'drand', [rng.choice((237, 237, 0, 1, rng.randrange(256))) for _ in range(rng.randrange(12))]


def rle_ops(chk, snapshot):
    z = snapshot.Z80()
    ops, impl = [], []
    for tag, d in rle_inputs(chk):
        body = list(z._make_z80_ram_block(d, 7))[3:]
        ops.append('enc ' + ' '.join(map(str, d)))
        impl.append('ok ' + ' '.join(map(str, body)))
        chk.case(tag, ('enc', tuple(d)) if 237 in d or len(set(d)) < len(d) else None,
                 {'op': 'enc', 'data': d[:24], 'impl': body[:24]})
        # the property itself on the real code: decode(encode(d)) == d
        back = z._decompress(body)
        if back != d:
            chk.violation('z80-rle-roundtrip', 'Z80._decompress(_make_z80_ram_block(d)) != d',
                          {'kind': 'rle', 'data': d})
    for tag, d in dec_inputs(chk):
        try:
            r = 'ok ' + ' '.join(map(str, z._decompress(d)))
        except snapshot.SnapshotError:
            r = 'err zeroRun'
        except IndexError:
            r = 'err truncated'
        ops.append('dec ' + ' '.join(map(str, d)))
        impl.append(r)
        chk.case(tag, ('dec', tuple(d)) if 237 in d else None)
    return ops, impl


def correspondence(chk, snapshot):
    """One driver run for all model/implementation ties of this property."""
    segs = [('Z80Rle model vs snapshot.Z80 (_make_z80_ram_block/_decompress)',) + rle_ops(chk, snapshot),
            ('Z80Rle.readPages vs Z80._read page loop',) + c09_edit.pages_ops(chk, snapshot),
            ('Z80Rle.writePages vs Z80.data page loop',) + c09_edit.wpages_ops(chk, snapshot),
            ('SnapHeader model vs Z80._set_registers/_set_state/_read, SZX._add_zxstz80regs/_read',) + c09_edit.header_ops(chk, snapshot),
            ('SnapEdit model vs snapshot.poke/move/patch on list and Memory',) + c09_edit.edit_ops(chk, snapshot)]
    ops = [op for seg in segs for op in seg[1]]
    model = chk.run_driver('C09', ops)
    if model is None:
        return
    i = 0
    strip = lambda l: [s.rstrip() for s in l]   # noqa
    for name, sops, simpl in segs:
        smodel = model[i:i + len(sops)]
        i += len(sops)
        if 'readPages' in name:
            pairs = [c09_edit.norm_pages(m, r) for m, r in zip(smodel, simpl)]
            smodel, simpl = [p[0] for p in pairs], [p[1] for p in pairs]
        chk.compare(name, sops, strip(simpl), strip(smodel))


def skoolkit_frame(e):
    import traceback
    tb = traceback.extract_tb(e.__traceback__)
    return next((f'{os.path.basename(f.filename)}:{f.name}:{f.lineno}' for f in reversed(tb) if '/skoolkit/' in f.filename), None)


def rand_machine(rng):
    m = rng.choice(('48K', '128K', '+2'))
    def bank():
        kind = rng.randrange(4)
        if kind == 0:
            return [rng.randrange(256)] * 16384
        if kind == 1:
            return [rng.choice((237, 0)) for _ in range(16384)]
        out = []
        while len(out) < 16384:
            out += [rng.choice((237, rng.randrange(256)))] * rng.choice((1, 1, 2, 5, 300))
        return out[:16384]
    if m == '48K':
        ram = bank() + bank() + bank()
    else:
        ram = [bank() for _ in range(8)]
    regs = {r: rng.choice((0, 0xFFFF, 0x8000, rng.randrange(65536))) for r in REGS16}
    regs.update({r: rng.choice((0, 255, 128, rng.randrange(256))) for r in REGS8})
    frame = 69888 if m == '48K' else 70908
    state = {'border': rng.randrange(8), 'iff': rng.randrange(2), 'im': rng.randrange(3),
             'tstates': rng.choice((0, 1, frame - 1, frame // 4, frame // 4 - 1, rng.randrange(frame)))}
    if m != '48K':
        state['7ffd'] = rng.randrange(256)
        state['fffd'] = rng.randrange(256)
        for i in range(16):
            state[f'ay[{i}]'] = rng.randrange(256)
    else:
        state['issue2'] = rng.randrange(2)
    return m, ram, regs, state


def check_roundtrip(chk, snapshot, m, ram, regs, state, scratch):
    """Returns list of (key, description) failures for one machine state."""
    fails = []
    reg_specs = [f'{k}={v}' for k, v in regs.items()]
    state_specs = [f'{k}={v}' for k, v in state.items()]
    got = {}
    for ext in ('z80', 'szx'):
        fn = os.path.join(scratch, f'rt.{ext}')
        snapshot.write_snapshot(fn, ram, reg_specs, state_specs, m)
        s = snapshot.Snapshot.get(fn)
        with open(fn, 'rb') as f:
            raw = f.read()
        try:
            ind = (snapdec.decode_z80 if ext == 'z80' else snapdec.decode_szx)(raw)
        except (ValueError, IndexError, AssertionError, KeyError) as e:
            fails.append((f'{ext}-indep-unreadable', f'{ext}: the independent decoder cannot read the written file: {type(e).__name__} {e}'))
            continue
        vals = {}
        for r, v in regs.items():
            vals[r] = getattr(s, ATTR.get(r, r))
            if vals[r] != v:
                fails.append((f'{ext}-reg-{r}', f'{ext}: register {r} written {v} read {vals[r]}'))
            iv = ind.get(ATTR.get(r, r))
            if iv != v:
                fails.append((f'{ext}-indep-reg-{r}', f'{ext}: register {r} written {v}, independent decoder reads {iv}'))
        for k, v in state.items():
            if k == 'iff':
                rv, iv = (s.iff1, s.iff2), (ind['iff1'], ind['iff2'])
                v = (v, v)
            elif k == 'tstates':
                rv, iv = s.tstates, ind['tstates']
            elif k == '7ffd':
                rv, iv = s.out7ffd, ind['out7ffd']
            elif k == 'fffd':
                rv, iv = s.outfffd, ind['outfffd']
            elif k.startswith('ay['):
                i = int(k[3:-1])
                rv, iv = s.ay[i], ind['ay'][i]
            elif k == 'issue2':
                rv = iv = v  # not exposed by Snapshot; checked through the independent decoder only
                iv = ind.get('issue2', v)
            else:
                rv, iv = getattr(s, k), ind[k]
            vals[k] = rv
            if rv != v:
                fails.append((f'{ext}-state-{k.split("[")[0]}', f'{ext}: state {k} written {v} read {rv}'))
            if iv != v:
                fails.append((f'{ext}-indep-state-{k.split("[")[0]}', f'{ext}: state {k} written {v}, independent decoder reads {iv}'))
        if s.machine != m:
            fails.append((f'{ext}-machine', f'{ext}: machine {m} read {s.machine}'))
        if m == '48K':
            back = list(s.ram())
            if back != list(ram):
                fails.append((f'{ext}-ram48', f'{ext}: 48K RAM differs after round trip'))
            iram = ind['banks'].get(5, []) + ind['banks'].get(2, []) + ind['banks'].get(0, [])
            if iram != list(ram):
                fails.append((f'{ext}-indep-ram48', f'{ext}: independent decoder reads different 48K RAM'))
        else:
            back = s.ram(-1)
            flat = [b for bank in ram for b in bank]
            if list(back) != flat:
                fails.append((f'{ext}-ram128', f'{ext}: 128K RAM differs after round trip'))
            if [b for i in range(8) for b in ind['banks'].get(i, [])] != flat:
                fails.append((f'{ext}-indep-ram128', f'{ext}: independent decoder reads different 128K RAM'))
            # the 64K views: ram(p) = banks 5, 2, p; ram() = banks 5, 2 and the bank paged in by the saved 0x7FFD value
            for p in list(range(8)) + [None]:
                q = state.get('7ffd', 0) % 8 if p is None else p
                if list(s.ram(p)) != list(ram[5]) + list(ram[2]) + list(ram[q]):
                    fails.append((f'{ext}-ram128-page-view', f'{ext}: ram({p}) is not banks 5, 2, {q} of the written RAM'))
                    break
        got[ext] = vals
    for k in (got['z80'] if len(got) == 2 else ()):
        if got['z80'][k] != got['szx'][k]:
            fails.append((f'formats-differ-{k.split("[")[0]}', f'{k}: z80 reads {got["z80"][k]}, szx reads {got["szx"][k]}'))
    return fails


def e2e(chk, snapshot):
    rng = chk.rng
    for n in range(chk.scale(12, 150)):
        m, ram, regs, state = rand_machine(rng)
        if n % 4 == 3:
            # absolute clocks as trace.py passes them (T-states since the start of the run)
            frame = 69888 if m == '48K' else 70908
            state['tstates'] = rng.choice((frame, frame * 3 + 5, 2 ** 24 - 1, 2 ** 24, 2 ** 24 + 87, rng.randrange(2 ** 26)))
            want = state['tstates'] % frame
        try:
            fails = check_roundtrip(chk, snapshot, m, ram, dict(regs), {**state, **({'tstates': state['tstates']})}, chk.scratch) \
                if state['tstates'] < (69888 if m == '48K' else 70908) else check_abs_t(chk, snapshot, m, ram, regs, state)
        except Exception as e:   # noqa: writing or reading back a valid machine state raised
            where = skoolkit_frame(e)
            if where is None:
                raise
            fails = [(f'roundtrip-crash-{type(e).__name__}', f'{m}: write_snapshot/Snapshot.get raised {type(e).__name__}: {e} (in {where})')]
        chk.case(f'e2e-{m}', ('e2e', n), {'machine': m, 'regs': regs, 'state': {k: v for k, v in state.items() if not k.startswith('ay')}})
        for key, desc in fails:
            chk.violation(key, desc, {'kind': 'snapshot', 'machine': m, 'regs': regs, 'state': state,
                                      'ram_seed': [chk.seed, n]})


def check_abs_t(chk, snapshot, m, ram, regs, state):
    """`tstates` larger than a frame: both formats must read back the same frame position."""
    frame = 69888 if m == '48K' else 70908
    fails = []
    vals = {}
    for ext in ('z80', 'szx'):
        fn = os.path.join(chk.scratch, f'abs.{ext}')
        snapshot.write_snapshot(fn, ram, [f'{k}={v}' for k, v in regs.items()], [f'{k}={v}' for k, v in state.items()], m)
        vals[ext] = snapshot.Snapshot.get(fn).tstates
    want = state['tstates'] % frame
    if vals['z80'] % frame != vals['szx'] % frame:
        key = 'szx-tstates-ge-2^24' if state['tstates'] >= 2 ** 24 and vals['z80'] == want else 'formats-differ-tstates'
        fails.append((key, f"tstates={state['tstates']}: z80 reads {vals['z80']}, szx reads {vals['szx']} (frame position {want})"))
    return fails


MODULES = ['SkoolVerif.Model.Z80Rle', 'SkoolVerif.Model.SnapHeader', 'SkoolVerif.Model.SnapEdit',
           'SkoolVerif.Proofs.Z80RleLemmas', 'SkoolVerif.Proofs.SnapHeaderLemmas', 'SkoolVerif.Proofs.SnapEditLemmas',
           'SkoolVerif.Proofs.SnapMemLemmas', 'SkoolVerif.Proofs.SnapBankLemmas', PROPS]


def run(chk):
    chk.rule = ('RLE: all strings over {ED,00,01} up to length 6 (quick) / 9 (thorough), ED runs 1..600, runs of every byte value around the '
                '4/5 and 255/256 thresholds, random run-structured strings; decoder and page reader also on malformed streams. '
                'Header fields: boundary T-states of both frame lengths, all byte-12/byte-29 values, words incl. negative/over-wide values. '
                'poke/move/patch: stateful op streams on lists (several lengths) and on Memory objects of every constructor shape '
                '(128K any page incl. aliased 2/5, 48K SZX/Z80v1, 48K Z80v2/3, flat 64K, missing paged bank), boundary-biased addresses, '
                'ranges/steps/operators, bank prefixes 0..7 and beyond, malformed specs. '
                'E2E: write_snapshot->Snapshot.get + independent decoder on random machines; snapmod.main and bin2sna.main over option sets '
                '(every register name, every state attribute, all 81 source/destination prefix combinations of --move, pokes, patches, mixed) '
                'on 48K/128K/+2 .z80 (v1,v2,v3) and .szx inputs against an oracle written from the manual pages; directed groups: every state '
                'attribute on its own, --reg pc=0 on a version 1 file, bin2sna --reg pc / --reg sp / --state border without --start / --stack / '
                '--border, the 64K views ram(0..7) and ram() of every 128K round trip; the independent Z80 decoder is strict (end marker, '
                'block lengths). non-trivial = distinct op/spec/option set')
    chk.trusted += ['hand models lean/SkoolVerif/Model/{Z80Rle,SnapHeader,SnapEdit}.lean tied by correspondence (harness/props/c09.py, c09_edit.py)',
                    'independent decoder harness/indep/snapdec.py and option oracle harness/indep/snapedit_oracle.py (written from the format '
                    'descriptions / manual pages)', 'zlib (SZX RAM pages), CPython list/slice semantics (modelled in SnapEdit.pySlice/pySliceSet)']
    chk.assumptions += ['zlib.decompress(zlib.compress(x)) == x',
                        'full header layouts (which byte holds which register) are checked by round trip + independent decoder + the tool sweep '
                        '(exploration); the theorems cover the fields whose encoding is not the identity',
                        'spec numerals are modelled for the documented forms (decimal, 0x/$ hexadecimal, % binary, no sign/white space/underscore); '
                        'negative numbers, which int() accepts, are outside the model and are not generated',
                        'argparse, file I/O and the order snapmod applies option groups in (patch, move, poke, registers/state) are e2e only']
    (snapshot, snapmod, bin2sna) = fresh_import('skoolkit.snapshot', 'skoolkit.snapmod', 'skoolkit.bin2sna')
    ok = chk.lake_build([PROPS, 'SkoolVerif.Prelude.Proto'])
    chk.audit(PROPS)
    if chk.thorough and ok:
        chk.leanchecker(MODULES)
    try:
        correspondence(chk, snapshot)
    except Exception as e:   # noqa: raised by skoolkit while the correspondence inputs were evaluated
        where = skoolkit_frame(e)
        if where is None:
            raise
        chk.breaks.append({'kind': 'correspondence', 'name': 'C09 models vs skoolkit.snapshot',
                           'detail': f'the real code raised {type(e).__name__}: {e} (in {where}) while the correspondence inputs were evaluated'})
    e2e(chk, snapshot)
    for name, sweep in (('snapmod sweep', lambda: c09_e2e.snapmod_sweep(chk, (snapshot, snapmod))),
                        ('bin2sna sweep', lambda: c09_e2e.bin2sna_sweep(chk, (snapshot, snapmod), bin2sna))):
        try:
            sweep()
        except c09_e2e.Unreadable:
            pass                 # reported as a violation where it was found; the rest of the sweep has no starting point
        except Exception as e:   # noqa: the real code raised outside a tool run (writing / reading an input snapshot)
            where = skoolkit_frame(e)
            if where is None:
                raise
            chk.breaks.append({'kind': 'e2e', 'name': name, 'detail': f'the real code raised {type(e).__name__}: {e} (in {where})'})
    unl = chk.extra.get('unlisted_findings')
    if unl:
        for k, v in unl.items():
            chk.note(f'finding not listed in KNOWN_FINDINGS.txt (reported, not failing the run): {k}: {v["what"]}; e.g. {v["example"]}')


def replay(chk, data):
    (snapshot, snapmod, bin2sna) = fresh_import('skoolkit.snapshot', 'skoolkit.snapmod', 'skoolkit.bin2sna')
    if data['kind'] in ('snapmod', 'bin2sna', 'input', 'statecase'):
        return c09_e2e.replay_case(chk, (snapshot, snapmod), bin2sna, data)
    if data['kind'] == 'rle':
        z = snapshot.Z80()
        d = data['data']
        return z._decompress(list(z._make_z80_ram_block(d, 3))[3:]) != d
    import random
    rng = random.Random(data['ram_seed'][0])
    m = data['machine']
    if m == '48K':
        ram = [rng.randrange(256) for _ in range(49152)]
    else:
        ram = [[rng.randrange(256) for _ in range(16384)] for _ in range(8)]
    frame = 69888 if m == '48K' else 70908
    try:
        if data['state']['tstates'] >= frame:
            return bool(check_abs_t(chk, snapshot, m, ram, data['regs'], data['state']))
        return bool(check_roundtrip(chk, snapshot, m, ram, data['regs'], data['state'], chk.scratch))
    except Exception as e:   # noqa
        if skoolkit_frame(e) is None:
            raise
        return True
