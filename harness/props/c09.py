"""C09 — snapshot round trips.

Theorems: lean/SkoolVerif/Props/C09.lean (RLE round trip for all byte strings, length bound,
block framing).  Tie: hand model + correspondence (this file) against
skoolkit.snapshot.Z80._make_z80_ram_block/_decompress.  E2E: write_snapshot -> Snapshot.get and an
independent decoder, bin2sna/snapmod option effects."""
import itertools
import os

from framework import fresh_import
from indep import snapdec

PROPS = 'SkoolVerif.Props.C09'
REGS16 = ('bc', 'de', 'hl', 'ix', 'iy', 'sp', 'pc', '^bc', '^de', '^hl')
REGS8 = ('a', 'f', 'i', 'r', '^a', '^f')
ATTR = {'^bc': 'bc2', '^de': 'de2', '^hl': 'hl2', '^a': 'a2', '^f': 'f2'}


def rle_inputs(chk):
    rng = chk.rng
    n = chk.scale(6, 9)
    for k in range(n + 1):
        for t in itertools.product((237, 0, 1), repeat=k):
            yield 'exh', list(t)
    for k in range(1, 601):
        yield 'edrun', [237] * k
        if k % chk.scale(7, 1) == 0:
            yield 'edrun+', [rng.randrange(256)] + [237] * k + [rng.randrange(256)]
    for v in range(256):
        for k in (1, 4, 5, 6, 254, 255, 256, 257, 511):
            if chk.thorough or (v + k) % 5 == 0:
                yield 'run', [v] * k + [237] * (v % 3)
    for _ in range(chk.scale(400, 6000)):
        size = rng.choice((0, 1, 2, 3, 8, 40, 300))
        alpha = rng.choice(((237, 0), (237, 237, 1), tuple(range(256)), (237, 5, 5, 5)))
        d = []
        while len(d) < size:
            d += [rng.choice(alpha)] * rng.choice((1, 1, 1, 2, 3, 5, 6, 260))
        yield 'rand', d
    if chk.thorough:
        for _ in range(8):
            yield 'page', [rng.choice((237, 0, rng.randrange(256))) for _ in range(16384)]


def dec_inputs(chk):
    rng = chk.rng
    for k in range(chk.scale(5, 7)):
        for t in itertools.product((237, 0, 2), repeat=k):
            yield 'dexh', list(t)
    for _ in range(chk.scale(500, 8000)):
        yield 'drand', [rng.choice((237, 237, 0, 1, rng.randrange(256))) for _ in range(rng.randrange(12))]


def correspondence(chk, snapshot):
    z = snapshot.Z80()
    ops, impl = [], []
    for tag, d in rle_inputs(chk):
        body = list(z._make_z80_ram_block(d, 7))[3:]
        ops.append('enc ' + ' '.join(map(str, d)))
        impl.append(('ok ' + ' '.join(map(str, body))).rstrip() + ('' if body else ''))
        chk.case(tag, ('enc', tuple(d)) if 237 in d or len(set(d)) < len(d) else None,
                 {'op': 'enc', 'data': d[:24], 'impl': body[:24]})
        # the property itself on the real code: decode(encode(d)) == d
        back = z._decompress(body)
        if back != d:
            chk.violation('z80-rle-roundtrip', 'Z80._decompress(_make_z80_ram_block(d)) != d',
                          {'kind': 'rle', 'data': d})
    for tag, d in dec_inputs(chk):
        try:
            r = 'ok ' + ' '.join(map(str, z._decompress(d)))
        except snapshot.SnapshotError:
            r = 'err zeroRun'
        except IndexError:
            r = 'err truncated'
        ops.append('dec ' + ' '.join(map(str, d)))
        impl.append(r)
        chk.case(tag, ('dec', tuple(d)) if 237 in d else None)
    impl = [s if s != 'ok' else 'ok ' for s in impl]
    model = chk.run_driver('C09', ops)
    if model is not None:
        model = [s if s != 'ok' else 'ok ' for s in model]
    chk.compare('Z80Rle model vs snapshot.Z80', ops, impl, model)


def rand_machine(rng):
    m = rng.choice(('48K', '128K', '+2'))
    def bank():
        kind = rng.randrange(4)
        if kind == 0:
            return [rng.randrange(256)] * 16384
        if kind == 1:
            return [rng.choice((237, 0)) for _ in range(16384)]
        out = []
        while len(out) < 16384:
            out += [rng.choice((237, rng.randrange(256)))] * rng.choice((1, 1, 2, 5, 300))
        return out[:16384]
    if m == '48K':
        ram = bank() + bank() + bank()
    else:
        ram = [bank() for _ in range(8)]
    regs = {r: rng.choice((0, 0xFFFF, 0x8000, rng.randrange(65536))) for r in REGS16}
    regs.update({r: rng.choice((0, 255, 128, rng.randrange(256))) for r in REGS8})
    frame = 69888 if m == '48K' else 70908
    state = {'border': rng.randrange(8), 'iff': rng.randrange(2), 'im': rng.randrange(3),
             'tstates': rng.choice((0, 1, frame - 1, frame // 4, frame // 4 - 1, rng.randrange(frame)))}
    if m != '48K':
        state['7ffd'] = rng.randrange(256)
        state['fffd'] = rng.randrange(256)
        for i in range(16):
            state[f'ay[{i}]'] = rng.randrange(256)
    else:
        state['issue2'] = rng.randrange(2)
    return m, ram, regs, state


def check_roundtrip(chk, snapshot, m, ram, regs, state, scratch):
    """Returns list of (key, description) failures for one machine state."""
    fails = []
    reg_specs = [f'{k}={v}' for k, v in regs.items()]
    state_specs = [f'{k}={v}' for k, v in state.items()]
    got = {}
    for ext in ('z80', 'szx'):
        fn = os.path.join(scratch, f'rt.{ext}')
        snapshot.write_snapshot(fn, ram, reg_specs, state_specs, m)
        s = snapshot.Snapshot.get(fn)
        with open(fn, 'rb') as f:
            raw = f.read()
        ind = (snapdec.decode_z80 if ext == 'z80' else snapdec.decode_szx)(raw)
        vals = {}
        for r, v in regs.items():
            vals[r] = getattr(s, ATTR.get(r, r))
            if vals[r] != v:
                fails.append((f'{ext}-reg-{r}', f'{ext}: register {r} written {v} read {vals[r]}'))
            iv = ind.get(ATTR.get(r, r))
            if iv != v:
                fails.append((f'{ext}-indep-reg-{r}', f'{ext}: register {r} written {v}, independent decoder reads {iv}'))
        for k, v in state.items():
            if k == 'iff':
                rv, iv = (s.iff1, s.iff2), (ind['iff1'], ind['iff2'])
                v = (v, v)
            elif k == 'tstates':
                rv, iv = s.tstates, ind['tstates']
            elif k == '7ffd':
                rv, iv = s.out7ffd, ind['out7ffd']
            elif k == 'fffd':
                rv, iv = s.outfffd, ind['outfffd']
            elif k.startswith('ay['):
                i = int(k[3:-1])
                rv, iv = s.ay[i], ind['ay'][i]
            elif k == 'issue2':
                rv = iv = v  # not exposed by Snapshot; checked through the independent decoder only
                iv = ind.get('issue2', v)
            else:
                rv, iv = getattr(s, k), ind[k]
            vals[k] = rv
            if rv != v:
                fails.append((f'{ext}-state-{k.split("[")[0]}', f'{ext}: state {k} written {v} read {rv}'))
            if iv != v:
                fails.append((f'{ext}-indep-state-{k.split("[")[0]}', f'{ext}: state {k} written {v}, independent decoder reads {iv}'))
        if s.machine != m:
            fails.append((f'{ext}-machine', f'{ext}: machine {m} read {s.machine}'))
        if m == '48K':
            back = list(s.ram())
            if back != list(ram):
                fails.append((f'{ext}-ram48', f'{ext}: 48K RAM differs after round trip'))
            iram = ind['banks'].get(5, []) + ind['banks'].get(2, []) + ind['banks'].get(0, [])
            if iram != list(ram):
                fails.append((f'{ext}-indep-ram48', f'{ext}: independent decoder reads different 48K RAM'))
        else:
            back = s.ram(-1)
            flat = [b for bank in ram for b in bank]
            if list(back) != flat:
                fails.append((f'{ext}-ram128', f'{ext}: 128K RAM differs after round trip'))
            if [b for i in range(8) for b in ind['banks'].get(i, [])] != flat:
                fails.append((f'{ext}-indep-ram128', f'{ext}: independent decoder reads different 128K RAM'))
        got[ext] = vals
    for k in got['z80']:
        if got['z80'][k] != got['szx'][k]:
            fails.append((f'formats-differ-{k.split("[")[0]}', f'{k}: z80 reads {got["z80"][k]}, szx reads {got["szx"][k]}'))
    return fails


def e2e(chk, snapshot):
    rng = chk.rng
    for n in range(chk.scale(12, 150)):
        m, ram, regs, state = rand_machine(rng)
        if n % 4 == 3:
            # absolute clocks as trace.py passes them (T-states since the start of the run)
            frame = 69888 if m == '48K' else 70908
            state['tstates'] = rng.choice((frame, frame * 3 + 5, 2 ** 24 - 1, 2 ** 24, 2 ** 24 + 87, rng.randrange(2 ** 26)))
            want = state['tstates'] % frame
        fails = check_roundtrip(chk, snapshot, m, ram, dict(regs), {**state, **({'tstates': state['tstates']})}, chk.scratch) \
            if state['tstates'] < (69888 if m == '48K' else 70908) else check_abs_t(chk, snapshot, m, ram, regs, state)
        chk.case(f'e2e-{m}', ('e2e', n), {'machine': m, 'regs': regs, 'state': {k: v for k, v in state.items() if not k.startswith('ay')}})
        for key, desc in fails:
            chk.violation(key, desc, {'kind': 'snapshot', 'machine': m, 'regs': regs, 'state': state,
                                      'ram_seed': [chk.seed, n]})


def check_abs_t(chk, snapshot, m, ram, regs, state):
    """`tstates` larger than a frame: both formats must read back the same frame position."""
    frame = 69888 if m == '48K' else 70908
    fails = []
    vals = {}
    for ext in ('z80', 'szx'):
        fn = os.path.join(chk.scratch, f'abs.{ext}')
        snapshot.write_snapshot(fn, ram, [f'{k}={v}' for k, v in regs.items()], [f'{k}={v}' for k, v in state.items()], m)
        vals[ext] = snapshot.Snapshot.get(fn).tstates
    want = state['tstates'] % frame
    if vals['z80'] % frame != vals['szx'] % frame:
        key = 'szx-tstates-ge-2^24' if state['tstates'] >= 2 ** 24 and vals['z80'] == want else 'formats-differ-tstates'
        fails.append((key, f"tstates={state['tstates']}: z80 reads {vals['z80']}, szx reads {vals['szx']} (frame position {want})"))
    return fails


def run(chk):
    chk.rule = ('byte strings: all strings over {ED,00,01} up to length 6 (quick) / 9 (thorough), ED runs 1..600, '
                'runs of every byte value around the 4/5 and 255/256 thresholds, random run-structured strings; '
                'decoder also on malformed streams; e2e: random machines (48K/128K/+2) written as .z80 and .szx. '
                'non-trivial = contains ED or a repeated byte (distinct by content)')
    chk.trusted += ['hand model lean/SkoolVerif/Model/Z80Rle.lean tied by correspondence (harness/props/c09.py)',
                    'zlib (SZX RAM pages), CPython']
    chk.assumptions += ['zlib.decompress(zlib.compress(x)) == x',
                        'header/register field layouts are checked by round trip + independent decoder (exploration), not by theorem']
    (snapshot,) = fresh_import('skoolkit.snapshot')
    ok = chk.lake_build([PROPS, 'SkoolVerif.Prelude.Proto'])
    chk.audit(PROPS)
    if chk.thorough and ok:
        chk.leanchecker([PROPS])
    correspondence(chk, snapshot)
    e2e(chk, snapshot)


def replay(chk, data):
    (snapshot,) = fresh_import('skoolkit.snapshot')
    if data['kind'] == 'rle':
        z = snapshot.Z80()
        d = data['data']
        return z._decompress(list(z._make_z80_ram_block(d, 3))[3:]) != d
    import random
    rng = random.Random(data['ram_seed'][0])
    m = data['machine']
    if m == '48K':
        ram = [rng.randrange(256) for _ in range(49152)]
    else:
        ram = [[rng.randrange(256) for _ in range(16384)] for _ in range(8)]
    frame = 69888 if m == '48K' else 70908
    if data['state']['tstates'] >= frame:
        return bool(check_abs_t(chk, snapshot, m, ram, data['regs'], data['state']))
    return bool(check_roundtrip(chk, snapshot, m, ram, data['regs'], data['state'], chk.scratch))
