"""C13 — simulated LOAD results do not depend on speed-up options or simulator choice.

Theorems: lean/SkoolVerif/Props/C13.lean.  The DEC A hook and the tape-sampling fast-forward of BOTH languages are translated from
loadtracer.py / c/csimulator.c on every run (harness/loadrun.py) and proved equal to the hand models.  Ties: translator for the Z80 closures (validated per slot by
C05/C06/C08) and for the ACCELERATORS table (translate/gen_c13.py, dumped on every run); hand models
Model/LoadAccel.lean, Model/LoadTape.lean, Model/AccelWalk.lean tied by correspondence here:
one iteration of the real load loop (Python LoadTracer.run and C CSimulator.load) vs the model on
generated tape/CPU states, the tracer's tables exhaustively, the static loop walk vs the loops as the
real simulators execute them.  E2E: tap2sna.main over the speed-up matrix on generated tapes."""
import os
import sys

import loadrun
import simgen
from framework import fresh_import, VERIF, REPO, LeanLock

PROPS = 'SkoolVerif.Props.C13'


def regen_accelerators(chk):
    sys.path.insert(0, os.path.join(VERIF, 'translate'))
    import importlib
    try:
        import gen_c13
        importlib.reload(gen_c13)
        text = gen_c13.gen(REPO)
    except Exception as e:
        chk.breaks.append({'kind': 'translator', 'name': 'loadsample.py -> Gen/Accelerators.lean', 'detail': f'{type(e).__name__}: {e}'})
        return False
    with LeanLock():
        if chk.write_gen(os.path.join('SkoolVerif', 'Gen', 'Accelerators.lean'), text):
            chk.note('regenerated (source changed): Accelerators.lean')
    return True


def run(chk):
    from props import c13_corr, c13_e2e
    chk.rule = ('correspondence: one iteration of the load loop on generated states (tape-sampling loops of every ACCELERATORS shape placed at boundary '
                'addresses, counters 0/1/254/255, T at edge - k*loop_time +-1, block/tape ends, pauses, key stops, DEC A loops with A in 0..255, '
                'IN from ROM-loader/AY/odd ports), Python and C; tables exhaustively; e2e: tap2sna over accelerator x accelerate-dec-a x pause x '
                'fast-load x cmio x python x polarity x first-edge on bin2tap tapes and on custom loaders built from each recognised loop shape. '
                'non-trivial = distinct (implementation, kind, tape state, clock, accelerators) / distinct (tape, configuration). directed groups '
                '(every run): for every table entry the loop goes on sampling on the real simulators exactly while (ear, ear_mask, polarity) say so; '
                'DEC A loops with boundary A and across the 64K wrap; counters about to run out with the edge far away; the 1 ms / 1 s / PC-in-RAM '
                'stop conditions at +-1; the Python and the C load loop run against each other across a frame boundary with interrupts enabled; '
                'e2e: tapes ending at 0xFFFF, stray blocks before the program, A and F of DEC A (loops and single) kept in RAM / final F, the '
                'clock the simulation ends on compared among runs with equal pause, a tape that loads only under some settings is a violation')
    chk.trusted += ['translator translate/py2lean.py for the Z80 closures (validated per slot by C05/C06/C08 runs)',
                    'translate/gen_c13.py: ACCELERATORS dumped as data on every run (compared entry by entry with the imported table)',
                    'hand models Model/LoadAccel.lean, Model/LoadTape.lean, Model/AccelWalk.lean tied by correspondence (one load-loop iteration, Python and C)',
                    'DERIVED FROM SOURCE (translated on every run, proved equal to the hand models, run against the real functions): the DEC A hook of '
                    'both languages (translate/pyload2lean.py: LoadTracer.dec_a(...).func + loadtracer DEC/DEC0/INC0 -> Gen/PyLoad.lean; '
                    'translate/cload2lean.py: dec_a of c/csimulator.c -> Gen/CLoad/dec_a.lean; python_dec_a_derived_from_source, '
                    'c_dec_a_derived_from_source, c_dec_a_eq_python) and the tape-sampling fast-forward of the port handler of both languages '
                    '(the matched-accelerator block of _read_port.func / read_port; python_read_port_derived_from_source, '
                    'c_read_port_derived_from_source, read_port_ffwd_c_eq_python); the code around the fast-forward (accelerator search, '
                    'signature comparison, move-to-front, announce/stop-tape branches, AY port) is pinned by exact text in the translators and '
                    'modelled by hand (LoadTape.readPort, sigMatchPy/sigMatchC)',
                    'C advance_tape and the shells of CSimulator_load / LoadTracer.run (interrupt test, stop conditions, fast_load hand-over): hand '
                    'models LoadTape.tapeAdvance/frameAdvance/stopCond tied by correspondence (one loop iteration, Python and C) and differentially']
    chk.assumptions += [
        'the ROM/BASIC code executed between blocks and the loaders themselves are executed, not reasoned about: that complete loads end in '
        'identical snapshots is exploration (e2e matrix); what is proved is that each speed-up step equals the steps it replaces',
        'tape-sampling fast-forward: proved equal to `loops` iterations of the loop body the table entry describes (tslIter), and one trip round the '
        'real loop is proved (accelerator_loop_trip, in the generated Z80 model, for every table entry, any memory/registers) to be exactly that body: '
        'back at the IN after loop_time T-states, memory unchanged, counter +-1, R += loop_r_inc. The hypothesis of that theorem is that the run follows '
        'the loop path (`Follows`: every conditional jump/return of the loop resolves as while no edge is seen and the counter has not run out); that this '
        'is what happens exactly while the EAR level is unchanged is flag-level reasoning per loop shape and is not proved: it is covered by the dynamic '
        'walk on the real simulators and by the e2e loaders. For signatures that end in a JP cc opcode the two address bytes (not part of the signature, '
        'not checked by the accelerator either) are assumed to point at the loop (`BackEdgeOk`)',
        'A and F at the IN are not restored by the fast-forward for shapes that modify them between the INC/DEC and the IN (dead values, '
        'overwritten before use); R is not for the d-and-h shape (LD R,A in the loop)',
        'pulses shorter than one loop iteration (two edges between consecutive samples) are outside tsl_no_edge_skipped (explicit hypothesis); '
        'the e2e generator keeps pulses >= 300 T-states',
        'fast_load (ROM LD-BYTES shortcut), interrupts accepted during a load, 128K paging during a load, KeypressTracer: not modelled (e2e only)',
        'pause=0/1 are compared only on tapes whose loader polls the port before the next block starts (standard 1 s gaps, short custom gaps): '
        'otherwise pause=1 rewinds the clock to the first edge of the block by design and R necessarily differs',
    ]
    loadtracer, loadsample, tape = fresh_import('skoolkit.loadtracer', 'skoolkit.loadsample', 'skoolkit.tape')
    gen_ok = simgen.regen(chk)
    gen_ok = regen_accelerators(chk) and gen_ok
    # the LOAD functions themselves, translated from loadtracer.py and c/csimulator.c (harness/loadrun.py)
    gen_ok = (loadrun.regen_load(chk) if gen_ok else False) and gen_ok
    ok = chk.lake_build([PROPS, 'SkoolVerif.Prelude.SimProto', 'SkoolVerif.Gen.SimHandlers', 'SkoolVerif.Gen.Accelerators',
                         'SkoolVerif.Model.AccelWalk'] + loadrun.LOAD_DRIVER_MODULES) if gen_ok else False
    chk.audit(PROPS)
    if chk.thorough and ok:
        chk.leanchecker([PROPS])
    from simcheck import build_impls
    impls, classes = build_impls(chk)
    if ok:
        c13_corr.tables(chk, loadtracer, loadsample)
    c13_corr.walks(chk, loadsample, classes, use_driver=ok)     # the dynamic part is an oracle on the real table + simulators
    if ok:
        c13_corr.lsteps(chk, loadtracer, loadsample, tape, classes)
        # the translations (Gen/PyLoad.lean, Gen/CLoad/*.lean) against the real functions they were derived from
        loadrun.tables_correspondence(chk, loadtracer)
        loadrun.deca_correspondence(chk, loadtracer, loadsample, tape, classes)
    c13_corr.int_lsteps(chk, loadtracer, loadsample, tape, classes)
    loadrun.timeout_boundary(chk, loadtracer, tape, classes)
    c13_e2e.run(chk, classes)
    chk.exhaustive = False


def replay(chk, data):
    from props import c13_corr, c13_e2e
    from simcheck import build_impls
    impls, classes = build_impls(chk)
    if data.get('kind') == 'lstep-int':
        loadtracer, loadsample, tape = fresh_import('skoolkit.loadtracer', 'skoolkit.loadsample', 'skoolkit.tape')
        case = data['case']
        case['mem'] = {int(k): v for k, v in case['mem'].items()}
        case['blocks'] = [tuple(b) for b in case['blocks']]
        outs = {}
        for n in ('py-plain', 'c-plain'):
            rig = c13_corr.LoadRig(n, dict(classes)[n], loadtracer, tape, n.startswith('c'))
            ok, r = c13_corr.forked(lambda: c13_corr.run_cases(rig, [dict(case)], {}))
            outs[n] = ' '.join(r[0][0].split()) if ok else f'CRASH {r}'
            print(n, outs[n][:300])
        return outs['py-plain'] != outs['c-plain']
    if data.get('kind') == 'lstep':
        # a load-loop iteration on which the C extension died
        loadtracer, loadsample, tape = fresh_import('skoolkit.loadtracer', 'skoolkit.loadsample', 'skoolkit.tape')
        accs = {n: loadsample.Accelerator(*a) for n, a in loadsample.ACCELERATORS.items()}
        cls = dict(classes)[data['impl']]
        rig = c13_corr.LoadRig(data['impl'], cls, loadtracer, tape, data['impl'].startswith('c'))
        case = data['case']
        case['mem'] = {int(k): v for k, v in case['mem'].items()}
        ok, r = c13_corr.forked(lambda: c13_corr.run_cases(rig, [case], accs))
        print('result:', r if not ok else r[0][0][:200])
        return not ok
    return c13_e2e.replay(chk, classes, data)
